#!/usr/bin/env python3
"""Regenerates MANIFEST.json from the table below."""
import json, subprocess

SEQ = "explicit-state exploration of operation/completion/drop histories on the real code against a simulated io_uring kernel (seqx)"
SCH = "preemption-bounded exhaustive schedule exploration of real threads on the real code (schx, baton-passing scheduler at lock/atomic/syscall hooks)"
CLAIMED = {
    "C01": dict(technique=SEQ + "; oracle: tracking allocator x kernel-side memory footprints",
                text="Bounded exhaustive exploration of every history over {poll, re-poll, drop future, Ring::poll, kernel consumes, kernel completes with each outcome incl. EINTR/ECANCELED, cancel wins/loses} for ~50 operation shapes (alone and in pairs) on the real a10 code; at every free and at every kernel access the tracking allocator and the simulated kernel's footprint table are compared (use-after-free, state freed in flight, inputs changed).",
                ref="6/C01"),
    "C02": dict(technique=SEQ + "; reference-model oracle per operation",
                text="Bounded exhaustive exploration: every history over {create, poll (same/fresh waker), Ring::poll, kernel completes request i with outcome o} up to the stated depth/deviation bounds is executed on the real a10 code against the simulated kernel; every poll result is compared with a per-operation FIFO reference model of what the kernel posted for that submission.",
                ref="6/C02"),
    "C03": dict(technique=SEQ + " plus " + SCH + "; oracle: waker log at every Ring::poll return / deadlock = lost wake-up",
                text="Sequential: all histories of polls (same/fresh waker), drops, completions and Ring::poll for SQ sizes 1,2,4 with 1-3 operations; after every Ring::poll the waker of every pending operation whose completion was consumed, and of futures waiting for a submission slot, must have fired. Threads: task thread(s) and ring thread under every schedule up to the preemption bound; a task that is never woken although a later complete Ring::poll consumed its completion / returned with room is a violation.",
                ref="6/C03", engine="seqx+schx"),
    "C04": dict(technique=SCH + " plus " + SEQ + " over initial counter values incl. 2^32 wrap",
                text="Threads: 2-3 submitter threads and a consumer (Ring::poll thread or sq-thread actor) on SQ sizes 1-2 with counters starting at 0 and 2^32-k, all schedules up to the preemption bound; the simulated kernel checks every consumed entry (no overrun, none consumed twice, none lost: every accepted operation resolves with its own result). Sequential: all submit/consume/complete histories for SQ sizes 1,2,4 and 7 initial counter values.",
                ref="6/C04", engine="schx+seqx"),
    "C05": dict(technique=SEQ + " with adversarial completion-queue contents (canary scribbling, bookkeeping CQEs, counter wrap)",
                text="All batchings of operation and bookkeeping completions (user_data 0-3, CQE_F_SKIP padding) for CQ sizes 2,4 and 7 initial counter values; free CQ slots are overwritten with a canary operation's user_data before every Ring::poll; the per-operation FIFO model, 'canary never resolves' and 'CQ drained, head==tail after Ring::poll' are checked on every history.",
                ref="6/C05"),
    "C06": dict(technique=SEQ + "; oracle: ASYNC_CANCEL requests seen by the kernel vs. drop history, tracking allocator for leaks/double frees",
                text="All histories with drops at every point of the life cycle of single-shot, two-step and multishot operations (alone and in pairs, SQ full and not full), both outcomes of the cancel race; every ASYNC_CANCEL must target exactly a dropped in-flight operation, and after the epilogue every allocation made by a10 must have been freed exactly once.",
                ref="6/C06"),
    "C07": dict(technique=SEQ + "; oracle: simulated kernel's descriptor table plus close(2) interposer",
                text="All histories of descriptor-creating operations (open, socket, accept, multishot accept, pipe, to_direct; regular and direct), drops of the futures, of the returned AsyncFds (queue full and not full), AsyncFd::close, and standard stream handles; at the end every descriptor the kernel issued must have been closed exactly once in the way matching its kind, and fds 0-2 never.",
                ref="6/C07"),
    "C08": dict(technique=SEQ + " plus " + SCH + "; oracle: multiset conservation of pool buffer ids across kernel ring / pending completions / live ReadBufs",
                text="Sequential: all histories of single-shot and multishot pool reads/receives, completions with and without buffers, -ENOBUFS, drops of operations in flight, and drops of the handed-out ReadBufs for pool sizes 1,2,4, buffer sizes 1 and 8, with the 16-bit ring tail starting at 0 and just below 2^16 (wrap inside the history); after every action the buffer ids offered in the kernel's ring, selected for undelivered completions and owned by live ReadBufs must partition the pool, ring entries must describe their buffer, and ReadBuf contents must be what the kernel wrote. Threads: 2-3 threads dropping ReadBufs concurrently (optionally while the kernel keeps selecting buffers), all schedules up to the preemption bound.",
                ref="6/C08", engine="seqx+schx"),
    "C09": dict(technique=SEQ + " over fault sequences (EINTR/ECANCELED)^k followed by every final outcome",
                text="For each of ~45 operation shapes: every sequence of EINTR/ECANCELED completions followed by every final outcome; the re-issued submission must be byte-identical (same user_data, same addresses), the caller must observe only the last attempt's result (reference model), and no cancel request may be emitted.",
                ref="6/C09"),
    "C10": dict(technique="explicit-state exploration over every sequence of kernel answers (short transfer sizes incl. 0) for each composite I/O case on the real code (seqx); byte-stream reference oracle",
                text="For write_all/write_all_vectored/send_all/send_all_vectored (plain, extract, positional, flags, zero-copy) over every buffer shape with 1-3 (thorough 1-4, plus 5 and 8) buffers of length 0-2 (0-3) incl. empty buffers in every position, and for read_n/read_n_vectored/recv_n/recv_n_vectored over Vec, pre-filled Vec, LimitedBuf and pool ReadBuf targets and every n: every sequence of accepted/delivered counts the kernel may answer is executed; each request must offer exactly the bytes not yet written at the right offset with the caller's flags and opcode, success only after everything, WriteZero/UnexpectedEof exactly when the kernel answers 0.",
                ref="6/C10"),
    "C11": dict(technique=SCH + "; oracle: a poller blocked in the kernel forever after a completed wake() = lost wake-up",
                text="Poller thread (poll(None), poll(0);poll(None), poll(None);poll(None), with or without completions already published) and 1-2 waker threads on default, kernel-thread, single-issuer and defer-taskrun rings, all schedules up to the preemption bound including the sq-thread going idle; wake() after the Ring is dropped.",
                ref="6/C11", engine="schx"),
    "C12": dict(technique="explicit-state exploration of every drop order of the objects of each scenario on the real code (seqx); oracles: mmap/munmap/close interposer, simulated kernel descriptor table, tracking allocator",
                text="~80 scenarios (operations not started / queued / in flight / abandoned / finished-unpolled / mid-stream, queue clone, regular and direct AsyncFd, pool, owned and unassigned ReadBuf; kernel cancelling everything, failing to cancel, cancelling nothing) x every permutation of dropping those objects that safe Rust admits; checked: no panic/crash, no use of freed memory, the three ring mappings unmapped exactly once with their original lengths before the ring fd is closed, queued clean-up requests submitted, every descriptor closed once, no allocation left.",
                ref="6/C12"),
}
NOT_APPLICABLE = {}
ALL = [f"C{i:02d}" for i in range(1, 19)]
for p in ALL:
    if p not in CLAIMED and p not in NOT_APPLICABLE:
        NOT_APPLICABLE[p] = "check not built yet in this round (work in progress; see DESIGN.md section 6 for the planned model-checking harness)"

hooks = subprocess.run(["git", "-C", "/repo", "log", "--format=%H %s", "--grep=verif hooks"], capture_output=True, text=True).stdout.strip().splitlines()
m = {
    "version": 1,
    "setup_cmd": "./check setup",
    "hooks": {
        "guard": "a10_verif",
        "enable": "RUSTFLAGS=\"--cfg a10_verif\" (set in /verif/harness/.cargo/config.toml; the harness crate depends on a10 by path=/repo)",
        "baseline_off_cmd": "cd /repo && cargo test --workspace --no-fail-fast --offline",
        "source_commits": [h.split()[0] for h in hooks],
        "add_only": True,
    },
    "engines": [
        {"name": "schx", "path": "harness/src/schx.rs", "serves_properties": [p for p in sorted(CLAIMED) if "schx" in CLAIMED[p].get("engine","seqx")], "kind_free_text": "stateless preemption-bounded DFS over schedules of real OS threads (baton passing at a10's lock/try_lock/shared-word hooks and simk syscall boundaries), kernel actors scheduled like threads, deadlock detection"},
        {"name": "seqx", "path": "harness/src/seqx.rs", "serves_properties": [p for p in sorted(CLAIMED) if "seqx" in CLAIMED[p].get("engine","seqx")], "kind_free_text": "explicit-state DFS over action histories of the real a10 code against the simulated kernel simk; nodes re-created by replay; state-key merging beyond d_all; deviation bounded"},
        {"name": "simk", "path": "harness/src/simk.rs", "serves_properties": sorted(CLAIMED), "kind_free_text": "in-process simulated io_uring kernel (memfd rings, explorer-controlled completions)"},
    ],
    "checks": [],
    "not_applicable": [{"property_id": p, "reason": r} for p, r in sorted(NOT_APPLICABLE.items())],
    "notes": "exit 0 = held (possibly KNOWN-FINDING lines), 1 = VIOLATION line, 2 = MACHINERY failure. Known findings: /verif/known_findings.txt.",
}
for p, c in sorted(CLAIMED.items()):
    m["checks"].append({
        "property_id": p,
        "quick_cmd": f"./check {p} quick",
        "thorough_cmd": f"./check {p} thorough",
        "evidence_file": f"/verif/evidence/{p}.json",
        "replay_cmd_template": "./check replay {path}",
        "engine": c.get("engine", "seqx"),
        "level_claimed": {"category": c.get("category", "model_checking"), "text": c["text"], "design_ref": c["ref"]},
        "level_note": c.get("note", "Trusted base: the simulated kernel simk (written from the io_uring ABI), the tracking allocator and the mmap/close interposer; bounds as stated in the evidence file; sequential consistency at the scheduling points."),
        "technique": c["technique"],
    })
json.dump(m, open("/verif/MANIFEST.json", "w"), indent=1)
print("wrote MANIFEST.json:", len(m["checks"]), "checks,", len(m["not_applicable"]), "not applicable")
