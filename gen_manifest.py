#!/usr/bin/env python3
"""Regenerates MANIFEST.json from the table below."""
import json, subprocess

SEQ = "explicit-state exploration of operation/completion/drop histories on the real code against a simulated io_uring kernel (seqx)"
SCH = "preemption-bounded exhaustive schedule exploration of real threads on the real code (schx, baton-passing scheduler at lock/atomic/syscall hooks)"
CLAIMED = {
    "C01": dict(technique=SEQ + " plus " + SCH + "; oracle: tracking allocator x kernel-side memory footprints", engine="seqx+schx",
                text="Bounded exhaustive exploration of every history over {poll, re-poll, drop future, Ring::poll, kernel consumes, kernel completes with each outcome incl. EINTR/ECANCELED, cancel wins/loses} for ~70 operation shapes (alone and in pairs; incl. signal iterators, readiness streams, composites, splice, advise, allocate), plus task/ring/kernel threads under every schedule up to the preemption bound with futures dropped mid-flight on the real a10 code; at every free and at every kernel access the tracking allocator and the simulated kernel's footprint table are compared (use-after-free, state freed in flight, inputs changed).",
                ref="6/C01"),
    "C02": dict(technique=SEQ + " plus " + SCH + "; reference-model oracle per operation", engine="seqx+schx",
                text="Bounded exhaustive exploration: every history over {create, poll (same/fresh waker), Ring::poll, kernel completes request i with outcome o} up to the stated depth/deviation bounds is executed on the real a10 code against the simulated kernel; every poll result is compared with a per-operation FIFO reference model of what the kernel posted for that submission (single-shot, two-step, multishot, re-arming iterators). Threads: each task polls its operation on its own thread while a ring thread polls and one kernel actor per task posts its scripted completions at any scheduling point; every schedule up to the preemption bound, same value oracle.",
                ref="6/C02"),
    "C03": dict(technique=SEQ + " plus " + SCH + "; oracle: waker log at every Ring::poll return / deadlock = lost wake-up",
                text="Sequential: all histories of polls (same/fresh waker), drops, completions and Ring::poll for SQ sizes 1,2,4 with 1-3 operations; after every Ring::poll the waker of every pending operation whose completion was consumed, and of futures waiting for a submission slot, must have fired. Threads: task thread(s) and ring thread under every schedule up to the preemption bound; a task that is never woken although a later complete Ring::poll consumed its completion / returned with room is a violation. Also: zero-copy sends (ready with their second completion) and descriptor / readiness streams, Ring::poll(None) as a letter (a call that would wait in the kernel for ever while an operation waits for a slot it has just freed), kernel-thread rings whose thread may be asleep.",
                ref="6/C03", engine="seqx+schx"),
    "C04": dict(technique=SCH + " plus " + SEQ + " over initial counter values incl. 2^32 wrap",
                text="Threads: 2-3 submitter threads and a consumer (Ring::poll thread or sq-thread actor) on SQ sizes 1-2 with counters starting at 0 and 2^32-k, all schedules up to the preemption bound; the simulated kernel checks every consumed entry (no overrun, none consumed twice, none lost: every accepted operation resolves with its own result). Sequential: all submit/consume/complete histories for SQ sizes 1,2,4 and 7 initial counter values, on a clamped (maximum size) ring with the kernel going through the submission index array when a10 does not switch it off, and on kernel-thread rings whose thread may sleep. Threads also on single-issuer rings.",
                ref="6/C04", engine="schx+seqx"),
    "C05": dict(technique=SEQ + " plus " + SCH + ", both with adversarial completion-queue contents (canary scribbling, bookkeeping CQEs, counter wrap)", engine="seqx+schx",
                text="All batchings of operation and bookkeeping completions (user_data 0-3, CQE_F_SKIP padding) for CQ sizes 2,4 and 7 initial counter values; free CQ slots are overwritten with a canary operation's user_data before every Ring::poll; the per-operation FIFO model, 'canary never resolves' and 'CQ drained, head==tail after Ring::poll' are checked on every history; the Ring's own last drain (at drop, with more completions than the queue holds) is judged too. Threads: the same with task threads, a ring thread, kernel actors posting completions and an actor overwriting every free CQ slot with a stale canary entry at any scheduling point (one scheduling point before each CQE read), counters starting at 0 and 2^32-2.",
                ref="6/C05"),
    "C06": dict(engine="seqx+schx", technique=SEQ + " plus " + SCH + "; oracle: ASYNC_CANCEL requests seen by the kernel vs. drop history, tracking allocator for leaks/double frees",
                text="All histories with drops at every point of the life cycle of single-shot, two-step and multishot operations (alone and in pairs, SQ full and not full), both outcomes of the cancel race; every ASYNC_CANCEL must target exactly a dropped in-flight operation, and after the epilogue every allocation made by a10 must have been freed exactly once.",
                ref="6/C06"),
    "C07": dict(engine="seqx+casex", technique=SEQ + " plus a case family for descriptor conversions (casex); oracle: simulated kernel's descriptor table plus close(2) interposer",
                text="All histories of descriptor-creating operations (open, O_TMPFILE open, socket, accept and multishot accept on regular and on direct listening descriptors, pipe, to_direct; regular and direct), drops of the futures, of the returned AsyncFds (queue full and not full), AsyncFd::close, and standard stream handles; at the end every descriptor the kernel issued must have been closed exactly once in the way matching its kind, and fds 0-2 never; descriptors are wrapped with the kind that was asked for (incl. open_temp_file); close(2) answering EINTR on the synchronous path; Signals::to_direct_descriptor (the signalfd it replaces).",
                ref="6/C07"),
    "C08": dict(technique=SEQ + " plus " + SCH + "; oracle: multiset conservation of pool buffer ids across kernel ring / pending completions / live ReadBufs",
                text="Sequential: all histories of single-shot and multishot pool reads/receives, completions with and without buffers, -ENOBUFS, drops of operations in flight, and drops of the handed-out ReadBufs for pool sizes 1,2,4, buffer sizes 1 and 8, with the 16-bit ring tail starting at 0 and just below 2^16 (wrap inside the history); after every action the buffer ids offered in the kernel's ring, selected for undelivered completions and owned by live ReadBufs must partition the pool, ring entries must describe their buffer, and ReadBuf contents must be what the kernel wrote. Threads: 2-3 threads dropping ReadBufs concurrently (optionally while the kernel keeps selecting buffers), all schedules up to the preemption bound, with a temporal oracle (the kernel never selects a buffer a live ReadBuf owns) and pools whose buffers are all handed out (release into ring slot 0). A pool life-cycle world: get / read / explicit release / clear / drop of two ReadBufs and the pool handle in every order; buffer sizes that are not powers of two.",
                ref="6/C08", engine="seqx+schx"),
    "C09": dict(technique=SEQ + " over fault sequences (EINTR/ECANCELED)^k followed by every final outcome",
                text="For each of ~45 operation shapes: also a kernel error (EIO) as the answer to any request; every sequence of EINTR/ECANCELED completions followed by every final outcome; the re-issued submission must be byte-identical (same user_data, same addresses), the caller must observe only the last attempt's result (reference model), and no cancel request may be emitted.",
                ref="6/C09"),
    "C10": dict(technique="explicit-state exploration over every sequence of kernel answers (short transfer sizes incl. 0) for each composite I/O case on the real code (seqx); byte-stream reference oracle",
                text="For write_all/write_all_vectored/send_all/send_all_vectored (plain, extract, positional, flags, zero-copy) over every buffer shape with 1-3 (thorough 1-4, plus 5 and 8) buffers of length 0-2 (0-3) incl. empty buffers in every position, and for read_n/read_n_vectored/recv_n/recv_n_vectored over Vec, pre-filled Vec, LimitedBuf and pool ReadBuf targets and every n: every sequence of accepted/delivered counts the kernel may answer is executed; each request must offer exactly the bytes not yet written at the right offset with the caller's flags and opcode, success only after everything, WriteZero/UnexpectedEof exactly when the kernel answers 0.",
                ref="6/C10"),
    "C11": dict(technique=SCH + "; oracle: a poller blocked in the kernel forever after a completed wake() = lost wake-up; plus bounded exhaustive enumeration of sequential wake-then-poll cases (casex)",
                text="Poller thread (poll(None), poll(0);poll(None), poll(None);poll(None), with or without completions already published) and 1-2 waker threads on default, kernel-thread, single-issuer and defer-taskrun rings, all schedules up to the preemption bound including the sq-thread going idle; wake() after the Ring is dropped, and wake() racing with the Ring being dropped on another thread.",
                ref="6/C11", engine="schx+casex"),
    "C12": dict(engine="seqx+schx", technique="explicit-state exploration of every drop order of the objects of each scenario on the real code (seqx) plus " + SCH + " with the Ring dropped on its own thread; oracles: mmap/munmap/close interposer, simulated kernel descriptor table, tracking allocator",
                text="~140 scenarios (queue sizes 8, 2 and 1; operations not started / queued / in flight / abandoned / finished-unpolled / mid-stream, queue clone, regular and direct AsyncFd, pool, owned and unassigned ReadBuf; kernel cancelling everything, failing to cancel, cancelling nothing) x every permutation of dropping those objects that safe Rust admits; checked: no panic/crash, no use of freed memory, the three ring mappings unmapped exactly once with their original lengths before the ring fd is closed, queued clean-up requests submitted, every descriptor closed once, no allocation left. Threads: the Ring is dropped on its own thread while other threads drop a regular / direct AsyncFd, release a ReadBuf, drop the pool, call wake(), drop a queue clone, poll a fresh operation for the first time, or drop a queued / in-flight operation (default and kernel-thread rings, the sq-thread as an actor that may lag arbitrarily), every schedule up to the preemption bound, same oracles.",
                ref="6/C12"),
    "C13": dict(technique="bounded exhaustive enumeration: submissions decoded by a simulated kernel compared with an io_uring ABI table and regular-vs-direct differential, plus differential execution against the real kernel with libc as oracle (casex)",
                text="Part A (simulated kernel): 43 operation shapes, the second submission of every composite operation after a short first result (flags, zero-copy, advanced offsets), builder settings of splice, send_to, recv_from_vectored, multishot_recv, pipe, the statx mask and waitid options; each issued on a regular and on a direct descriptor; every field of the two submissions must agree except the descriptor field/flag, and must equal an independent ABI table; builder settings made before the first poll (offsets incl. 2^40 and 2^64-2, every send/recv flag, open options x mode x kind, advice, allocate mode, truncate length, shutdown mode ...) must be reflected. Part B (real kernel): 24 scenario families x {regular, direct} (read/write/vectored at every offset x length, open options, path operations, statx with every Metadata accessor on every descriptor type, truncate/allocate modes/advise/madvise/fsync, pool reads, TCP/UDP/Unix sockets with names, every socket option type, recv flags and the composite read_n/recv_n/write_all/send_all families against slow peers, multishot accept/recv/read, pipes, splice, waitid with every WaitInfo accessor, limited buffers, the sync_* helpers, process signals through Signals, descriptor conversions): the a10 call on a real ring and the libc call on an identical fixture are compared on result, failure, bytes at offsets, file position, stat fields, addresses and option values.",
                ref="6/C13", category="exploration", engine="casex",
                note="Trusted base: the Linux kernel of this sandbox (6.18) and libc as the oracle for part B; the ABI table in harness/src/c13.rs for part A. Exhaustive over the stated argument alphabets only."),
    "C14": dict(technique="bounded exhaustive enumeration of inputs against an independent reference (casex), and the pointer/length law on every request of the composite-operation world explored under all kernel answers (seqx)",
                text="Every provided Buf/BufMut/BufSlice/BufMutSlice implementation and wrapper (Vec, Box<[u8]>, String, Box<str>, static slices, both Cows, Arc<[u8]>, Arc<str>, StaticBuf, arrays and heterogeneous tuples of arity 1..8, LimitedBuf around each) over capacities {0,1,2,3,8,64}, fill levels, 12 limits incl. 2^32-1, 2^32, 2^32+1, 2^32+5 and usize::MAX, limits on and inside every member boundary, and every n for set_init, plus extend_from_slice with fewer, exactly as many and more bytes than fit: exposed pointer/length pairs inside the buffer's own memory, lengths/spare capacities agree with them, set_init(n) appends exactly the n bytes written front to back, limit never exceeded and decreased by n. Also pool ReadBufs at every fill level, static slices of 2^32-1 .. 5 GiB bytes over a never-touched mapping, and the crate-private skipping / counting wrappers through every request of the composite-operation world.",
                ref="6/C14", category="exploration", engine="casex+seqx",
                note="Pure functions; exhaustive over the stated alphabets. The crate-private SkipBuf/ReadNBuf wrappers are covered through C10's submissions."),
    "C15": dict(technique="explicit-state exploration of edit sequences on the real ReadBuf against a Vec<u8> reference (seqx, merged by contents)",
                text="Pool of 4 slots, buffer sizes 1,2,4 (thorough 8), every initial fill, slots 0/1/3, all edit sequences of length 3 (thorough 4) over truncate, clear, remove with every range form and bounds {0..cap+1, usize::MAX-1, usize::MAX}, set_len, extend_from_slice, spare_capacity_mut+set_len, a second kernel read, as_mut_slice writes, then release: same contents/length/panics as a capacity-guarded Vec, no byte outside the slot touched (canary slab), the released ring entry is the original slot.",
                ref="6/C15"),
    "C16": dict(technique="bounded exhaustive enumeration of addresses through the conversion functions plus real-kernel bind/getsockname (casex)",
                text="IPv4 (quick: 8 first octets x 7^3 x 4 ports; thorough: all 2^32 addresses x 4 ports), 64 structured IPv6 addresses x ports x flowinfo x scope id, either-family, Unix path names of every length 1..107, abstract names of every length 0..107 incl. embedded NULs, unnamed: address -> storage -> (pointer,length) -> bytes -> init with the length the kernel reports gives the same address and the storage bytes equal the sockaddr ABI; the kernel-reported lengths are established on real sockets; Unix addresses are also bound with exactly a10's (pointer,length) and read back.",
                ref="6/C16", category="exploration", engine="casex",
                note="Pure conversion functions plus the real kernel for Unix/IP name lengths."),
    "C17": dict(technique="bounded exhaustive enumeration of inotify record sequences x read batchings served by a simulated kernel to a real Watcher (casex over simk)",
                text="Every sequence of up to 3 (thorough 4) records over 12 representative inotify records, every cutting into successive reads that fit the buffer, ending with an empty read, a read error or nothing, EINTR on a read, plus every name length 0..255 and every mask bit x IN_ISDIR x watch-descriptor class: the events yielded must be exactly the user-visible records in order with mask, unpadded name and path_for; bytes after the written data are a decoy record that must never be decoded; references handed out are tracked (address range) against later reads into, and frees of, the buffer.",
                ref="6/C17", engine="casex"),
    "C18": dict(technique="exhaustive fault enumeration: configuration product x kernel answers on the real Config::build against the simulated kernel, with mmap/madvise failure injection by link-time interposition (casex)",
                text="Queue sizes {0,1,2,3,32,max} x completion size {unset,1,2*sq,64} x kernel thread (affinity, idle) x single issuer x defer taskrun x disabled x attach x direct descriptors, crossed with kernel answers (ok, other granted sizes, EINVAL/ENOMEM/EPERM/ENOSYS, each required feature bit missing, unmappable descriptor, 1st/2nd/3rd mmap failing, 1st-3rd madvise failing, file-table registration failing) and counter start values: on error no descriptor, mapping or allocation is left; on success the parameter block encodes the configuration, operations round-trip through the granted slots, enable is required iff disabled, and dropping the Ring restores the baseline.",
                ref="6/C18", category="fault_enumeration", engine="casex"),
}
NOT_APPLICABLE = {}
ALL = [f"C{i:02d}" for i in range(1, 19)]
for p in ALL:
    if p not in CLAIMED and p not in NOT_APPLICABLE:
        NOT_APPLICABLE[p] = "check not built yet in this round (work in progress; see DESIGN.md section 6 for the planned model-checking harness)"

hooks = subprocess.run(["git", "-C", "/repo", "log", "--format=%H %s", "--grep=verif hooks"], capture_output=True, text=True).stdout.strip().splitlines()
m = {
    "version": 1,
    "setup_cmd": "./check setup",
    "hooks": {
        "guard": "a10_verif",
        "enable": "RUSTFLAGS=\"--cfg a10_verif\" (set in /verif/harness/.cargo/config.toml; the harness crate depends on a10 by path=/repo)",
        "baseline_off_cmd": "cd /repo && cargo test --workspace --no-fail-fast --offline",
        "source_commits": [h.split()[0] for h in hooks],
        "add_only": True,
    },
    "engines": [
        {"name": "schx", "path": "harness/src/schx.rs", "serves_properties": [p for p in sorted(CLAIMED) if "schx" in CLAIMED[p].get("engine","seqx")], "kind_free_text": "stateless preemption-bounded DFS over schedules of real OS threads (baton passing at a10's lock/try_lock/shared-word hooks and simk syscall boundaries), kernel actors scheduled like threads, deadlock detection"},
        {"name": "seqx", "path": "harness/src/seqx.rs", "serves_properties": [p for p in sorted(CLAIMED) if "seqx" in CLAIMED[p].get("engine","seqx")], "kind_free_text": "explicit-state DFS over action histories of the real a10 code against the simulated kernel simk; nodes re-created by replay; state-key merging beyond d_all; deviation bounded"},
        {"name": "casex", "path": "harness/src/casex.rs", "serves_properties": [p for p in sorted(CLAIMED) if "casex" in CLAIMED[p].get("engine","seqx")], "kind_free_text": "flat bounded-exhaustive enumeration of cases (inputs, configurations x kernel answers, record sequences x batchings), each executed on the real code; shares the driver, confirmation-by-replay and evidence machinery with seqx"},
        {"name": "simk", "path": "harness/src/simk.rs", "serves_properties": sorted(CLAIMED), "kind_free_text": "in-process simulated io_uring kernel (memfd rings, explorer-controlled completions)"},
    ],
    "checks": [],
    "not_applicable": [{"property_id": p, "reason": r} for p, r in sorted(NOT_APPLICABLE.items())],
    "notes": "exit 0 = held (possibly KNOWN-FINDING lines), 1 = VIOLATION line, 2 = MACHINERY failure. Known findings: /verif/known_findings.txt.",
}
for p, c in sorted(CLAIMED.items()):
    m["checks"].append({
        "property_id": p,
        "quick_cmd": f"./check {p} quick",
        "thorough_cmd": f"./check {p} thorough",
        "evidence_file": f"/verif/evidence/{p}.json",
        "replay_cmd_template": "./check replay {path}",
        "engine": c.get("engine", "seqx"),
        "level_claimed": {"category": c.get("category", "model_checking"), "text": c["text"], "design_ref": c["ref"]},
        "level_note": c.get("note", "Trusted base: the simulated kernel simk (written from the io_uring ABI), the tracking allocator and the mmap/close interposer; bounds as stated in the evidence file; sequential consistency at the scheduling points."),
        "technique": c["technique"],
    })
json.dump(m, open("/verif/MANIFEST.json", "w"), indent=1)
print("wrote MANIFEST.json:", len(m["checks"]), "checks,", len(m["not_applicable"]), "not applicable")
