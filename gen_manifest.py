#!/usr/bin/env python3
"""Regenerates MANIFEST.json from the table below."""
import json, subprocess

CLAIMED = {
    "C02": dict(technique="explicit-state exploration of operation/completion histories on the real code against a simulated io_uring kernel (seqx), reference-model oracle per operation",
                text="Bounded exhaustive exploration: every history over {create, poll (same/fresh waker), Ring::poll, kernel completes request i with outcome o} up to the stated depth/deviation bounds is executed on the real a10 code against the simulated kernel; every poll result is compared with a per-operation FIFO reference model of what the kernel posted for that submission.",
                ref="6/C02"),
}
NOT_APPLICABLE = {}
ALL = [f"C{i:02d}" for i in range(1, 19)]
for p in ALL:
    if p not in CLAIMED and p not in NOT_APPLICABLE:
        NOT_APPLICABLE[p] = "check not built yet in this round (work in progress; see DESIGN.md section 6 for the planned model-checking harness)"

hooks = subprocess.run(["git", "-C", "/repo", "log", "--format=%H %s", "--grep=verif hooks"], capture_output=True, text=True).stdout.strip().splitlines()
m = {
    "version": 1,
    "setup_cmd": "./check setup",
    "hooks": {
        "guard": "a10_verif",
        "enable": "RUSTFLAGS=\"--cfg a10_verif\" (set in /verif/harness/.cargo/config.toml; the harness crate depends on a10 by path=/repo)",
        "baseline_off_cmd": "cd /repo && cargo test --workspace --no-fail-fast --offline",
        "source_commits": [h.split()[0] for h in hooks],
        "add_only": True,
    },
    "engines": [
        {"name": "seqx", "path": "harness/src/seqx.rs", "serves_properties": sorted(CLAIMED), "kind_free_text": "explicit-state DFS over action histories of the real a10 code against the simulated kernel simk; nodes re-created by replay; state-key merging beyond d_all; deviation bounded"},
        {"name": "simk", "path": "harness/src/simk.rs", "serves_properties": sorted(CLAIMED), "kind_free_text": "in-process simulated io_uring kernel (memfd rings, explorer-controlled completions)"},
    ],
    "checks": [],
    "not_applicable": [{"property_id": p, "reason": r} for p, r in sorted(NOT_APPLICABLE.items())],
    "notes": "exit 0 = held (possibly KNOWN-FINDING lines), 1 = VIOLATION line, 2 = MACHINERY failure. Known findings: /verif/known_findings.txt.",
}
for p, c in sorted(CLAIMED.items()):
    m["checks"].append({
        "property_id": p,
        "quick_cmd": f"./check {p} quick",
        "thorough_cmd": f"./check {p} thorough",
        "evidence_file": f"/verif/evidence/{p}.json",
        "replay_cmd_template": "./check replay {path}",
        "engine": c.get("engine", "seqx"),
        "level_claimed": {"category": c.get("category", "model_checking"), "text": c["text"], "design_ref": c["ref"]},
        "level_note": c.get("note", "Trusted base: the simulated kernel simk (written from the io_uring ABI), the tracking allocator and the mmap/close interposer; bounds as stated in the evidence file; sequential consistency at the scheduling points."),
        "technique": c["technique"],
    })
json.dump(m, open("/verif/MANIFEST.json", "w"), indent=1)
print("wrote MANIFEST.json:", len(m["checks"]), "checks,", len(m["not_applicable"]), "not applicable")
