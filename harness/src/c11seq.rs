//! C11, sequential part: a wake() made while nobody polls is remembered, and the next Ring::poll --
//! whatever timeout it was given -- must not wait in the kernel.
#![allow(dead_code)]

use std::time::Duration;

use a10::Ring;

use crate::abi::*;
use crate::report::Violation;
use crate::simk;
use crate::talloc;

#[derive(Clone, Debug, PartialEq, Eq)]
pub struct Case {
    /// 0 default, 1 kernel thread, 2 single issuer, 3 single issuer + defer taskrun.
    pub mode: u8,
    /// Timeout of the poll that follows the wake, in milliseconds; None = poll(None).
    pub timeout_ms: Option<u64>,
    pub wakes: usize,
    /// Ring::poll(Some(0)) calls made before the wake (the polling flag has been set and cleared).
    pub polls_before: usize,
    /// A clone of the queue handle is used for the wake.
    pub via_clone: bool,
}

fn v(sig: &str, msg: String) -> Violation {
    Violation::new("C11", sig, &msg)
}

pub fn run(c: &Case) -> Vec<Violation> {
    crate::waker::reset_clock();
    simk::reset(simk::SetupPlan::default());
    talloc::set_on_free(Some(simk::on_free));
    let mut out = Vec::new();
    let mut ring = talloc::track(|| {
        let cfg = Ring::config().with_submission_queue_size(4);
        let cfg = match c.mode {
            0 => cfg,
            1 => cfg.with_kernel_thread(),
            2 => cfg.single_issuer(),
            _ => cfg.single_issuer().defer_task_run(),
        };
        cfg.build().expect("ring")
    });
    let sq = ring.sq();
    for _ in 0..c.polls_before {
        talloc::track(|| {
            let _ = ring.poll(Some(Duration::ZERO));
        });
    }
    let waker_sq = if c.via_clone { sq.clone() } else { ring.sq() };
    for _ in 0..c.wakes {
        talloc::track(|| waker_sq.wake());
    }
    let log_before = simk::with(|k| k.log.len());
    let blocked_before = simk::with(|k| k.would_block);
    let r = talloc::track(|| ring.poll(c.timeout_ms.map(Duration::from_millis)));
    if let Err(e) = &r {
        out.push(v("poll-error", format!("Ring::poll after wake() failed: {e}")));
    }
    // Every wait a10 asked the kernel for in that call.
    let waits: Vec<(u32, Option<(i64, i64)>, i32)> = simk::with(|k| {
        k.log[log_before..]
            .iter()
            .filter_map(|e| match e {
                simk::Event::Enter { min_complete, flags, ret, timeout, .. } if flags & ENTER_GETEVENTS != 0 && *min_complete > 0 => Some((*min_complete, *timeout, *ret)),
                _ => None,
            })
            .collect()
    });
    let blocked = simk::with(|k| k.would_block) > blocked_before;
    // The wake either produced a completion (then the wait returns at once) or must turn the wait into a non-blocking one.
    for (_, timeout, ret) in &waits {
        let nonblocking = *timeout == Some((0, 0));
        let had_completion = *ret >= 0;
        if !nonblocking && !had_completion {
            out.push(v("lost-wake/timed-wait", format!("wake() was called {} time(s) while nobody was polling; the next Ring::poll({:?}) then waited in the kernel with timeout {timeout:?} (answer {ret}) instead of returning at once", c.wakes, c.timeout_ms.map(Duration::from_millis))));
        }
    }
    if blocked {
        out.push(v("lost-wake/blocked", "the Ring::poll that followed a wake() would have blocked in the kernel forever".into()));
    }
    // A second poll is an ordinary one again (the wake is consumed exactly once): it may wait.
    for (class, msg) in simk::with(|k| std::mem::take(&mut k.violations)) {
        out.push(Violation::new("C01", &class, &msg));
    }
    if out.is_empty() {
        talloc::track(|| {
            drop(waker_sq);
            drop(ring);
            waker_after_drop(&sq);
            drop(sq);
        });
    } else {
        std::mem::forget(ring);
    }
    out
}

/// "Calling wake after the Ring has been dropped is harmless."
fn waker_after_drop(sq: &a10::SubmissionQueue) {
    sq.wake();
}

pub fn cases() -> Vec<Case> {
    let mut v = Vec::new();
    for mode in 0..4u8 {
        for timeout_ms in [None, Some(0u64), Some(1), Some(5000), Some(u64::MAX / 2)] {
            for wakes in [1usize, 2] {
                for polls_before in [0usize, 1] {
                    for via_clone in [false, true] {
                        v.push(Case { mode, timeout_ms, wakes, polls_before, via_clone });
                    }
                }
            }
        }
    }
    v
}
