//! casex: flat bounded-exhaustive enumeration of cases through the common
//! harness interface (one case per execution, picked by the first action).
#![allow(dead_code)]

use std::rc::Rc;

use serde_json::Value;

use crate::props::Harness;
use crate::report::Violation;
use crate::seqx::{self, Bounds, World};

pub struct CaseWorld<C: Clone + std::fmt::Debug + 'static> {
    cases: Rc<Vec<C>>,
    run: Rc<dyn Fn(&C) -> Vec<Violation>>,
    picked: Option<usize>,
    violations: Vec<Violation>,
    obs: u64,
}

#[derive(Clone, Debug)]
pub enum Pick {
    Case(usize),
}

impl<C: Clone + std::fmt::Debug + 'static> World for CaseWorld<C> {
    type Action = Pick;

    fn enabled(&mut self) -> Vec<(Pick, u32)> {
        if self.picked.is_none() { (0..self.cases.len()).map(|i| (Pick::Case(i), 0)).collect() } else { Vec::new() }
    }

    fn apply(&mut self, a: &Pick) {
        let Pick::Case(i) = a;
        self.picked = Some(*i);
        let c = self.cases[*i].clone();
        let v = (self.run)(&c);
        self.obs = crate::report::hash_str(&format!("{}", v.len()));
        for mut x in v {
            x.msg = format!("{} [case #{i}: {c:?}]", x.msg);
            self.violations.push(x);
        }
    }

    fn take_violations(&mut self) -> Vec<Violation> {
        std::mem::take(&mut self.violations)
    }

    fn key(&mut self) -> u64 {
        self.picked.map(|i| i as u64 + 1).unwrap_or(0)
    }

    fn observation(&self) -> u64 {
        self.obs
    }

    fn finish(self) -> Vec<Violation> {
        crate::simk::shutdown();
        crate::talloc::disarm();
        Vec::new()
    }
}

pub fn case_harness<C: Clone + std::fmt::Debug + 'static>(name: &str, prop: &'static str, cases: Vec<C>, run: impl Fn(&C) -> Vec<Violation> + 'static, describe: Value) -> Harness {
    let cases = Rc::new(cases);
    let run: Rc<dyn Fn(&C) -> Vec<Violation>> = Rc::new(run);
    let (c1, c2, r1, r2) = (cases.clone(), cases.clone(), run.clone(), run.clone());
    let mk1 = move || CaseWorld { cases: c1.clone(), run: r1.clone(), picked: None, violations: Vec::new(), obs: 0 };
    let mk2 = move || CaseWorld { cases: c2.clone(), run: r2.clone(), picked: None, violations: Vec::new(), obs: 0 };
    Harness {
        name: name.to_string(),
        describe,
        bounds: Bounds { depth: 1, dev: 0, d_all: 1, merge: false, shard: (0, 1), cap_s: 0, shard_depth: 1 },
        run: Box::new(move |b| seqx::explore(&mk1, prop, b)),
        replay: Box::new(move |choices| seqx::exec(&mk2, prop, choices)),
    }
}
