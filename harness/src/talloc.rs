//! Tracking allocator.
//!
//! While *armed*, allocations made inside a `track` scope get a serial number
//! and are recorded. Frees of recorded blocks are quarantined: zero-filled and
//! not returned to the system until `reset`, so an address is never reused
//! within one execution and a late access by the simulated kernel (or a stale
//! dereference by a10) hits zeroed, still mapped memory.
#![allow(dead_code)]

use std::alloc::{GlobalAlloc, Layout, System};
use std::cell::Cell;
use std::sync::atomic::{AtomicBool, AtomicPtr, AtomicU32, AtomicUsize, Ordering};

pub struct Talloc;

#[derive(Clone, Copy, Debug)]
pub struct Block {
    pub addr: usize,
    pub size: usize,
    pub align: usize,
    pub serial: u32,
    pub live: bool,
}

const CAP: usize = 1 << 15;
const IDX: usize = 1 << 17;

struct Table {
    entries: *mut Block,
    index: *mut u32,
    n: usize,
    double_frees: usize,
    df_first: Option<Block>,
    overflow: bool,
}

static LOCK: AtomicBool = AtomicBool::new(false);
static ARMED: AtomicBool = AtomicBool::new(false);
static SERIAL: AtomicU32 = AtomicU32::new(0);
static mut TABLE: Table = Table {
    entries: std::ptr::null_mut(),
    index: std::ptr::null_mut(),
    n: 0,
    double_frees: 0,
    df_first: None,
    overflow: false,
};
static ON_FREE: AtomicPtr<()> = AtomicPtr::new(std::ptr::null_mut());
static QUARANTINE_BYTES: AtomicUsize = AtomicUsize::new(0);

thread_local! {
    static TRACK: Cell<u32> = const { Cell::new(0) };
}

struct Guard;

fn lock() -> Guard {
    while LOCK
        .compare_exchange_weak(false, true, Ordering::Acquire, Ordering::Relaxed)
        .is_err()
    {
        std::hint::spin_loop();
    }
    Guard
}

impl Drop for Guard {
    fn drop(&mut self) {
        LOCK.store(false, Ordering::Release);
    }
}

#[allow(static_mut_refs)]
fn table() -> &'static mut Table {
    // SAFETY: only used while holding LOCK.
    unsafe { &mut TABLE }
}

fn hash(addr: usize) -> usize {
    ((addr >> 3).wrapping_mul(0x9E37_79B9_7F4A_7C15)) >> (64 - 17)
}

impl Table {
    fn find(&self, addr: usize) -> Option<usize> {
        if self.n == 0 || self.index.is_null() {
            return None;
        }
        let mut h = hash(addr);
        loop {
            let v = unsafe { *self.index.add(h) };
            if v == 0 {
                return None;
            }
            let e = unsafe { &*self.entries.add((v - 1) as usize) };
            if e.addr == addr {
                return Some((v - 1) as usize);
            }
            h = (h + 1) & (IDX - 1);
        }
    }

    fn insert(&mut self, b: Block) {
        if self.n >= CAP {
            self.overflow = true;
            return;
        }
        unsafe { self.entries.add(self.n).write(b) };
        let mut h = hash(b.addr);
        loop {
            let v = unsafe { &mut *self.index.add(h) };
            if *v == 0 {
                *v = (self.n + 1) as u32;
                break;
            }
            h = (h + 1) & (IDX - 1);
        }
        self.n += 1;
    }
}

fn tracking() -> bool {
    ARMED.load(Ordering::Relaxed) && TRACK.try_with(|t| t.get() > 0).unwrap_or(false)
}

unsafe impl GlobalAlloc for Talloc {
    unsafe fn alloc(&self, layout: Layout) -> *mut u8 {
        let ptr = unsafe { System.alloc(layout) };
        if !ptr.is_null() && tracking() {
            let _g = lock();
            let serial = SERIAL.fetch_add(1, Ordering::Relaxed) + 1;
            table().insert(Block {
                addr: ptr as usize,
                size: layout.size(),
                align: layout.align(),
                serial,
                live: true,
            });
        }
        ptr
    }

    unsafe fn alloc_zeroed(&self, layout: Layout) -> *mut u8 {
        let ptr = unsafe { self.alloc(layout) };
        if !ptr.is_null() {
            unsafe { ptr.write_bytes(0, layout.size()) };
        }
        ptr
    }

    unsafe fn dealloc(&self, ptr: *mut u8, layout: Layout) {
        if ARMED.load(Ordering::Relaxed) {
            let found = {
                let _g = lock();
                let t = table();
                match t.find(ptr as usize) {
                    Some(i) => {
                        let e = unsafe { &mut *t.entries.add(i) };
                        if e.live {
                            e.live = false;
                            Some((*e, false))
                        } else {
                            t.double_frees += 1;
                            if t.df_first.is_none() {
                                t.df_first = Some(*e);
                            }
                            Some((*e, true))
                        }
                    }
                    None => None,
                }
            };
            match found {
                Some((block, false)) => {
                    let cb = ON_FREE.load(Ordering::Relaxed);
                    if !cb.is_null() {
                        let cb: fn(Block) = unsafe { std::mem::transmute(cb) };
                        untracked(|| cb(block));
                    }
                    // Quarantine: zero and keep.
                    unsafe { ptr.write_bytes(0, block.size) };
                    QUARANTINE_BYTES.fetch_add(block.size, Ordering::Relaxed);
                    return;
                }
                Some((_, true)) => return, // Double free, recorded.
                None => {}
            }
        }
        unsafe { System.dealloc(ptr, layout) }
    }

    unsafe fn realloc(&self, ptr: *mut u8, layout: Layout, new_size: usize) -> *mut u8 {
        let is_tracked = ARMED.load(Ordering::Relaxed) && {
            let _g = lock();
            table().find(ptr as usize).is_some()
        };
        if is_tracked || tracking() {
            let new_layout = unsafe { Layout::from_size_align_unchecked(new_size, layout.align()) };
            let new_ptr = unsafe { self.alloc(new_layout) };
            if !new_ptr.is_null() {
                unsafe {
                    std::ptr::copy_nonoverlapping(ptr, new_ptr, layout.size().min(new_size));
                    self.dealloc(ptr, layout);
                }
            }
            new_ptr
        } else {
            unsafe { System.realloc(ptr, layout, new_size) }
        }
    }
}

/// Run `f` with allocation tracking on (if armed).
pub fn track<T>(f: impl FnOnce() -> T) -> T {
    let old = TRACK.with(|t| t.replace(1));
    struct Restore(u32);
    impl Drop for Restore {
        fn drop(&mut self) {
            let _ = TRACK.try_with(|t| t.set(self.0));
        }
    }
    let _r = Restore(old);
    f()
}

/// Run `f` with allocation tracking off.
pub fn untracked<T>(f: impl FnOnce() -> T) -> T {
    let old = TRACK.try_with(|t| t.replace(0)).unwrap_or(0);
    struct Restore(u32);
    impl Drop for Restore {
        fn drop(&mut self) {
            let _ = TRACK.try_with(|t| t.set(self.0));
        }
    }
    let _r = Restore(old);
    f()
}

pub fn set_on_free(cb: Option<fn(Block)>) {
    ON_FREE.store(
        cb.map_or(std::ptr::null_mut(), |f| f as *mut ()),
        Ordering::SeqCst,
    );
}

/// Start tracking for a new execution.
pub fn arm() {
    let _g = lock();
    let t = table();
    if t.entries.is_null() {
        unsafe {
            t.entries = System.alloc(Layout::array::<Block>(CAP).unwrap()).cast();
            t.index = System.alloc_zeroed(Layout::array::<u32>(IDX).unwrap()).cast();
        }
    }
    SERIAL.store(0, Ordering::Relaxed);
    ARMED.store(true, Ordering::SeqCst);
}

#[derive(Debug, Default)]
pub struct Report {
    /// Blocks allocated in a track scope and never freed.
    pub leaked: Vec<Block>,
    pub double_frees: usize,
    pub first_double_free: Option<Block>,
    pub tracked: usize,
    pub overflow: bool,
}

/// Stop tracking, release the quarantine and report.
pub fn disarm() -> Report {
    let mut report = Report::default();
    let mut to_free = Vec::new();
    {
        let _g = lock();
        ARMED.store(false, Ordering::SeqCst);
        let t = table();
        report.tracked = t.n;
        report.double_frees = t.double_frees;
        report.first_double_free = t.df_first;
        report.overflow = t.overflow;
        for i in 0..t.n {
            let e = unsafe { *t.entries.add(i) };
            // Clear the index slot(s).
            let mut h = hash(e.addr);
            loop {
                let v = unsafe { &mut *t.index.add(h) };
                if *v == 0 {
                    break;
                }
                *v = 0;
                h = (h + 1) & (IDX - 1);
            }
            if e.live {
                report.leaked.push(e);
            } else {
                to_free.push(e);
            }
        }
        t.n = 0;
        t.double_frees = 0;
        t.df_first = None;
        t.overflow = false;
    }
    QUARANTINE_BYTES.store(0, Ordering::Relaxed);
    for e in to_free {
        unsafe {
            System.dealloc(
                e.addr as *mut u8,
                Layout::from_size_align_unchecked(e.size, e.align),
            )
        };
    }
    report
}

/// Find the recorded block containing `addr`.
pub fn block_of(addr: usize) -> Option<Block> {
    let _g = lock();
    let t = table();
    // Prefer live blocks; a quarantined block can't overlap a live one anyway.
    let mut found = None;
    for i in (0..t.n).rev() {
        let e = unsafe { *t.entries.add(i) };
        if addr >= e.addr && addr < e.addr + e.size.max(1) {
            if e.live {
                return Some(e);
            }
            found = Some(e);
        }
    }
    found
}

/// Number of live tracked blocks.
pub fn live_count() -> usize {
    let _g = lock();
    let t = table();
    (0..t.n)
        .filter(|i| unsafe { (*t.entries.add(*i)).live })
        .count()
}

pub fn double_frees() -> (usize, Option<Block>) {
    let _g = lock();
    let t = table();
    (t.double_frees, t.df_first)
}
