//! OpsWorld: a ring, a descriptor, an optional buffer pool and a set of
//! operations from the catalogue, driven by explorer actions, with a reference
//! model of what every poll must return and oracles for C01/C02/C03/C05/C06/C09.
#![allow(dead_code)]

use std::task::Context;
use std::time::Duration;

use a10::io::ReadBufPool;
use a10::{AsyncFd, Ring, SubmissionQueue};

use crate::abi::*;
use crate::ops::{self, Class, Kind, Op, Seen};
use crate::report::Violation;
use crate::seqx::World;
use crate::simk::{self, CancelMode, Out, OutRec};
use crate::talloc;
use crate::waker::{self, HWaker};

pub const EINTR: i32 = libc::EINTR;
pub const ECANCELED: i32 = libc::ECANCELED;

#[derive(Clone, Debug)]
pub struct Costs {
    pub drop_op: u32,
    pub spurious_poll: u32,
    pub fresh_waker: u32,
    pub outcome: u32,
    pub reorder: u32,
    pub new_op: u32,
    pub raw: u32,
    pub cancel_lose: u32,
}

impl Default for Costs {
    fn default() -> Costs {
        Costs { drop_op: 1, spurious_poll: 1, fresh_waker: 1, outcome: 1, reorder: 1, new_op: 0, raw: 1, cancel_lose: 1 }
    }
}

#[derive(Clone, Debug)]
pub struct Cfg {
    pub prop: &'static str,
    pub sq: u32,
    pub cq: Option<u32>,
    pub c0_sq: u32,
    pub c0_cq: u32,
    pub kinds: Vec<Kind>,
    pub max_ops: usize,
    /// Operations created (unpolled) when the world starts.
    pub preset: Vec<Kind>,
    pub direct_table: Option<u32>,
    pub pool: (u16, u32),
    pub costs: Costs,
    /// Outcome alphabet switches.
    pub faults: bool,       // EINTR / ECANCELED outcomes
    pub errors: bool,       // plain error outcome
    pub shorts: bool,       // short / zero results
    pub allow_drop: bool,
    pub allow_fresh: bool,
    pub allow_cancel_lose: bool,
    /// Bookkeeping CQE shapes the kernel may post (C05): (user_data, res, flags).
    pub raw_cqes: Vec<(u64, i32, u32)>,
    /// Keep a canary operation in flight and scribble over free CQ slots.
    pub canary: bool,
    /// Max stream items per multishot op.
    pub max_items: u32,
    /// Which properties' oracles report (others are still computed).
    pub report: Vec<&'static str>,
    /// Epilogue variants offered.
    pub final_drop_ring_first: bool,
    pub sqpoll: bool,
    /// Failing zero-copy sends still post a notification CQE.
    pub zc_error_notif: bool,
    /// The descriptor every operation works on is a direct descriptor (needs `direct_table`).
    pub fd_direct: bool,
    /// Offer DropHeld / CloseHeld / Stdio letters.
    pub held_letters: bool,
    /// Offer RereadHeld: read again into a pool buffer an operation handed out.
    pub reread_held: bool,
    /// Offer CloneHeld (once per history).
    pub clone_held: bool,
    /// Offer EditHeld (in-place edits of a handed-out pool buffer; at most two per history).
    pub edit_held: bool,
    /// Offer `Ring::poll(None)` (EnterBlocking).
    pub blocking_enter: bool,
    /// Build the ring with `with_maximum_queue_size()` (IORING_SETUP_CLAMP) instead of a queue size.
    pub clamp: bool,
    /// The first synchronous close(2) a10 makes reports EINTR (the descriptor is closed nevertheless).
    pub close_eintr: bool,
    /// Explicit closes stay in flight until the explorer completes them.
    pub hold_close: bool,
    /// The pool has already performed this many releases (multiple of the pool size).
    pub pool_shift: u16,
}

impl Cfg {
    pub fn base(prop: &'static str) -> Cfg {
        Cfg {
            prop,
            sq: 4,
            cq: None,
            c0_sq: 0,
            c0_cq: 0,
            kinds: vec![Kind::ReadVec],
            max_ops: 2,
            preset: Vec::new(),
            fd_direct: false,
            direct_table: None,
            pool: (2, 8),
            costs: Costs::default(),
            faults: false,
            errors: true,
            shorts: true,
            allow_drop: false,
            allow_fresh: true,
            allow_cancel_lose: false,
            raw_cqes: Vec::new(),
            canary: false,
            max_items: 2,
            report: vec![prop],
            final_drop_ring_first: false,
            sqpoll: false,
            zc_error_notif: true,
            hold_close: false,
            edit_held: false,
            blocking_enter: false,
            clamp: false,
            close_eintr: false,
            clone_held: false,
            reread_held: false,
            held_letters: false,
            pool_shift: 0,
        }
    }
}

#[derive(Clone, Debug, PartialEq, Eq)]
pub enum Action {
    New(Kind),
    /// Poll operation `i`; `fresh`: with a new waker.
    Poll(usize, bool),
    DropOp(usize),
    /// `Ring::poll(Some(0))`.
    Enter,
    /// `Ring::poll(None)`: waits in the kernel until something completes.
    EnterBlocking,
    /// Kernel-thread rings: the thread finds nothing to do and goes to sleep (IORING_SQ_NEED_WAKEUP).
    SqThreadSleeps,
    /// Kernel completes the oldest in-flight request of operation `i`.
    Complete(usize, Oc),
    /// Kernel posts a bookkeeping CQE of shape index `i`.
    PostRaw(usize),
    /// Make the next cancellation of op `i` lose the race.
    CancelLoses(usize),
    /// Drop the AsyncFds / ReadBufs handed out by operation `i`.
    DropHeld(usize),
    /// `AsyncFd::close` on the first descriptor handed out by operation `i`.
    CloseHeld(usize),
    /// Create and drop a standard stream handle.
    Stdio(u8),
    /// Read again (variant `via`) into the first pool buffer handed out by operation `i`.
    RereadHeld(usize, u8),
    /// `try_clone` the first descriptor handed out by operation `i`; the duplicate joins it.
    CloneHeld(usize),
    /// Edit the first pool buffer handed out by operation `i` in place: 0 remove(..1), 1 truncate(1), 2 remove(1..), 3 clear.
    EditHeld(usize, u8),
}

/// Completion outcome letters.
#[derive(Clone, Copy, Debug, PartialEq, Eq)]
pub enum Oc {
    Ok,
    Short,
    Zero,
    Err,
    Eintr,
    Ecanceled,
    /// Multishot: one more item.
    More,
    /// Multishot: final with result 0 and no buffer.
    FinalZero,
    /// Multishot: final error (ENOBUFS).
    FinalErr,
    /// Zero-copy: first CQE.
    First,
    /// Zero-copy: first CQE is an error (no notification follows).
    FirstErr,
    /// Zero-copy: notification CQE.
    Notif,
}

#[derive(Clone, Debug)]
struct Rec {
    serial: u32,
    res: i32,
    flags: u32,
    /// Expected rendering when delivered as a value.
    value: String,
    skipped: bool,
}

#[derive(Clone, Copy, Debug, PartialEq, Eq)]
enum Phase {
    NotStarted,
    Running,
    Finished,
}

struct Slot {
    kind: Kind,
    op: Option<Op>,
    nth: usize,
    ud: Option<u64>,
    waker: HWaker,
    polled: bool,
    /// Last poll returned Pending: (waker wakes at that time, clock at poll begin).
    pending: Option<(u64, u64)>,
    blocked: bool,
    phase: Phase,
    dropped: bool,
    /// CQEs posted by the kernel for this op, kernel order.
    recs: Vec<Rec>,
    /// Number of recs the model has consumed (delivered or absorbed).
    taken: usize,
    /// Number of recs at the start of the current attempt.
    attempt_start: usize,
    /// SQEs consumed by the kernel for this op.
    first_sqe: Option<Sqe>,
    n_sqes: usize,
    items: u32,
    seen: Vec<String>,
    cancel_expected: u32,
    cancels_seen: u32,
    /// A CQE that makes the op ready was processed while it was Pending.
    ready_unwoken_since: Option<u64>,
    /// Objects handed out by the op (shared with the Op while it lives).
    held: HeldPair,
    /// RereadHeld: what the buffer held when it was passed in.
    prefix: Vec<u8>,
}

#[derive(Clone, Debug, PartialEq, Eq)]
enum SelState {
    /// Selected by the kernel, completion not yet turned into a ReadBuf.
    InFlight,
    /// Owned by a live ReadBuf handed to the caller.
    Owned,
    Released,
    /// Delivered to an operation that had been dropped.
    Lost,
}

#[derive(Clone, Debug)]
struct Sel {
    bid: u16,
    slot: usize,
    state: SelState,
    data: Vec<u8>,
}

type HeldPair = (std::rc::Rc<std::cell::RefCell<Vec<AsyncFd>>>, std::rc::Rc<std::cell::RefCell<Vec<a10::io::ReadBuf>>>);

pub struct OpsWorld {
    cfg: Cfg,
    ring: Option<Ring>,
    sq: Option<SubmissionQueue>,
    fd: Option<&'static AsyncFd>,
    fd_raw: i32,
    /// The regular descriptor the direct one was made from (`fd_direct`).
    fd_regular: Option<&'static AsyncFd>,
    pool: Option<ReadBufPool>,
    slots: Vec<Slot>,
    violations: Vec<Violation>,
    next_waker: u32,
    created: usize,
    canary: Option<(Op, HWaker, u64)>,
    log_pos: usize,
    written_pos: usize,
    obs: u64,
    /// Wakers registered for a free submission slot: (waker, wake count that consumes the entry).
    slot_waiters: Vec<(HWaker, u64)>,
    stdio_done: bool,
    /// Descriptors given to `AsyncFd::close`: (number, direct, slot of the Close op).
    close_targets: Vec<(i32, bool, usize)>,
    /// Pool buffers selected by the kernel.
    sels: Vec<Sel>,
    /// (address, length) of every pool buffer by id.
    pool_bufs: Vec<(usize, u32)>,
    lost_reported: bool,
    cloned: bool,
    edits_done: u8,
    sq_sleeps: u8,
}

fn v(prop: &str, sig: &str, msg: String) -> Violation {
    Violation::new(prop, sig, &msg)
}

/// Whether the current world's base descriptor is direct (read by `render`).
static BASE_FD_DIRECT: std::sync::atomic::AtomicBool = std::sync::atomic::AtomicBool::new(false);

impl OpsWorld {
    pub fn new(cfg: Cfg) -> OpsWorld {
        let plan = simk::SetupPlan { c0_sq: cfg.c0_sq, c0_cq: cfg.c0_cq, ..Default::default() };
        simk::reset(plan);
        crate::mapwatch::watch_fd(-1);
        if cfg.close_eintr {
            crate::mapwatch::CLOSE_EINTR_AT.store(1, std::sync::atomic::Ordering::SeqCst);
        }
        simk::with(|k| {
            k.zc_error_notif = cfg.zc_error_notif;
            k.hold_user_close = cfg.hold_close;
            if cfg.final_drop_ring_first {
                // A notification still outstanding when the Ring goes away could never be reclaimed.
                k.zc_cancel_notif_immediate = true;
            }
        });
        talloc::set_on_free(Some(simk::on_free));
        let need_pool = cfg.kinds.iter().chain(cfg.preset.iter()).any(|k| k.needs_pool());
        let need_table = cfg.direct_table.is_some();
        let (ring, sq, fd, fd_raw, pool) = talloc::track(|| {
            let mut c = if cfg.clamp { Ring::config().with_maximum_queue_size() } else { Ring::config().with_submission_queue_size(cfg.sq) };
            if let Some(cq) = cfg.cq {
                c = c.with_completion_queue_size(cq);
            }
            if need_table {
                c = c.with_direct_descriptors(cfg.direct_table.unwrap());
            }
            if cfg.sqpoll {
                c = c.with_kernel_thread();
            }
            let ring = c.build().expect("building ring on simk");
            let sq = ring.sq();
            let fd_raw = simk::with(|k| k.new_regular_pub());
            let fd = unsafe { AsyncFd::from_raw_fd(fd_raw, sq.clone()) };
            let fd: &'static AsyncFd = Box::leak(Box::new(fd));
            let pool = if need_pool {
                Some(ReadBufPool::new(sq.clone(), cfg.pool.0, cfg.pool.1).expect("creating pool on simk"))
            } else {
                None
            };
            (ring, sq, fd, fd_raw, pool)
        });
        #[allow(unused_mut)]
        let mut w = OpsWorld {
            cfg,
            ring: Some(ring),
            sq: Some(sq),
            fd: Some(fd),
            fd_raw,
            fd_regular: None,
            pool,
            slots: Vec::new(),
            violations: Vec::new(),
            next_waker: 1,
            created: 0,
            canary: None,
            log_pos: 0,
            written_pos: 0,
            obs: 0,
            slot_waiters: Vec::new(),
            stdio_done: false,
            close_targets: Vec::new(),
            sels: Vec::new(),
            pool_bufs: Vec::new(),
            lost_reported: false,
            cloned: false,
            edits_done: 0,
            sq_sleeps: 0,
        };
        BASE_FD_DIRECT.store(false, std::sync::atomic::Ordering::SeqCst);
        if w.cfg.fd_direct {
            w.convert_base_fd();
        }
        w.learn_pool();
        for k in w.cfg.preset.clone() {
            w.new_op(k);
        }
        if w.cfg.canary {
            w.start_canary();
        }
        w
    }

    /// Replace the base descriptor by a direct one made from it.
    fn convert_base_fd(&mut self) {
        let env = ops::Env { sq: self.sq.as_ref().unwrap(), fd: self.fd.unwrap(), pool: None, nth: 98 };
        let mut op = ops::make(Kind::ToDirect, &env);
        let w = self.new_waker();
        let mut cx = Context::from_waker(&w.waker);
        assert_eq!(op.poll(&mut cx), Seen::Pending);
        talloc::track(|| self.ring.as_mut().unwrap().poll(Some(Duration::ZERO)).unwrap());
        let s = simk::with(|k| k.inflight()[0]);
        simk::with(|k| k.complete(s, Out::Default));
        talloc::track(|| self.ring.as_mut().unwrap().poll(Some(Duration::ZERO)).unwrap());
        assert!(matches!(op.poll(&mut cx), Seen::Ready(_)));
        let dfd = op.held.borrow_mut().pop().unwrap();
        let dfd: &'static AsyncFd = talloc::track(|| Box::leak(Box::new(dfd)));
        talloc::track(|| drop(op));
        self.fd_regular = self.fd.replace(dfd);
        BASE_FD_DIRECT.store(true, std::sync::atomic::Ordering::SeqCst);
        self.log_pos = simk::with(|k| k.log.len());
        self.written_pos = simk::with(|k| k.written.len());
    }

    fn report(&mut self, prop: &'static str, sig: &str, msg: String) {
        if self.cfg.report.contains(&prop) {
            self.violations.push(v(prop, sig, msg));
        }
    }

    fn new_waker(&mut self) -> HWaker {
        let id = self.next_waker;
        self.next_waker += 1;
        HWaker::new(id)
    }

    fn new_op(&mut self, kind: Kind) {
        let nth = self.created;
        self.created += 1;
        let env = ops::Env { sq: self.sq.as_ref().unwrap(), fd: self.fd.unwrap(), pool: self.pool.as_ref(), nth };
        let op = ops::make(kind, &env);
        let waker = self.new_waker();
        let held = (op.held.clone(), op.bufs.clone());
        self.slots.push(Slot {
            held,
            kind,
            op: Some(op),
            nth,
            ud: None,
            waker,
            polled: false,
            pending: None,
            blocked: false,
            phase: Phase::NotStarted,
            dropped: false,
            recs: Vec::new(),
            taken: 0,
            attempt_start: 0,
            first_sqe: None,
            n_sqes: 0,
            items: 0,
            seen: Vec::new(),
            cancel_expected: 0,
            cancels_seen: 0,
            ready_unwoken_since: None,
            prefix: Vec::new(),
        });
    }

    /// A canary: a real read operation the kernel never completes.
    fn start_canary(&mut self) {
        let env = ops::Env { sq: self.sq.as_ref().unwrap(), fd: self.fd.unwrap(), pool: None, nth: 99 };
        let mut op = ops::make(Kind::ReadVec, &env);
        let w = self.new_waker();
        let tail_before = simk::with(|k| k.rings[0].sq_tail());
        let mut cx = Context::from_waker(&w.waker);
        let seen = op.poll(&mut cx);
        assert_eq!(seen, Seen::Pending);
        let ud = simk::with(|k| unsafe { (*k.rings[0].sqe_slot(tail_before)).user_data() });
        // Let the kernel take it so it doesn't occupy the SQ.
        talloc::track(|| self.ring.as_mut().unwrap().poll(Some(Duration::ZERO)).unwrap());
        self.canary = Some((op, w, ud));
        self.absorb_kernel_log();
    }

    fn scribble(&mut self) {
        if let Some((_, _, ud)) = &self.canary {
            let ud = *ud;
            simk::with(|k| {
                let r = &k.rings[0];
                let head = r.cq_head();
                let tail = r.cq_tail();
                let n = r.cq_entries;
                let used = tail.wrapping_sub(head).min(n);
                for i in used..n {
                    let pos = head.wrapping_add(i);
                    unsafe { std::ptr::write_volatile(r.cqe_slot(pos), Cqe { user_data: ud, res: 3, flags: 0 }) };
                }
            });
        }
    }

    fn held_of(&self, i: usize) -> HeldPair {
        self.slots[i].held.clone()
    }

    fn sq_room(&self) -> bool {
        simk::with(|k| k.rings[0].sq_pending() < k.rings[0].sq_entries)
    }

    /// Pull new kernel events into the per-operation model.
    fn absorb_kernel_log(&mut self) {
        let (events, viol) = simk::with(|k| {
            k.sync_closes();
            let ev: Vec<simk::Event> = k.log[self.log_pos..].to_vec();
            self.log_pos = k.log.len();
            (ev, std::mem::take(&mut k.violations))
        });
        // C09: an operation the kernel interrupted (and the caller did not drop) is re-issued "with the same
        // resources": memory the kernel finds freed or changed after such a restart is C09's as well as C01's.
        let restarted = self.cfg.prop == "C09" && self.slots.iter().any(|s| !s.dropped && s.recs.iter().any(|r| r.res == -libc::EINTR || r.res == -libc::ECANCELED));
        for (class, msg) in viol {
            let prop = if class.starts_with("sq-") { "C04" } else if class.starts_with("close-") { "C07" } else { "C01" };
            if restarted && prop == "C01" {
                self.report("C09", &format!("restart-resources/{class}"), msg.clone());
            }
            self.report(prop, &class, msg);
        }
        for ev in events {
            match ev {
                simk::Event::Consumed { sqe, serial, .. } => {
                    let ud = sqe.user_data();
                    // A read into a pool buffer that already holds data may only target the spare part of that buffer.
                    if let Some(s) = self.slots.iter().find(|s| s.ud == Some(ud) && s.kind == Kind::RereadHeld) {
                        let targets: Vec<(usize, usize)> = simk::with(|k| k.req(serial).foot.iter().filter(|f| f.write && matches!(f.what, "buffer" | "iovec-target") && f.len > 0).map(|f| (f.addr, f.len)).collect());
                        // (The buffer the target lies in; a target at the very end of a buffer -- nothing spare -- belongs to that buffer, not to the next one, but such targets have length 0 and are filtered out above.)
                        let own = targets.first().and_then(|(a, _)| self.pool_bufs.iter().find(|(base, len)| *a >= *base && *a < *base + *len as usize)).copied();
                        let ok = match own {
                            Some((base, len)) => targets.len() == 1 && targets[0].0 == base + s.prefix.len() && targets[0].0 + targets[0].1 <= base + len as usize,
                            None => targets.is_empty(),
                        };
                        if !ok {
                            let msg = format!("a read into a pool buffer holding {} bytes lets the kernel write {targets:x?}; its buffer is {own:x?}", s.prefix.len());
                            let prop = if self.cfg.prop == "C01" { "C01" } else { "C08" };
                            self.report(prop, "reread-outside-buffer", msg);
                        }
                    }
                    if let Some(s) = self.slots.iter_mut().find(|s| s.ud == Some(ud)) {
                        s.n_sqes += 1;
                        match &s.first_sqe {
                            None => s.first_sqe = Some(sqe),
                            Some(first) => {
                                if *first != sqe && s.kind.class() != Class::Composite {
                                    let msg = format!(
                                        "re-issued submission of {:?} differs from the first one:\n first: {}\n again: {}",
                                        s.kind,
                                        first.describe(),
                                        sqe.describe()
                                    );
                                    let sig = format!("resubmit-differs/{:?}", s.kind);
                                    self.report("C09", &sig, msg);
                                }
                            }
                        }
                    }
                    let _ = serial;
                }
                simk::Event::CancelSeen { target_ud, found, sqe, .. } => {
                    let ok_form = sqe.user_data() == 2 && sqe.flags() & SQE_CQE_SKIP_SUCCESS != 0 && sqe.op_flags() == 0;
                    if !ok_form {
                        self.report("C06", "cancel-malformed", format!("ASYNC_CANCEL with unexpected fields: {}", sqe.describe()));
                    }
                    match self.slots.iter_mut().find(|s| s.ud == Some(target_ud)) {
                        Some(s) => {
                            s.cancels_seen += 1;
                            if s.cancels_seen > s.cancel_expected {
                                let sig = format!("cancel-unexpected/{:?}", s.kind);
                                let msg = format!("ASYNC_CANCEL for {:?} (user_data {target_ud:#x}) that the caller did not drop while in flight (found={found:?})", s.kind);
                                self.report("C06", &sig, msg);
                            }
                        }
                        None => {
                            let is_canary = self.canary.as_ref().is_some_and(|c| c.2 == target_ud);
                            if !is_canary {
                                self.report("C06", "cancel-unknown-target", format!("ASYNC_CANCEL targets {target_ud:#x}, which is no operation's user_data"));
                            }
                        }
                    }
                }
                _ => {}
            }
        }
    }

    fn render_slot(&self, i: usize, o: &OutRec) -> String {
        let s = &self.slots[i];
        if s.kind == Kind::RereadHeld && o.res >= 0 {
            let hx = |b: &[u8]| -> String { b.iter().map(|b| format!("{b:02x}")).collect() };
            return format!("buf:{}{}", hx(&s.prefix), hx(&o.data));
        }
        Self::render(s.kind, s.nth, o)
    }

    /// Expected rendering of a completion of `kind`.
    pub fn render(kind: Kind, nth: usize, out: &OutRec) -> String {
        use Kind::*;
        if out.res < 0 {
            return format!("err:{}", -out.res);
        }
        let base_direct = BASE_FD_DIRECT.load(std::sync::atomic::Ordering::SeqCst);
        let hx = |b: &[u8]| -> String { b.iter().map(|b| format!("{b:02x}")).collect() };
        let split = |caps: &[usize]| -> Vec<String> {
            let mut rest = &out.data[..];
            caps.iter()
                .map(|c| {
                    let n = (*c).min(rest.len());
                    let (a, b) = rest.split_at(n);
                    rest = b;
                    hx(a)
                })
                .collect()
        };
        let addr = || -> String {
            if out.addr.len() >= 8 {
                let port = u16::from_be_bytes([out.addr[2], out.addr[3]]);
                format!("{}.{}.{}.{}:{}", out.addr[4], out.addr[5], out.addr[6], out.addr[7], port)
            } else {
                "?".to_string()
            }
        };
        match kind {
            ReadVec | Recv | ReadLimited | ReadN | RecvN | ReadVecFrom | RecvPeek => format!("bytes:{}", hx(&out.data)),
            ReadVectoredFrom => format!("bytes:{}", split(&[3, 4 + nth]).join("|")),
            RecvFromPeek => format!("bytes:{}:from:{}:flags:0", hx(&out.data), addr()),
            ReadNVectored => format!("bytes:{}", split(&[3, 5]).join("|")),
            ReadVecPrefilled => format!("bytes:eeef{}", hx(&out.data)),
            ReadVectored2 => format!("bytes:{}", split(&[3, 4 + nth]).join("|")),
            RecvVectored => format!("bytes:{}:flags:0", split(&[2, 5]).join("|")),
            RecvFrom => format!("bytes:{}:from:{}:flags:0", hx(&out.data), addr()),
            RecvFromVectored => format!("bytes:{}:from:{}:flags:0", split(&[2, 3]).join("|"), addr()),
            WriteVec | WriteStatic | WriteString | WriteBoxed | WriteArc | WriteVectored2 | WriteVectoredTuple | Send
            | SendZc | SendTo | SendToZc | SendVectored | SendVectoredZc | SpliceTo | SpliceFrom | SpliceToAt | SpliceFromAt | SendToVectored | WriteVecAt
            | WriteVectoredAt | SendMore | SendZcMore | SendToMore => format!("n:{}", out.res),
            ReadPool | RecvPool | MultishotRead | MultishotRecv | RecvPoolWaitAll | MultishotRecvPeek => format!("buf:{}", hx(&out.data)),
            RecvFromPool => format!("buf:{}:from:{}:flags:0", hx(&out.data), addr()),
            OpenExtract => format!("fd:File:{}:path:/verif-simk/xfile{nth}", out.res),
            CreateDirExtract => "path:/verif-simk/xdir".to_string(),
            RenameExtract => "paths:/verif-simk/xfrom>/verif-simk/xto".to_string(),
            RemoveExtract => "path:/verif-simk/xgone".to_string(),
            // Accepting on a direct descriptor yields direct descriptors.
            Accept if base_direct => format!("fd:Direct:{}:from:{}", out.res, addr()),
            AcceptNoAddr | MultishotAccept if base_direct => format!("fd:Direct:{}", out.res),
            Accept => format!("fd:File:{}:from:{}", out.res, addr()),
            AcceptNoAddr | MultishotAccept | OpenFile | Socket | OpenTemp | ToFd => format!("fd:File:{}", out.res),
            OpenDirect | SocketDirect | OpenTempDirect => format!("fd:Direct:{}", out.res),
            Pipe | PipeDirect => {
                let k = if kind == Pipe { "File" } else { "Direct" };
                let a = i32::from_ne_bytes(out.data[0..4].try_into().unwrap());
                let b = i32::from_ne_bytes(out.data[4..8].try_into().unwrap());
                format!("fd:{k}:{a}+fd:{k}:{b}")
            }
            ToDirect => {
                let a = i32::from_ne_bytes(out.data[0..4].try_into().unwrap());
                format!("fd:Direct:{a}")
            }
            LocalAddr | PeerAddr => format!("addr:{}", addr()),
            Connect | Bind | SetSockOpt | CreateDir | Rename | RemoveFile | Fsync | Truncate | Shutdown | WriteAll
            | WriteAllVectored | SendAll | CloseFd | Listen | SyncData | FAdvise | Allocate | MemAdvise | SendAllVectored
            | Pollable => "unit".to_string(),
            SockOpt | Statx | WaitId => "opaque".to_string(),
            RereadHeld => format!("buf:?{}", hx(&out.data)),
            ReceiveSignal | ReceiveSignals | ReceiveSignalsIntoInner => {
                // signalfd_siginfo: ssi_pid at 12, ssi_uid at 16.
                let u = |o: usize| out.data.get(o..o + 4).map_or(0, |b| u32::from_ne_bytes(b.try_into().unwrap()));
                format!("sig:pid={}:uid={}", u(12), u(16))
            }
        }
    }

    fn outcomes(&self, i: usize) -> Vec<(Oc, u32)> {
        let s = &self.slots[i];
        let c = &self.cfg;
        let oc = c.costs.outcome;
        let mut v = Vec::new();
        let awaiting = s.ud.and_then(|ud| simk::with(|k| k.inflight_by_ud(ud).map(|ser| k.req(ser).awaiting_notif))).unwrap_or(false);
        match s.kind.class() {
            Class::TwoStep => {
                if awaiting {
                    v.push((Oc::Notif, 0));
                } else {
                    v.push((Oc::First, 0));
                    if c.errors {
                        v.push((Oc::FirstErr, oc));
                    }
                    if c.faults {
                        v.push((Oc::Eintr, oc));
                        v.push((Oc::Ecanceled, oc));
                    }
                }
            }
            Class::StreamBuf | Class::StreamDesc | Class::StreamUnit => {
                if s.items < c.max_items {
                    v.push((Oc::More, 0));
                }
                v.push((Oc::FinalZero, if s.items < c.max_items { oc } else { 0 }));
                if c.errors {
                    v.push((Oc::FinalErr, oc));
                }
                if c.faults {
                    v.push((Oc::Ecanceled, oc));
                    v.push((Oc::Eintr, oc));
                }
            }
            _ => {
                v.push((Oc::Ok, 0));
                if c.shorts && s.kind.transfers_bytes() {
                    v.push((Oc::Short, oc));
                    if matches!(s.kind.class(), Class::Data | Class::PoolOne | Class::Composite) {
                        v.push((Oc::Zero, oc));
                    }
                }
                if c.errors {
                    v.push((Oc::Err, oc));
                }
                if c.faults {
                    v.push((Oc::Eintr, oc));
                    v.push((Oc::Ecanceled, oc));
                }
            }
        }
        v
    }

    fn do_complete(&mut self, i: usize, oc: Oc) {
        let ud = self.slots[i].ud.unwrap();
        let kind = self.slots[i].kind;
        let nth = self.slots[i].nth;
        let (serial, outs_before) = simk::with(|k| {
            let s = k.inflight_by_ud(ud).expect("no in-flight request");
            (s, k.req(s).outs.len())
        });
        let out = match oc {
            Oc::Ok | Oc::First => Out::Default,
            Oc::Short => Out::Res(1),
            Oc::Zero => Out::Res(0),
            Oc::Err | Oc::FirstErr => Out::Res(-libc::EIO),
            Oc::Eintr => Out::Res(-EINTR),
            Oc::Ecanceled => Out::Res(-ECANCELED),
            Oc::More => Out::More(i32::MIN),
            Oc::FinalZero => Out::ZeroNoBuf,
            Oc::FinalErr => Out::Res(-libc::ENOBUFS),
            Oc::Notif => Out::Notif,
        };
        simk::with(|k| k.complete(serial, out));
        if oc == Oc::More {
            self.slots[i].items += 1;
        }
        let new_outs: Vec<OutRec> = simk::with(|k| k.req(serial).outs[outs_before..].to_vec());
        for o in new_outs {
            if o.flags & CQE_F_BUFFER != 0 && o.res >= 0 {
                let dropped = self.slots[i].op.is_none();
                self.sels.push(Sel {
                    bid: (o.flags >> CQE_BUFFER_SHIFT) as u16,
                    slot: i,
                    state: if dropped { SelState::Lost } else { SelState::InFlight },
                    data: o.data.clone(),
                });
            }
            let value = self.render_slot(i, &o);
            self.slots[i].recs.push(Rec { serial, res: o.res, flags: o.flags, value, skipped: o.skipped });
        }
        self.absorb_kernel_log();
    }

    /// Learn the pool's buffers from the buffer ring a10 registered.
    fn learn_pool(&mut self) {
        if self.pool.is_none() {
            return;
        }
        self.pool_bufs = simk::with(|k| {
            let Some(pb) = k.rings[0].pbufs.first() else { return Vec::new() };
            let mut v = vec![(0usize, 0u32); pb.entries as usize];
            for i in 0..pb.entries as usize {
                let e = unsafe { std::ptr::read_volatile((pb.addr + i * 16) as *const BufRingEntry) };
                if (e.bid as usize) < v.len() {
                    v[e.bid as usize] = (e.addr as usize, e.len);
                }
            }
            v
        });
        if self.cfg.pool_shift != 0 {
            // A pool that has already performed `shift` releases: advance the
            // ring tail and the kernel's head together.
            let shift = self.cfg.pool_shift;
            simk::with(|k| {
                let pb = &mut k.rings[0].pbufs[0];
                let tail = unsafe { &*((pb.addr + 14) as *const std::sync::atomic::AtomicU16) };
                let t = tail.load(std::sync::atomic::Ordering::SeqCst);
                // Move the entries so that indices still line up.
                let n = pb.entries as usize;
                let old: Vec<BufRingEntry> = (0..n).map(|i| unsafe { std::ptr::read_volatile((pb.addr + i * 16) as *const BufRingEntry) }).collect();
                for i in 0..n {
                    let src = old[i];
                    let dst = (i + shift as usize) % n;
                    let keep_tail = dst == 0;
                    unsafe {
                        let p = (pb.addr + dst * 16) as *mut BufRingEntry;
                        (*p).addr = src.addr;
                        (*p).len = src.len;
                        (*p).bid = src.bid;
                        if !keep_tail {
                            (*p).resv = src.resv;
                        }
                    }
                }
                tail.store(t.wrapping_add(shift), std::sync::atomic::Ordering::SeqCst);
                pb.head = pb.head.wrapping_add(shift);
            });
        }
    }

    /// C08: every pool buffer is offered to the kernel, selected for a pending
    /// completion, or owned by exactly one ReadBuf.
    fn pool_check(&mut self, at_end: bool) {
        if self.pool_bufs.is_empty() {
            return;
        }
        let n = self.pool_bufs.len();
        let (offered, bad_entries): (Vec<u16>, Vec<String>) = simk::with(|k| {
            let Some(pb) = k.rings[0].pbufs.first() else { return (Vec::new(), Vec::new()) };
            let tail = unsafe { &*((pb.addr + 14) as *const std::sync::atomic::AtomicU16) }.load(std::sync::atomic::Ordering::SeqCst);
            let mut v = Vec::new();
            let mut bad = Vec::new();
            let mut h = pb.head;
            let mut guard = 0;
            while h != tail && guard < 70000 {
                let idx = (h as u32 & (pb.entries - 1)) as usize;
                let e = unsafe { std::ptr::read_volatile((pb.addr + idx * 16) as *const BufRingEntry) };
                v.push(e.bid);
                match self.pool_bufs.get(e.bid as usize) {
                    Some((addr, len)) if *addr == e.addr as usize && *len == e.len => {}
                    _ => bad.push(format!("ring entry {idx}: addr={:#x} len={} bid={}", e.addr, e.len, e.bid)),
                }
                h = h.wrapping_add(1);
                guard += 1;
            }
            (v, bad)
        });
        for b in bad_entries {
            self.report("C08", "bad-ring-entry", format!("buffer ring entry does not describe its buffer: {b}"));
        }
        if offered.is_empty() && simk::with(|k| k.rings[0].pbufs.is_empty()) {
            return; // Pool unregistered.
        }
        let mut sorted = offered.clone();
        sorted.sort();
        let mut dedup = sorted.clone();
        dedup.dedup();
        if dedup.len() != sorted.len() {
            self.report("C08", "offered-twice", format!("a buffer is offered to the kernel twice: {offered:?}"));
            return;
        }
        let busy: Vec<u16> = self.sels.iter().filter(|s| matches!(s.state, SelState::InFlight | SelState::Owned | SelState::Lost)).map(|s| s.bid).collect();
        for b in &busy {
            if sorted.contains(b) {
                let st = self.sels.iter().find(|s| s.bid == *b && s.state != SelState::Released).map(|s| s.state.clone());
                self.report("C08", "offered-while-owned", format!("buffer {b} is offered to the kernel while it is {st:?}"));
                return;
            }
        }
        let missing: Vec<u16> = (0..n as u16).filter(|b| !sorted.contains(b) && !busy.contains(b)).collect();
        if !missing.is_empty() {
            self.report("C08", "buffer-lost", format!("buffers {missing:?} are neither offered to the kernel nor owned (offered {offered:?}, busy {busy:?})"));
            return;
        }
        // Bytes held in live ReadBufs are what the kernel wrote for them.
        for i in 0..self.slots.len() {
            let bufs = self.slots[i].held.1.clone();
            for b in bufs.borrow().iter() {
                let addr = b.as_ptr() as usize;
                let Some(bid) = self.pool_bufs.iter().position(|(a, l)| addr >= *a && addr < *a + *l as usize) else { continue };
                if let Some(sel) = self.sels.iter().find(|s| s.bid == bid as u16 && s.state == SelState::Owned) {
                    if !b[..].ends_with(&sel.data) && !b[..].starts_with(&sel.data) {
                        self.report("C08", "data-overwritten", format!("ReadBuf for buffer {bid} holds {:02x?}, the kernel wrote {:02x?}", &b[..], sel.data));
                    }
                }
            }
        }
        if at_end {
            let lost: Vec<(u16, String)> = self.sels.iter().filter(|s| s.state == SelState::Lost).map(|s| (s.bid, format!("{:?}", self.slots[s.slot].kind))).collect();
            if let Some((bid, kind)) = lost.first() {
                self.report("C08", &format!("buffer-lost/delivered-to-abandoned-op:{kind}"), format!("buffer {bid} was selected for a completion of an operation ({kind}) whose future had been dropped; it is never given back to the pool"));
            }
        }
    }

    /// Absorb completions the kernel produced on its own (cancellations).
    fn absorb_spontaneous(&mut self) {
        // Requests finished by ASYNC_CANCEL / SYNC_CANCEL produce OutRecs the
        // world did not ask for: pick them up by comparing counts.
        for i in 0..self.slots.len() {
            let Some(ud) = self.slots[i].ud else { continue };
            let kind = self.slots[i].kind;
            let nth = self.slots[i].nth;
            let all: Vec<(u32, OutRec)> = simk::with(|k| {
                k.reqs_by_ud(ud)
                    .into_iter()
                    .flat_map(|s| k.req(s).outs.iter().map(move |o| (s, o.clone())).collect::<Vec<_>>())
                    .collect()
            });
            let have = self.slots[i].recs.len();
            for (serial, o) in all.into_iter().skip(have) {
                let _ = (kind, nth);
                let value = self.render_slot(i, &o);
                self.slots[i].recs.push(Rec { serial, res: o.res, flags: o.flags, value, skipped: o.skipped });
            }
        }
    }

    /// Which of this op's recs has a10 processed (a returned Ring::poll consumed them)?
    fn processed(&self, i: usize) -> usize {
        let Some(ud) = self.slots[i].ud else { return 0 };
        simk::with(|k| {
            let head = k.rings[0].cq_head();
            k.written
                .iter()
                .filter(|w| w.ring == 0 && w.cqe.user_data == ud && head.wrapping_sub(w.pos).wrapping_sub(1) < (1 << 31))
                .count()
        })
    }

    /// Model: what must the next poll of op `i` return?
    /// Returns (expected, restarts) where restarts tells the poll re-issues.
    fn expect(&mut self, i: usize) -> (Seen, bool) {
        let processed = self.processed(i);
        let s = &mut self.slots[i];
        // Skipped CQEs (never written) don't exist for a10: drop them from the
        // model; only user operations' CQEs are never skipped, so this is only
        // defensive.
        let visible: Vec<Rec> = s.recs.iter().filter(|r| !r.skipped).cloned().collect();
        let avail = processed.min(visible.len());
        match s.phase {
            Phase::Finished => (Seen::End, false),
            Phase::NotStarted => (Seen::Pending, true),
            Phase::Running => {
                if s.kind.is_stream() {
                    if s.taken < avail {
                        let r = &visible[s.taken];
                        let is_final = r.flags & CQE_F_MORE == 0;
                        let restartable = r.res == -EINTR || r.res == -ECANCELED;
                        if is_final && restartable && s.taken + 1 == visible.len() {
                            s.taken += 1;
                            s.attempt_start = s.taken;
                            s.phase = Phase::NotStarted;
                            return (Seen::Pending, true);
                        }
                        s.taken += 1;
                        return (Seen::Ready(r.value.clone()), false);
                    }
                    let fin = visible[..avail].iter().any(|r| r.flags & CQE_F_MORE == 0)
                        && visible[s.attempt_start..avail].iter().any(|r| r.flags & CQE_F_MORE == 0);
                    if fin {
                        s.phase = Phase::Finished;
                        (Seen::End, false)
                    } else {
                        (Seen::Pending, false)
                    }
                } else {
                    let cur = &visible[s.attempt_start.min(visible.len())..avail.max(s.attempt_start.min(visible.len()))];
                    let Some(fin_idx) = cur.iter().position(|r| r.flags & CQE_F_MORE == 0) else {
                        return (Seen::Pending, false);
                    };
                    // Value: last non-NOTIF CQE up to the final one.
                    let val = cur[..=fin_idx].iter().rev().find(|r| r.flags & CQE_F_NOTIF == 0).cloned();
                    let val = val.unwrap_or_else(|| cur[fin_idx].clone());
                    s.taken = s.attempt_start + fin_idx + 1;
                    if val.res == -EINTR || val.res == -ECANCELED {
                        s.attempt_start = s.taken;
                        s.phase = Phase::NotStarted;
                        return (Seen::Pending, true);
                    }
                    if s.kind.class() == Class::Rearm && val.res >= 0 {
                        // The iterator resets its state: the next poll submits again.
                        s.attempt_start = s.taken;
                        s.phase = Phase::NotStarted;
                        return (Seen::Ready(val.value), false);
                    }
                    s.phase = Phase::Finished;
                    (Seen::Ready(val.value), false)
                }
            }
        }
    }

    fn do_poll(&mut self, i: usize, fresh: bool) {
        if fresh {
            let w = self.new_waker();
            self.slots[i].waker = w;
        }
        let kind = self.slots[i].kind;
        let composite = kind.class() == Class::Composite;
        let (expected, restarts) = if composite { (Seen::Pending, false) } else { self.expect(i) };
        let room = self.sq_room();
        let tail_before = simk::with(|k| k.rings[0].sq_tail());
        let t_begin = waker::tick();
        let waker = self.slots[i].waker.clone();
        let wakes_before = waker.wakes();
        let mut op = self.slots[i].op.take().expect("polling a dropped op");
        let mut cx = Context::from_waker(&waker.waker);
        let seen = op.poll(&mut cx);
        self.slots[i].op = Some(op);
        self.slots[i].polled = true;
        let tail_after = simk::with(|k| k.rings[0].sq_tail());
        let submitted = tail_after.wrapping_sub(tail_before);
        // Learn the op's user_data from its first submission.
        if submitted >= 1 {
            let ud = simk::with(|k| unsafe { (*k.rings[0].sqe_slot(tail_before)).user_data() });
            match self.slots[i].ud {
                None => self.slots[i].ud = Some(ud),
                Some(old) if old != ud && !composite => {
                    let sig = format!("user-data-changed/{kind:?}");
                    self.report("C09", &sig, format!("{kind:?} re-issued with user_data {ud:#x}, first was {old:#x}"));
                }
                _ => {}
            }
        }
        if composite {
            // Composite futures are judged by C10; here only track state.
            self.obs = self.obs.wrapping_mul(31).wrapping_add(crate::report::hash_str(&format!("{i}{seen:?}")));
            match &seen {
                Seen::Pending => {
                    self.slots[i].pending = Some((wakes_before, t_begin));
                    self.slots[i].phase = Phase::Running;
                    self.slots[i].blocked = submitted == 0 && !room;
                }
                _ => {
                    self.slots[i].phase = Phase::Finished;
                    self.slots[i].pending = None;
                }
            }
            self.absorb_kernel_log();
            return;
        }
        self.obs = self.obs.wrapping_mul(31).wrapping_add(crate::report::hash_str(&format!("{i}{seen:?}")));
        // C02 / C05 / C09: the value.
        let opaque = matches!(kind, Kind::SockOpt | Kind::Statx | Kind::WaitId);
        let matches = match (&expected, &seen) {
            (Seen::Ready(e), Seen::Ready(a)) => e == a || (opaque && e == "opaque" && !a.starts_with("err:")),
            (a, b) => a == b,
        };
        if !matches {
            // C07: a descriptor the kernel returned is wrapped with the kind that was asked for.
            if let (Seen::Ready(e), Seen::Ready(a)) = (&expected, &seen) {
                let kind_of = |s: &str| s.strip_prefix("fd:").and_then(|r| r.split(':').next().map(|k| k.to_string()));
                if kind.class() == Class::Desc || kind.class() == Class::StreamDesc {
                    if let (Some(want), Some(got)) = (kind_of(e), kind_of(a)) {
                        if want != got {
                            self.report("C07", &format!("wrong-kind/{kind:?}"), format!("{kind:?} was asked for a {want} descriptor; what the caller got is {a} (the kernel returned {e})"));
                        }
                    }
                }
            }
            let prop = if self.cfg.prop == "C05" {
                "C05"
            } else if self.cfg.prop == "C09" {
                "C09"
            } else if self.cfg.prop == "C08" && kind == Kind::RereadHeld {
                // What a re-used pool buffer holds afterwards is C08's business.
                "C08"
            } else {
                "C02"
            };
            let sig = format!("wrong-result/{:?}/{}", kind, match (&expected, &seen) {
                (Seen::Pending, Seen::Ready(_)) => "ready-too-early-or-foreign",
                (Seen::Pending, Seen::End) => "ended-too-early",
                (Seen::Ready(_), Seen::Pending) => "not-delivered",
                (Seen::Ready(_), Seen::Ready(_)) => "wrong-value",
                (Seen::Ready(_), Seen::End) => "item-lost",
                (Seen::End, _) => "no-end",
                _ => "other",
            });
            self.report(prop, &sig, format!("poll of op {i} ({kind:?}) returned {seen:?}, the kernel's completions require {expected:?}"));
        }
        // Submission expectations.
        if restarts {
            if room {
                if submitted != 1 {
                    let prop = if self.slots[i].n_sqes > 0 || self.slots[i].first_sqe.is_some() { "C09" } else { "C04" };
                    let sig = format!("not-submitted/{kind:?}");
                    self.report(prop, &sig, format!("poll of op {i} ({kind:?}) had to (re)submit with room in the queue but published {submitted} entries"));
                }
                self.slots[i].phase = Phase::Running;
                self.slots[i].blocked = false;
            } else {
                if submitted != 0 {
                    self.report("C04", "submitted-when-full", format!("poll of op {i} published an entry although the queue was full"));
                    self.slots[i].phase = Phase::Running;
                } else {
                    self.slots[i].blocked = true;
                    // a10 keeps one list entry per blocked poll; an entry is
                    // consumed by one wake of its waker.
                    let outstanding = self
                        .slot_waiters
                        .iter()
                        .filter(|(w, th)| w.flag.id == waker.flag.id && w.wakes() < *th)
                        .count() as u64;
                    self.slot_waiters.push((waker.clone(), waker.wakes() + outstanding + 1));
                }
            }
        } else if submitted != 0 {
            let sig = format!("unexpected-submission/{kind:?}");
            self.report("C02", &sig, format!("poll of op {i} ({kind:?}) published {submitted} unexpected entries"));
        }
        match seen {
            Seen::Pending => {
                self.slots[i].pending = Some((wakes_before, t_begin));
            }
            Seen::Ready(ref val) => {
                self.slots[i].pending = None;
                self.slots[i].seen.push(val.clone());
                if val.starts_with("buf:") {
                    if let Some(sel) = self.sels.iter_mut().find(|s| s.slot == i && s.state == SelState::InFlight) {
                        sel.state = SelState::Owned;
                    }
                }
            }
            Seen::End => {
                self.slots[i].pending = None;
            }
        }
        self.slots[i].ready_unwoken_since = None;
        self.absorb_kernel_log();
    }

    fn do_enter(&mut self, timeout: Option<Duration>) {
        if self.cfg.canary {
            self.scribble();
        }
        // Snapshot for the wake-up oracle.
        let before: Vec<(usize, usize, bool)> = (0..self.slots.len())
            .map(|i| (i, self.processed(i), self.slots[i].blocked))
            .collect();
        self.slot_waiters.retain(|(w, th)| w.wakes() < *th);
        // Only demanded of a Ring::poll call that has no completions to hand
        // over first (one that does is followed by one that doesn't).
        let cq_empty_at_call = simk::with(|k| k.rings[0].cq_ready() == 0 && k.rings[0].overflow.is_empty());
        let waiting_before = if cq_empty_at_call { self.slot_waiters.len() } else { 0 };
        waker::tick();
        let would_block_before = simk::with(|k| k.would_block);
        let waiting_any = self.slot_waiters.len();
        let res = talloc::track(|| self.ring.as_mut().unwrap().poll(timeout));
        if let Err(e) = res {
            self.report(self.cfg.prop, "ring-poll-error", format!("Ring::poll returned an error: {e}"));
        }
        // A call without a timeout that went to wait in the kernel with nothing in sight that could end
        // the wait (in this sequential world nothing else runs: it would never return) while operations
        // wait for the submission slots this very call has freed.
        if timeout.is_none() && simk::with(|k| k.would_block) > would_block_before && waiting_any > 0 {
            let avail = simk::with(|k| k.rings[0].sq_entries.saturating_sub(k.rings[0].sq_pending()));
            if avail > 0 {
                self.report("C03", "lost-wakeup/queue-space/poll-blocks", format!("{waiting_any} waker(s) wait for a submission slot; Ring::poll(None) submitted what was queued ({avail} slot(s) are free now) and then waits in the kernel for a completion: if no other operation ever completes it never returns and the waiting operations are never woken"));
            }
        }
        self.absorb_kernel_log();
        self.absorb_spontaneous();
        // C04, kernel-thread rings: the thread picks up submissions only while it is awake; a Ring::poll
        // that returns with submissions queued and the thread asleep has not woken it -- and nobody will.
        // (Demanded, like the wake-ups for queue space, of a call that had no completions to hand over
        // first: one that had is followed by one that goes into the kernel.)
        if self.cfg.sqpoll && cq_empty_at_call {
            let (pending, idle) = simk::with(|k| (k.rings[0].sq_pending(), k.rings[0].sq_thread_idle));
            if pending > 0 && idle {
                self.report("C04", "submission-stuck/kernel-thread-asleep", format!("Ring::poll returned with {pending} submission(s) queued while the kernel thread sleeps (IORING_SQ_NEED_WAKEUP is set): it was not woken, the accepted submissions do not reach the kernel"));
            }
        }
        // C05: everything published before the call was handed over.
        let (head, tail, ovf) = simk::with(|k| (k.rings[0].cq_head(), k.rings[0].cq_tail(), k.rings[0].overflow.len()));
        if head != tail {
            self.report("C05", "cq-not-drained", format!("Ring::poll returned with published completions unconsumed: head={head:#x} tail={tail:#x} overflow={ovf}"));
        }
        // C03: completions consumed by this call must have woken their pending ops.
        for (i, proc_before, _) in before {
            let s = &self.slots[i];
            if s.dropped || s.op.is_none() {
                continue;
            }
            let Some((wakes_at_poll, _)) = s.pending else { continue };
            let proc_after = self.processed(i);
            if proc_after <= proc_before {
                continue;
            }
            // Did a processed CQE make it ready?
            let visible: Vec<&Rec> = s.recs.iter().filter(|r| !r.skipped).collect();
            let newly = &visible[proc_before.min(visible.len())..proc_after.min(visible.len())];
            let ready = if s.kind.is_stream() { !newly.is_empty() } else { newly.iter().any(|r| r.flags & CQE_F_MORE == 0) };
            if ready && s.waker.wakes() == wakes_at_poll {
                let sig = format!("lost-wakeup/completion/{:?}", s.kind);
                let msg = format!("op {i} ({:?}) returned Pending, Ring::poll then consumed the completion that makes it ready, but its waker was not invoked", s.kind);
                self.report("C03", &sig, msg);
            }
        }
        // C03: futures waiting for a submission slot must be woken when room
        // is available: every Ring::poll that returns with n free slots wakes
        // at least min(n, waiting) of the registered wakers (a10 rations
        // wake-ups by free slots, so that is all that is demanded).
        if waiting_before > 0 {
            let avail = simk::with(|k| k.rings[0].sq_entries.saturating_sub(k.rings[0].sq_pending())) as usize;
            let still = self.slot_waiters.iter().filter(|(w, th)| w.wakes() < *th).count();
            let woken = waiting_before - still;
            let must = avail.min(waiting_before);
            if woken < must {
                let msg = format!(
                    "{waiting_before} waker(s) wait for a submission slot, Ring::poll returned with {avail} free slot(s) but woke only {woken}",
                );
                self.report("C03", "lost-wakeup/queue-space", msg);
            }
        }
        // Canary must never resolve.
        if let Some((op, w, _)) = self.canary.as_mut() {
            let mut cx = Context::from_waker(&w.waker);
            let seen = op.poll(&mut cx);
            if seen != Seen::Pending {
                self.violations.push(v("C05", "canary-resolved", format!("an operation the kernel never completed resolved with {seen:?}: a10 interpreted an unpublished or released completion slot")));
            }
        }
    }

    fn do_drop_op(&mut self, i: usize) {
        let in_flight = self.slots[i].ud.is_some_and(|ud| simk::with(|k| k.inflight_by_ud(ud).is_some()));
        let queued = self.slots[i].ud.is_some_and(|ud| simk::with(|k| {
            let r = &k.rings[0];
            let (h, t) = (r.sq_head(), r.sq_tail());
            (0..t.wrapping_sub(h).min(r.sq_entries)).any(|j| unsafe { (*r.sqe_slot(h.wrapping_add(j))).user_data() } == ud)
        }));
        // a10 knows the op is running if its final CQE was not processed yet.
        let s = &self.slots[i];
        let processed = self.processed(i);
        let visible: Vec<&Rec> = s.recs.iter().filter(|r| !r.skipped).collect();
        let cur = &visible[s.attempt_start.min(visible.len())..processed.min(visible.len()).max(s.attempt_start.min(visible.len()))];
        let final_processed = cur.iter().any(|r| r.flags & CQE_F_MORE == 0);
        let running_for_a10 = s.phase == Phase::Running && !final_processed && s.kind.class() != Class::Composite;
        let room = self.sq_room();
        let tail_before = simk::with(|k| k.rings[0].sq_tail());
        let op = self.slots[i].op.take().expect("op already dropped");
        // Keep what the op handed out; dropping those is a separate action.
        let held = op.held.clone();
        let bufs = op.bufs.clone();
        talloc::track(|| drop(op));
        let _ = (in_flight, queued);
        let tail_after = simk::with(|k| k.rings[0].sq_tail());
        let mut published = tail_after.wrapping_sub(tail_before);
        self.slots[i].dropped = true;
        let kind = self.slots[i].kind;
        if matches!(kind, Kind::ReceiveSignal | Kind::ReceiveSignals | Kind::ReceiveSignalsIntoInner) {
            // These own their descriptor: its CLOSE follows whatever the operation itself publishes.
            let closes = simk::with(|k| (0..published).filter(|j| unsafe { (*k.rings[0].sqe_slot(tail_before.wrapping_add(*j))).opcode() } == OP_CLOSE).count() as u32);
            published -= closes;
        }
        if kind.class() != Class::Composite {
            if running_for_a10 {
                if room {
                    self.slots[i].cancel_expected += 1;
                    if published != 1 {
                        let sig = format!("cancel-missing/{kind:?}");
                        self.report("C06", &sig, format!("op {i} ({kind:?}) dropped while in flight with room in the queue, but {published} entries were published (expected the cancel request)"));
                    } else {
                        let sqe = simk::with(|k| unsafe { *k.rings[0].sqe_slot(tail_before) });
                        if sqe.opcode() != OP_ASYNC_CANCEL || Some(sqe.addr()) != self.slots[i].ud {
                            let sig = format!("cancel-wrong-target/{kind:?}");
                            self.report("C06", &sig, format!("dropping op {i} ({kind:?}, user_data {:?}) published {}", self.slots[i].ud, sqe.describe()));
                        }
                    }
                } else if published != 0 {
                    self.report("C04", "submitted-when-full", format!("drop of op {i} published an entry although the queue was full"));
                }
            } else if published != 0 {
                let sqe = simk::with(|k| unsafe { *k.rings[0].sqe_slot(tail_before) });
                let sig = format!("cancel-unneeded/{kind:?}");
                self.report("C06", &sig, format!("op {i} ({kind:?}) dropped while not in flight (phase {:?}) but a request was published: {}", self.slots[i].phase, sqe.describe()));
            }
        }
        if kind.class() == Class::Composite && published != 0 {
            // The model does not track which inner attempt a composite is in: a cancel
            // is allowed (not demanded) while it runs, and must name this operation.
            let sqe = simk::with(|k| unsafe { *k.rings[0].sqe_slot(tail_before) });
            let running = self.slots[i].phase == Phase::Running;
            if published == 1 && sqe.opcode() == OP_ASYNC_CANCEL && Some(sqe.addr()) == self.slots[i].ud && running && room {
                self.slots[i].cancel_expected += 1;
            } else {
                let sig = format!("cancel-wrong-target/{kind:?}");
                self.report("C06", &sig, format!("dropping op {i} ({kind:?}, user_data {:?}, phase {:?}) published {} entries, first: {}", self.slots[i].ud, self.slots[i].phase, published, sqe.describe()));
            }
        }
        for sel in self.sels.iter_mut().filter(|s| s.slot == i && s.state == SelState::InFlight) {
            sel.state = SelState::Lost;
        }
        // Handed-out objects stay alive in the slot.
        self.slots[i].op = None;
        let _ = (held, bufs);
        self.absorb_kernel_log();
    }
}


impl World for OpsWorld {
    type Action = Action;

    fn enabled(&mut self) -> Vec<(Action, u32)> {
        let c = self.cfg.costs.clone();
        let mut v = Vec::new();
        // Kernel completions first (they are the "default" progress), oldest request first.
        let order: Vec<u64> = simk::with(|k| k.inflight().iter().map(|s| k.req(*s).user_data).collect());
        let mut first = true;
        for ud in order {
            if let Some(i) = self.slots.iter().position(|s| s.ud == Some(ud)) {
                if self.slots[i].kind.class() == Class::Composite {
                    // Composite ops: only full-success / short / error.
                }
                for (oc, cost) in self.outcomes(i) {
                    v.push((Action::Complete(i, oc), cost + if first { 0 } else { c.reorder }));
                }
                first = false;
            }
        }
        v.push((Action::Enter, 0));
        if self.cfg.blocking_enter {
            v.push((Action::EnterBlocking, 1));
        }
        if self.cfg.sqpoll && self.sq_sleeps < 2 && simk::with(|k| k.rings[0].sq_pending() == 0 && !k.rings[0].sq_thread_idle) {
            v.push((Action::SqThreadSleeps, 1));
        }
        for i in 0..self.slots.len() {
            let s = &self.slots[i];
            if s.op.is_none() || s.phase == Phase::Finished {
                continue;
            }
            let woken = match s.pending {
                None => true,
                Some((w, _)) => s.waker.wakes() > w,
            };
            let cost = if !s.polled || woken { 0 } else { c.spurious_poll };
            if s.polled {
                v.push((Action::Poll(i, false), cost));
                if self.cfg.allow_fresh {
                    v.push((Action::Poll(i, true), cost + c.fresh_waker));
                }
            } else {
                v.push((Action::Poll(i, true), cost));
            }
        }
        if self.created < self.cfg.max_ops {
            for k in &self.cfg.kinds {
                v.push((Action::New(*k), c.new_op));
            }
        }
        if self.cfg.allow_drop {
            for i in 0..self.slots.len() {
                if self.slots[i].op.is_some() {
                    v.push((Action::DropOp(i), c.drop_op));
                }
            }
        }
        if self.cfg.allow_cancel_lose {
            for i in 0..self.slots.len() {
                let s = &self.slots[i];
                if s.op.is_some() && s.phase == Phase::Running {
                    if let Some(ud) = s.ud {
                        if !simk::with(|k| k.cancel_policy.contains_key(&ud)) {
                            v.push((Action::CancelLoses(i), c.cancel_lose));
                        }
                    }
                }
            }
        }
        for i in 0..self.cfg.raw_cqes.len() {
            v.push((Action::PostRaw(i), c.raw));
        }
        if self.cfg.held_letters {
            for i in 0..self.slots.len() {
                let n = self.held_of(i).0.borrow().len() + self.held_of(i).1.borrow().len();
                if n > 0 {
                    v.push((Action::DropHeld(i), 0));
                    if !self.held_of(i).0.borrow().is_empty() && self.created < self.cfg.max_ops + 2 {
                        v.push((Action::CloseHeld(i), 0));
                    }
                }
            }
            if !self.stdio_done {
                v.push((Action::Stdio(1), 1));
            }
        }
        if self.cfg.clone_held && !self.cloned {
            for i in 0..self.slots.len() {
                if self.held_of(i).0.borrow().first().is_some_and(|fd| format!("{:?}", fd.kind()) == "File") {
                    v.push((Action::CloneHeld(i), 0));
                }
            }
        }
        if self.cfg.edit_held && self.edits_done < 2 {
            for i in 0..self.slots.len() {
                if self.held_of(i).1.borrow().first().is_some_and(|b| b.len() >= 2) {
                    for e in 0..4u8 {
                        v.push((Action::EditHeld(i, e), if e == 0 { 0 } else { 1 }));
                    }
                }
            }
        }
        if self.cfg.reread_held && self.created < self.cfg.max_ops + 2 {
            for i in 0..self.slots.len() {
                if !self.held_of(i).1.borrow().is_empty() {
                    for via in 0..5u8 {
                        v.push((Action::RereadHeld(i, via), if via == 2 { 0 } else { 1 }));
                    }
                }
            }
        }
        v
    }

    fn apply(&mut self, a: &Action) {
        match a {
            Action::New(k) => self.new_op(*k),
            Action::Poll(i, fresh) => self.do_poll(*i, *fresh),
            Action::DropOp(i) => self.do_drop_op(*i),
            Action::Enter => self.do_enter(Some(Duration::ZERO)),
            Action::EnterBlocking => self.do_enter(None),
            Action::SqThreadSleeps => {
                self.sq_sleeps += 1;
                simk::with(|k| {
                    k.rings[0].sq_thread_idle = true;
                    k.rings[0].set_sq_flag(SQ_NEED_WAKEUP, true);
                });
            }
            Action::Complete(i, oc) => self.do_complete(*i, *oc),
            Action::PostRaw(i) => {
                let (ud, res, flags) = self.cfg.raw_cqes[*i];
                simk::with(|k| k.post_raw(0, ud, res, flags));
            }
            Action::CancelLoses(i) => {
                let ud = self.slots[*i].ud.unwrap();
                simk::with(|k| {
                    k.cancel_policy.insert(ud, CancelMode::Lose);
                });
            }
            Action::DropHeld(i) => {
                let (fds, bufs) = self.held_of(*i);
                talloc::track(|| {
                    fds.borrow_mut().clear();
                    bufs.borrow_mut().clear();
                });
                for sel in self.sels.iter_mut().filter(|s| s.slot == *i && s.state == SelState::Owned) {
                    sel.state = SelState::Released;
                }
                self.absorb_kernel_log();
            }
            Action::CloseHeld(i) => {
                let (fds, _) = self.held_of(*i);
                let fd = fds.borrow_mut().remove(0);
                let direct = format!("{:?}", fd.kind()) == "Direct";
                self.close_targets.push((ops::raw_of(&fd), direct, self.slots.len()));
                let op = ops::make_close(fd);
                let nth = self.created;
                self.created += 1;
                let waker = self.new_waker();
                self.slots.push(Slot {
                    kind: Kind::CloseFd,
                    op: Some(op),
                    nth,
                    ud: None,
                    waker,
                    polled: false,
                    pending: None,
                    blocked: false,
                    phase: Phase::NotStarted,
                    dropped: false,
                    recs: Vec::new(),
                    taken: 0,
                    attempt_start: 0,
                    first_sqe: None,
                    n_sqes: 0,
                    items: 0,
                    seen: Vec::new(),
                    cancel_expected: 0,
                    cancels_seen: 0,
                    ready_unwoken_since: None,
                    held: Default::default(),
                    prefix: Vec::new(),
                });
            }
            Action::EditHeld(i, e) => {
                self.edits_done += 1;
                let (_, bufs) = self.held_of(*i);
                let mut g = bufs.borrow_mut();
                let b = &mut g[0];
                let addr_before = b.as_ptr() as usize;
                let before = b[..].to_vec();
                let want: Vec<u8> = match e {
                    0 => before[1..].to_vec(),
                    1 => before[..1].to_vec(),
                    2 => before[..1].to_vec(),
                    _ => Vec::new(),
                };
                talloc::track(|| match e {
                    0 => b.remove(..1),
                    1 => b.truncate(1),
                    2 => b.remove(1..),
                    _ => b.clear(),
                });
                let after = b[..].to_vec();
                let addr_after = b.as_ptr() as usize;
                drop(g);
                // (Under C01 the history goes on to the re-use of the buffer, which is what C01 judges.)
                if (after != want || addr_after != addr_before) && self.cfg.prop != "C01" {
                    self.report("C08", "edit-moved-or-changed", format!("edit {e} of a handed-out pool buffer holding {before:02x?} at {addr_before:#x}: now {after:02x?} at {addr_after:#x}, expected {want:02x?} at the same place"));
                }
                // What the kernel wrote for this buffer, as the model remembers it.
                if let Some(bid) = self.pool_bufs.iter().position(|(a, l)| addr_before >= *a && addr_before < *a + *l as usize) {
                    for sel in self.sels.iter_mut().filter(|s| s.bid == bid as u16 && s.state == SelState::Owned) {
                        sel.data = want.clone();
                    }
                }
            }
            Action::CloneHeld(i) => {
                self.cloned = true;
                let (fds, _) = self.held_of(*i);
                let dup = talloc::track(|| fds.borrow()[0].try_clone());
                match dup {
                    Ok(fd) => {
                        let raw = ops::raw_of(&fd);
                        simk::with(|k| k.adopt_regular(raw));
                        crate::mapwatch::watch_fd(raw);
                        if unsafe { libc::fcntl(raw, libc::F_GETFD) } == -1 {
                            self.report("C07", "clone-not-open", format!("try_clone returned {fd:?}, but descriptor {raw} is not open"));
                        }
                        if format!("{:?}", fd.kind()) != "File" {
                            self.report("C07", "clone-wrong-kind", format!("try_clone of a regular descriptor returned {fd:?}"));
                        }
                        fds.borrow_mut().push(fd);
                    }
                    Err(e) => self.report("C07", "clone-failed", format!("try_clone of a regular descriptor failed: {e}")),
                }
                self.absorb_kernel_log();
            }
            Action::RereadHeld(i, via) => {
                let (_, bufs) = self.held_of(*i);
                let buf = bufs.borrow_mut().remove(0);
                let prefix = buf[..].to_vec();
                let addr = buf.as_ptr() as usize;
                let new_slot = self.slots.len();
                if let Some(bid) = self.pool_bufs.iter().position(|(a, l)| addr >= *a && addr < *a + *l as usize) {
                    for sel in self.sels.iter_mut().filter(|s| s.bid == bid as u16 && s.state == SelState::Owned) {
                        sel.slot = new_slot;
                    }
                }
                let op = ops::make_reread(self.fd.unwrap(), buf, *via);
                let nth = self.created;
                self.created += 1;
                let waker = self.new_waker();
                let held = (op.held.clone(), op.bufs.clone());
                self.slots.push(Slot {
                    kind: Kind::RereadHeld,
                    op: Some(op),
                    nth,
                    ud: None,
                    waker,
                    polled: false,
                    pending: None,
                    blocked: false,
                    phase: Phase::NotStarted,
                    dropped: false,
                    recs: Vec::new(),
                    taken: 0,
                    attempt_start: 0,
                    first_sqe: None,
                    n_sqes: 0,
                    items: 0,
                    seen: Vec::new(),
                    cancel_expected: 0,
                    cancels_seen: 0,
                    ready_unwoken_since: None,
                    held,
                    prefix,
                });
            }
            Action::Stdio(which) => {
                self.stdio_done = true;
                let sq = self.sq.as_ref().unwrap().clone();
                talloc::track(|| match which {
                    0 => drop(a10::io::stdin(sq)),
                    1 => drop(a10::io::stdout(sq)),
                    _ => drop(a10::io::stderr(sq)),
                });
                self.absorb_kernel_log();
            }
        }
    }

    fn take_violations(&mut self) -> Vec<Violation> {
        self.pool_check(false);
        std::mem::take(&mut self.violations)
    }

    fn key(&mut self) -> u64 {
        let mut h = String::new();
        for s in &self.sels {
            h.push_str(&format!("<{} {} {:?}>", s.bid, s.slot, s.state));
        }
        for i in 0..self.slots.len() {
            let p = self.processed(i);
            let s = &self.slots[i];
            let woken = s.pending.map(|(w, _)| s.waker.wakes() > w);
            h.push_str(&format!(
                "[{:?} {:?} op={} rec={} tk={} pr={} pend={:?} bl={} it={} sq={}]",
                s.kind,
                s.phase,
                s.op.is_some(),
                // (Errors by errno: an interruption or cancellation restarts the operation, any other error ends it.)
                // (and byte counts as they are: a short count makes a composite operation go on, a full one ends it.)
                s.recs.iter().map(|r| format!("{}:{}", if r.res < 0 || s.kind.class() == Class::Composite { r.res } else { r.res.signum() }, r.flags & 0xffff)).collect::<Vec<_>>().join(","),
                s.taken,
                p,
                woken,
                s.blocked,
                s.items,
                s.n_sqes
            ));
        }
        let ring = simk::with(|k| {
            let r = &k.rings[0];
            format!(
                "sq={} cq={} ovf={} infl={:?} pol={}",
                r.sq_pending(),
                r.cq_ready(),
                r.overflow.len(),
                k.inflight().iter().map(|s| (k.req(*s).opcode, k.req(*s).awaiting_notif, k.req(*s).cqes)).collect::<Vec<_>>(),
                k.cancel_policy.len()
            )
        });
        h.push_str(&ring);
        if self.cfg.sqpoll {
            h.push_str(&format!(" idle={} sleeps={}", simk::with(|k| k.rings[0].sq_thread_idle), self.sq_sleeps));
        }
        // Handed-out pool buffers can be edited in place and handed back to the kernel: what they hold is state.
        if self.cfg.edit_held || self.cfg.reread_held {
            h.push_str(&format!(" edits={}", self.edits_done));
            for s in &self.slots {
                for b in s.held.1.borrow().iter() {
                    h.push_str(&format!(" buf{:02x?}", &b[..]));
                }
            }
        }
        crate::report::hash_str(&h)
    }

    fn observation(&self) -> u64 {
        self.obs
    }

    fn finish(self) -> Vec<Violation> {
        // A panic in the epilogue must not run the world's destructors.
        let mut this = std::mem::ManuallyDrop::new(self);
        this.finish_inner()
    }
}

impl OpsWorld {
    /// Epilogue variant: the futures are gone, now the Ring is dropped at once -- with whatever is
    /// queued or in flight -- and only then everything else. Judged: memory safety and C06's
    /// "released exactly once, never leaked ... when the Ring is dropped".
    fn finish_ring_first(&mut self) -> Vec<Violation> {
        let ring = self.ring.take();
        talloc::track(|| drop(ring));
        self.absorb_kernel_log();
        // C05 at the last Ring::poll there is (the Ring's own final drain): everything the kernel
        // published, or holds back only because the completion queue was full, is handed over.
        let (ready, overflown) = simk::with(|k| (k.rings[0].cq_ready(), k.rings[0].overflow.len()));
        if ready != 0 || overflown != 0 {
            self.report("C05", "cq-not-drained/ring-drop", format!("the Ring was dropped with {ready} published and {overflown} overflown completion(s) never handed to their operations"));
        }
        if !self.violations.is_empty() {
            return self.bail();
        }
        talloc::track(|| {
            for s in &self.slots {
                s.held.0.borrow_mut().clear();
                s.held.1.borrow_mut().clear();
            }
            if let Some(fd) = self.fd.take() {
                drop(unsafe { Box::from_raw(std::ptr::from_ref(fd).cast_mut()) });
            }
            if let Some(fd) = self.fd_regular.take() {
                drop(unsafe { Box::from_raw(std::ptr::from_ref(fd).cast_mut()) });
            }
            self.pool = None;
        });
        let sq = self.sq.take();
        talloc::track(|| drop(sq));
        let viol = simk::with(|k| std::mem::take(&mut k.violations));
        for (class, msg) in viol {
            let prop = if class.starts_with("sq-") { "C04" } else if class.starts_with("close-") { "C07" } else { "C01" };
            self.report(prop, &class, msg);
        }
        // The kernel cancelled everything when asked to (the default); nothing can be outstanding.
        let (outstanding, awaiting_notif) = simk::with(|k| {
            let infl = k.inflight();
            (infl.len(), infl.iter().filter(|s| k.req(**s).awaiting_notif).count())
        });
        simk::shutdown();
        let rep = talloc::disarm();
        if rep.double_frees > 0 {
            let b = rep.first_double_free.unwrap();
            self.report("C06", "double-free", format!("block #{} ({} bytes) freed twice", b.serial, b.size));
        }
        // A zero-copy notification the kernel has not posted yet (it still uses the buffer) can no
        // longer be received: what that operation owns cannot be released by anyone.
        if !rep.leaked.is_empty() && awaiting_notif == 0 {
            // (The simulated kernel cancels whatever it is asked to: an operation still running now was
            // started after, or never covered by, the Ring's final cancellation.)
            let kinds: Vec<String> = self.slots.iter().map(|s| format!("{:?}", s.kind)).collect();
            let total: usize = rep.leaked.iter().map(|b| b.size).sum();
            self.report("C06", "leak/ring-dropped-first", format!("{} block(s), {total} bytes still allocated after the futures, then the Ring, then everything else were dropped; {outstanding} operation(s) still running in the kernel (ops: {kinds:?})", rep.leaked.len()));
        }
        std::mem::take(&mut self.violations)
    }

    /// Stop here: something broke, leak what is left.
    fn bail(&mut self) -> Vec<Violation> {
        simk::shutdown();
        talloc::disarm();
        std::mem::take(&mut self.violations)
    }

    fn finish_inner(&mut self) -> Vec<Violation> {
        // Epilogue. 1: drop all operation futures.
        for i in 0..self.slots.len() {
            if self.slots[i].op.is_some() {
                self.do_drop_op(i);
            }
        }
        if !self.violations.is_empty() {
            return self.bail();
        }
        if let Some((op, _, _)) = self.canary.take() {
            talloc::track(|| drop(op));
        }
        if self.cfg.final_drop_ring_first {
            return self.finish_ring_first();
        }
        // 2: kernel answers everything outstanding (cancel requests first).
        for _ in 0..8 {
            talloc::track(|| {
                let _ = self.ring.as_mut().unwrap().poll(Some(Duration::ZERO));
            });
            self.absorb_kernel_log();
            if !self.violations.is_empty() {
                return self.bail();
            }
            let (infl, pending) = simk::with(|k| (k.inflight(), k.rings[0].sq_pending()));
            if infl.is_empty() && pending == 0 {
                break;
            }
            for s in infl {
                simk::with(|k| {
                    if k.req(s).done {
                        return;
                    }
                    if k.req(s).awaiting_notif {
                        k.complete(s, Out::Notif);
                    } else if k.req(s).multishot {
                        k.complete(s, Out::ZeroNoBuf);
                    } else {
                        k.complete(s, Out::Res(-libc::ECANCELED));
                    }
                });
            }
        }
        talloc::track(|| {
            let _ = self.ring.as_mut().unwrap().poll(Some(Duration::ZERO));
        });
        self.absorb_kernel_log();
        if !self.violations.is_empty() {
            return self.bail();
        }
        // 3: drop handed-out objects, the descriptor, the pool, the ring.
        talloc::track(|| {
            for s in &self.slots {
                s.held.0.borrow_mut().clear();
                s.held.1.borrow_mut().clear();
            }
            if let Some(fd) = self.fd.take() {
                drop(unsafe { Box::from_raw(std::ptr::from_ref(fd).cast_mut()) });
            }
            if let Some(fd) = self.fd_regular.take() {
                drop(unsafe { Box::from_raw(std::ptr::from_ref(fd).cast_mut()) });
            }
            let _ = self.ring.as_mut().unwrap().poll(Some(Duration::ZERO));
        });
        for sel in self.sels.iter_mut().filter(|s| s.state == SelState::Owned) {
            sel.state = SelState::Released;
        }
        self.pool_check(true);
        talloc::track(|| {
            self.pool = None;
        });
        self.absorb_kernel_log();
        let ring = self.ring.take();
        let sq = self.sq.take();
        talloc::track(|| {
            drop(ring);
            drop(sq);
        });
        let viol = simk::with(|k| std::mem::take(&mut k.violations));
        for (class, msg) in viol {
            let prop = if class.starts_with("sq-") { "C04" } else if class.starts_with("close-") { "C07" } else { "C01" };
            self.report(prop, &class, msg);
        }
        let (descs, origins) = simk::with(|k| {
            k.sync_closes();
            let origins: Vec<(u32, &'static str, u64)> = k.reqs.iter().map(|r| (r.serial, opcode_name(r.opcode), r.user_data)).collect();
            (k.descs.clone(), origins)
        });
        simk::shutdown();
        let rep = talloc::disarm();
        // C06: state reclaimed exactly once.
        if rep.double_frees > 0 {
            let b = rep.first_double_free.unwrap();
            self.report("C06", "double-free", format!("block #{} ({} bytes) freed twice", b.serial, b.size));
        }
        if !rep.leaked.is_empty() {
            let kinds: Vec<String> = self.slots.iter().map(|s| format!("{:?}", s.kind)).collect();
            let total: usize = rep.leaked.iter().map(|b| b.size).sum();
            // Classify: which ops were abandoned (dropped while running)?
            let abandoned: Vec<String> = self
                .slots
                .iter()
                .filter(|s| s.cancel_expected > 0 || (s.dropped && s.phase == Phase::Running))
                .map(|s| format!("{:?}", s.kind))
                .collect();
            let class = if abandoned.is_empty() { "no-abandoned-op".to_string() } else { format!("abandoned:{}", abandoned[0]) };
            self.report(
                "C06",
                &format!("leak/{class}"),
                format!("{} block(s), {} bytes still allocated after everything was dropped (ops: {kinds:?})", rep.leaked.len(), total),
            );
        }
        // C07: every issued descriptor closed exactly once.
        for d in &descs {
            if d.origin == 0 {
                // The harness descriptor, owned by the world's AsyncFd.
            }
            // A descriptor handed to `AsyncFd::close` whose Close future did
            // not complete successfully is outside the statement.
            let (num, direct) = match d.kind {
                simk::DescKind::Regular(fd) => (fd, false),
                simk::DescKind::Fixed { slot, .. } => (slot as i32, true),
            };
            let unfinished_close = self
                .close_targets
                .iter()
                .any(|(n, dr, slot)| *n == num && *dr == direct && !self.slots[*slot].seen.iter().any(|s| s == "unit"));
            if d.open && !unfinished_close {
                let kind = match d.kind { simk::DescKind::Regular(_) => "regular", simk::DescKind::Fixed { .. } => "direct" };
                let origin = origins.iter().find(|(ser, _, _)| *ser == d.origin);
                let class = match origin {
                    Some((_, opname, ud)) => {
                        let slot = self.slots.iter().find(|s| s.ud == Some(*ud));
                        match slot {
                            Some(s) if s.dropped && s.phase != Phase::Finished => format!("delivered-to-abandoned-op:{opname}"),
                            _ => format!("owner-gone:{opname}"),
                        }
                    }
                    None => "harness-descriptor".to_string(),
                };
                let sig = format!("unclosed/{kind}/{class}");
                self.report("C07", &sig, format!("descriptor {:?} issued for request #{} was never closed", d.kind, d.origin));
            }
            if d.closes.len() > 1 {
                self.report("C07", "closed-twice", format!("descriptor {:?} closed {} times: {:?}", d.kind, d.closes.len(), d.closes));
            }
        }
        std::mem::take(&mut self.violations)
    }
}
