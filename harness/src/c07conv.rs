//! C07: descriptors that change hands inside a wrapper type. `Signals::to_direct_descriptor` replaces
//! the signalfd a `Signals` owns by a direct descriptor: the regular one must be closed exactly once,
//! the direct one when the new `Signals` goes.
#![allow(dead_code)]

use std::future::Future;
use std::task::{Context, Poll};
use std::time::Duration;

use a10::Ring;
use a10::process::{Signal, Signals};

use crate::report::Violation;
use crate::simk::{self, Out};
use crate::talloc;
use crate::waker::HWaker;

#[derive(Clone, Debug, PartialEq, Eq)]
pub struct Case {
    /// What the kernel answers the conversion with: true = success.
    pub ok: bool,
    /// Ring::poll calls between the result and its drop.
    pub polls_before_drop: usize,
    /// Submission queue entries (1: full while clean-up requests are queued).
    pub sq: u32,
    /// Drop the conversion future in flight instead of polling it to the end.
    pub abandon: bool,
}

fn v(sig: &str, msg: String) -> Violation {
    Violation::new("C07", sig, &msg)
}

fn fd_of(dbg: &str) -> i32 {
    let start = dbg.rfind("fd: ").map(|i| i + 4).unwrap_or(0);
    let rest = &dbg[start..];
    let end = rest.find([',', ' ', '}']).unwrap_or(rest.len());
    rest[..end].trim().parse().unwrap_or(-1)
}

pub fn run(c: &Case) -> Vec<Violation> {
    crate::waker::reset_clock();
    simk::reset(simk::SetupPlan::default());
    talloc::set_on_free(Some(simk::on_free));
    let mut out = Vec::new();
    let mut ring = talloc::track(|| Ring::config().with_submission_queue_size(c.sq).with_direct_descriptors(4).build().expect("ring"));
    let sq = ring.sq();
    let signals = talloc::track(|| Signals::from_signals(sq.clone(), [Signal::USER2]).expect("signalfd"));
    let raw = fd_of(&format!("{signals:?}"));
    if raw < 3 {
        return vec![v("harness/signalfd", format!("could not find the signalfd of {signals:?}"))];
    }
    simk::with(|k| k.adopt_regular(raw));
    crate::mapwatch::watch_fd(raw);
    let enter = |ring: &mut Ring| {
        talloc::track(|| {
            let _ = ring.poll(Some(Duration::ZERO));
        })
    };
    let w = HWaker::new(1);
    let mut result: Option<std::io::Result<Signals>> = None;
    {
        let mut fut = Box::pin(talloc::track(|| signals.to_direct_descriptor()));
        let mut cx = Context::from_waker(&w.waker);
        if talloc::track(|| fut.as_mut().poll(&mut cx)).is_ready() {
            return vec![v("harness/conversion", "the conversion resolved without asking the kernel".into())];
        }
        enter(&mut ring);
        let s = simk::with(|k| k.inflight().last().copied());
        let Some(s) = s else {
            return vec![v("conversion-not-submitted", "Signals::to_direct_descriptor did not submit anything".into())];
        };
        if c.abandon {
            talloc::track(|| drop(fut));
            enter(&mut ring);
            simk::with(|k| {
                if !k.req(s).done {
                    k.complete(s, if c.ok { Out::Default } else { Out::Res(-libc::ENOMEM) })
                }
            });
            enter(&mut ring);
        } else {
            simk::with(|k| k.complete(s, if c.ok { Out::Default } else { Out::Res(-libc::ENOMEM) }));
            enter(&mut ring);
            match talloc::track(|| fut.as_mut().poll(&mut cx)) {
                Poll::Ready(r) => result = Some(r),
                Poll::Pending => out.push(v("conversion-stuck", "the conversion is still Pending after its completion was processed".into())),
            }
            talloc::track(|| drop(fut));
        }
    }
    if let Some(r) = &result {
        if r.is_ok() != c.ok {
            out.push(v("conversion-result", format!("the kernel answered {} but the conversion resolved with {:?}", if c.ok { "success" } else { "ENOMEM" }, r.as_ref().map(|s| format!("{s:?}")))));
        }
        if let Ok(s) = r {
            if !format!("{s:?}").contains("Direct") {
                out.push(v("conversion-kind", format!("the converted Signals does not own a direct descriptor: {s:?}")));
            }
        }
    }
    for _ in 0..c.polls_before_drop {
        enter(&mut ring);
    }
    // Right after a successful conversion (and a Ring::poll) the regular signalfd must be closed already:
    // nobody owns it any more.
    let state = |raw: i32| {
        simk::with(|k| {
            k.sync_closes();
            k.descs.iter().find(|d| d.kind == simk::DescKind::Regular(raw)).map(|d| (d.open, d.closes.clone()))
        })
    };
    if c.ok && !c.abandon && c.polls_before_drop > 0 {
        if let Some((true, _)) = state(raw) {
            out.push(v("unclosed/regular/owner-gone:signalfd", format!("Signals::to_direct_descriptor succeeded and Ring::poll ran, but the regular signalfd {raw} it replaced is still open")));
        }
    }
    talloc::track(|| drop(result));
    for _ in 0..3 {
        enter(&mut ring);
    }
    match state(raw) {
        Some((true, _)) if !(c.abandon && c.ok) => out.push(v("unclosed/regular/owner-gone:signalfd", format!("the signalfd {raw} is still open after the Signals that owned it (and its converted form) were dropped"))),
        Some((_, closes)) if closes.len() > 1 => out.push(v("closed-twice", format!("the signalfd {raw} was closed {} times: {closes:?}", closes.len()))),
        _ => {}
    }
    let fixed_open: Vec<String> = simk::with(|k| k.descs.iter().filter(|d| d.open && matches!(d.kind, simk::DescKind::Fixed { .. })).map(|d| format!("{:?}", d.kind)).collect());
    if !fixed_open.is_empty() && !c.abandon {
        out.push(v("unclosed/direct/owner-gone:signalfd", format!("direct descriptor(s) {fixed_open:?} still installed after the converted Signals was dropped")));
    }
    for (class, msg) in simk::with(|k| std::mem::take(&mut k.violations)) {
        let prop = if class.starts_with("close-") { "C07" } else { "C01" };
        out.push(Violation::new(prop, &class, &msg));
    }
    if out.is_empty() {
        talloc::track(|| {
            drop(ring);
            drop(sq);
        });
    } else {
        std::mem::forget(ring);
        std::mem::forget(sq);
    }
    crate::mapwatch::watch_fd(-1);
    out
}

pub fn cases() -> Vec<Case> {
    let mut v = Vec::new();
    for ok in [true, false] {
        for polls_before_drop in [0usize, 1, 2] {
            for sq in [1u32, 4] {
                v.push(Case { ok, polls_before_drop, sq, abandon: false });
            }
        }
    }
    v.push(Case { ok: true, polls_before_drop: 1, sq: 4, abandon: true });
    v.push(Case { ok: false, polls_before_drop: 1, sq: 4, abandon: true });
    v
}
