//! C18: ring construction is all-or-nothing and honours its configuration.
//!
//! One execution per (configuration, kernel answer) pair: build, judge, use,
//! drop, judge again.
#![allow(dead_code)]

use std::task::Context;
use std::time::Duration;

use a10::{AsyncFd, Ring};

use crate::abi::*;
use crate::mapwatch::{self, MapEvent};
use crate::ops::{self, Kind, Seen};
use crate::report::Violation;
use crate::seqx::World;
use crate::simk::{self, Out};
use crate::talloc;
use crate::waker::HWaker;

#[derive(Clone, Debug, PartialEq, Eq)]
pub struct Conf {
    pub sq: u32,
    /// None: unset, Some(n)
    pub cq: Option<u32>,
    pub max_size: bool,
    pub kernel_thread: bool,
    pub affinity: Option<u32>,
    pub idle: Option<u64>,
    pub single_issuer: bool,
    pub defer_taskrun: bool,
    pub disabled: bool,
    pub attach: bool,
    pub direct: Option<u32>,
}

#[derive(Clone, Copy, Debug, PartialEq, Eq)]
pub enum Answer {
    Ok,
    /// Kernel grants other sizes than asked: (sq, cq).
    Grant(u32, u32),
    SetupErr(i32),
    MissingFeature(u32),
    Unmappable,
    /// The k-th mmap of the ring descriptor fails (1-based).
    MmapFails(i64),
    MadviseFails(i64),
    RegisterFilesFails(i32),
}

#[derive(Clone, Debug, PartialEq, Eq)]
pub struct Case {
    pub conf: Conf,
    pub answer: Answer,
    pub c0: u32,
}

#[derive(Clone, Debug, PartialEq, Eq)]
pub enum Action {
    Pick(usize),
}

pub struct C18World {
    cases: std::rc::Rc<Vec<Case>>,
    violations: Vec<Violation>,
    obs: u64,
    picked: bool,
    case_hash: u64,
}

fn open_fds() -> Vec<i32> {
    let mut v = Vec::new();
    if let Ok(rd) = std::fs::read_dir("/proc/self/fd") {
        for e in rd.flatten() {
            if let Ok(n) = e.file_name().to_string_lossy().parse::<i32>() {
                v.push(n);
            }
        }
    }
    v.sort();
    v
}

impl C18World {
    pub fn new(cases: std::rc::Rc<Vec<Case>>) -> C18World {
        C18World { cases, violations: Vec::new(), obs: 0, picked: false, case_hash: 0 }
    }

    fn bad(&mut self, case: &Case, sig: &str, msg: String) {
        self.violations.push(Violation::new("C18", sig, &format!("{msg} [case {case:?}]")));
    }

    fn run(&mut self, case: Case) {
        let c = &case.conf;
        let mut plan = simk::SetupPlan { c0_sq: case.c0, c0_cq: case.c0, ..Default::default() };
        match case.answer {
            Answer::Grant(s, q) => {
                plan.sq_grant = Some(s);
                plan.cq_grant = Some(q);
            }
            Answer::SetupErr(e) => plan.err = Some(e),
            Answer::MissingFeature(f) => plan.features = FEAT_ALL & !f,
            Answer::Unmappable => plan.unmappable = true,
            _ => {}
        }
        simk::reset(plan);
        talloc::set_on_free(Some(simk::on_free));
        // A live ring to attach to (built with the plain plan, before faults are armed).
        let other = if c.attach {
            let saved = simk::with(|k| std::mem::replace(&mut k.plan, simk::SetupPlan::default()));
            let r = talloc::track(|| Ring::config().with_submission_queue_size(2).build().expect("attach target"));
            simk::with(|k| k.plan = saved);
            Some(r)
        } else {
            None
        };
        let fds_before = open_fds();
        let maps_before = mapwatch::mappings().len();
        let live_before = talloc::live_count();
        let ev_before = mapwatch::events().len();
        match case.answer {
            Answer::MmapFails(k) => mapwatch::FAIL_MMAP_AT.store(mapwatch::mmap_count() + k, std::sync::atomic::Ordering::SeqCst),
            Answer::MadviseFails(k) => mapwatch::FAIL_MADVISE_AT.store(mapwatch::madvise_count() + k, std::sync::atomic::Ordering::SeqCst),
            Answer::RegisterFilesFails(e) => simk::with(|k| {
                k.fail_register.insert(REGISTER_FILES2, e);
            }),
            _ => {}
        }
        let log_before = simk::with(|k| k.log.len());
        let result = talloc::track(|| {
            let mut cfg = Ring::config();
            if c.max_size {
                cfg = cfg.with_maximum_queue_size();
            } else {
                cfg = cfg.with_submission_queue_size(c.sq);
            }
            if let Some(cq) = c.cq {
                cfg = cfg.with_completion_queue_size(cq);
            }
            if c.kernel_thread {
                cfg = cfg.with_kernel_thread();
            }
            if let Some(cpu) = c.affinity {
                cfg = cfg.with_cpu_affinity(cpu);
            }
            if let Some(ms) = c.idle {
                cfg = cfg.with_idle_timeout(Duration::from_millis(ms));
            }
            if c.single_issuer {
                cfg = cfg.single_issuer();
            }
            if c.defer_taskrun {
                cfg = cfg.defer_task_run();
            }
            if c.disabled {
                cfg = cfg.disable();
            }
            if let Some(n) = c.direct {
                cfg = cfg.with_direct_descriptors(n);
            }
            match &other {
                Some(o) => cfg.attach(o).build(),
                None => cfg.build(),
            }
        });
        mapwatch::FAIL_MMAP_AT.store(0, std::sync::atomic::Ordering::SeqCst);
        mapwatch::FAIL_MADVISE_AT.store(0, std::sync::atomic::Ordering::SeqCst);
        // What did the kernel say?
        let setup = simk::with(|k| {
            k.log[log_before..].iter().find_map(|e| if let simk::Event::Setup { entries, params_in, result, ring } = e { Some((*entries, *params_in, *result, *ring)) } else { None })
        });
        let Some((entries, pin, setup_res, ring_id)) = setup else {
            self.bad(&case, "no-setup-call", "Config::build did not call io_uring_setup".into());
            return;
        };
        // The parameter block must encode the configuration.
        let mut want_flags = SETUP_SUBMIT_ALL | SETUP_NO_SQARRAY;
        want_flags |= if c.kernel_thread { SETUP_SQPOLL } else { SETUP_COOP_TASKRUN };
        if c.disabled {
            want_flags |= SETUP_R_DISABLED;
        }
        if c.single_issuer {
            want_flags |= SETUP_SINGLE_ISSUER;
        }
        if c.defer_taskrun {
            want_flags |= SETUP_DEFER_TASKRUN;
        }
        if c.cq.is_some() {
            want_flags |= SETUP_CQSIZE;
        }
        if c.max_size {
            want_flags |= SETUP_CLAMP;
        }
        if c.affinity.is_some() {
            want_flags |= SETUP_SQ_AFF;
        }
        if c.attach {
            want_flags |= SETUP_ATTACH_WQ;
        }
        let want_sq = if c.max_size { u32::MAX } else { c.sq };
        if pin.flags != want_flags {
            self.bad(&case, "params-flags", format!("io_uring_setup flags {:#x}, the configuration asks for {:#x}", pin.flags, want_flags));
        }
        if entries != want_sq || pin.sq_entries != want_sq {
            self.bad(&case, "params-sq-entries", format!("io_uring_setup entries {entries}/{} instead of {want_sq}", pin.sq_entries));
        }
        if pin.cq_entries != c.cq.unwrap_or(0) {
            self.bad(&case, "params-cq-entries", format!("cq_entries {} instead of {:?}", pin.cq_entries, c.cq));
        }
        if pin.sq_thread_cpu != c.affinity.unwrap_or(0) || pin.sq_thread_idle != c.idle.unwrap_or(0) as u32 {
            self.bad(&case, "params-sq-thread", format!("sq_thread_cpu={} sq_thread_idle={} for affinity {:?} idle {:?}", pin.sq_thread_cpu, pin.sq_thread_idle, c.affinity, c.idle));
        }
        if c.attach {
            let other_fd = simk::with(|k| k.rings[0].fd);
            if pin.wq_fd as i32 != other_fd {
                self.bad(&case, "params-wq-fd", format!("wq_fd {} is not the attached ring's descriptor {other_fd}", pin.wq_fd));
            }
        } else if pin.wq_fd != 0 {
            self.bad(&case, "params-wq-fd", format!("wq_fd {} without attach", pin.wq_fd));
        }
        // Which branch must happen is a function of the kernel's answers alone.
        let required = FEAT_NODROP | FEAT_SUBMIT_STABLE | FEAT_RW_CUR_POS | FEAT_SQPOLL_NONFIXED;
        let features = simk::with(|k| k.plan.features);
        let injected = matches!(case.answer, Answer::MmapFails(_) | Answer::MadviseFails(_) | Answer::Unmappable) || (matches!(case.answer, Answer::RegisterFilesFails(_)) && c.direct.is_some());
        let files_invalid = c.direct == Some(0);
        let want_ok = setup_res >= 0 && features & required == required && !injected && !files_invalid;
        self.obs = crate::report::hash_str(&format!("{}{}", result.is_ok(), setup_res));
        match result {
            Err(err) => {
                // The error value owns allocations of its own: render and drop it first.
                let err = talloc::track(|| {
                    let s = talloc::untracked(|| err.to_string());
                    drop(err);
                    s
                });
                if want_ok {
                    self.bad(&case, "spurious-error", format!("the kernel granted everything but Config::build failed: {err}"));
                }
                // Nothing may be left behind.
                let fds_after = open_fds();
                if fds_after != fds_before {
                    let extra: Vec<&i32> = fds_after.iter().filter(|f| !fds_before.contains(f)).collect();
                    self.bad(&case, "fd-left-behind", format!("descriptors {extra:?} are still open after Config::build failed with {err}"));
                }
                let maps = mapwatch::mappings();
                if maps.len() != maps_before {
                    self.bad(&case, "mapping-left-behind", format!("{} ring mapping(s) left after Config::build failed with {err}: {:?}", maps.len() - maps_before, &maps[maps_before..]));
                }
                if talloc::live_count() != live_before {
                    self.bad(&case, "allocation-left-behind", format!("{} allocation(s) left after Config::build failed", talloc::live_count() as i64 - live_before as i64));
                }
                self.check_unmaps(&case, ev_before);
                if setup_res >= 0 {
                    let closed = mapwatch::events()[ev_before..].iter().any(|e| matches!(e, MapEvent::CloseRing { fd, .. } if *fd == setup_res));
                    if !closed {
                        self.bad(&case, "fd-left-behind", format!("the ring descriptor {setup_res} was not closed after Config::build failed with {err}"));
                    }
                }
                talloc::track(|| drop(other));
            }
            Ok(mut ring) => {
                if !want_ok {
                    self.bad(&case, "partial-ring-escaped", format!("Config::build returned a Ring although the kernel refused (setup result {setup_res}, features {features:#x}, answer {:?})", case.answer));
                    std::mem::forget(ring);
                    std::mem::forget(other);
                    return;
                }
                let rid = ring_id.unwrap();
                let (gsq, gcq) = simk::with(|k| (k.rings[rid].sq_entries, k.rings[rid].cq_entries));
                // Direct descriptor table registered with the requested size?
                let table = simk::with(|k| k.rings[rid].fixed.as_ref().map(|t| t.len() as u32));
                if table != c.direct {
                    self.bad(&case, "direct-table", format!("fixed file table {table:?}, configuration asks for {:?}", c.direct));
                }
                // Enable is required iff the ring was started disabled.
                if c.disabled {
                    if talloc::track(|| ring.poll(Some(Duration::ZERO))).is_ok() {
                        self.bad(&case, "disabled-ring-polls", "Ring::poll succeeded on a ring that is still disabled".into());
                    }
                    if let Err(e) = talloc::track(|| ring.enable()) {
                        self.bad(&case, "enable-failed", format!("Ring::enable failed on a disabled ring: {e}"));
                    }
                } else if talloc::track(|| ring.enable()).is_ok() {
                    self.bad(&case, "enable-on-enabled", "Ring::enable succeeded on a ring that was not disabled".into());
                }
                // Round trip through the granted queues: as many operations as
                // the granted submission queue holds (bounded), each through its slot.
                let sq = ring.sq();
                let raw = simk::with(|k| k.new_regular_pub());
                let fd: &'static AsyncFd = Box::leak(Box::new(talloc::track(|| unsafe { AsyncFd::from_raw_fd(raw, sq.clone()) })));
                let rounds = (gsq as usize + 1).min(5);
                for n in 0..rounds {
                    let env = ops::Env { sq: &sq, fd, pool: None, nth: n };
                    let mut op = ops::make(Kind::WriteVec, &env);
                    let w = HWaker::new(n as u32 + 1);
                    let mut cx = Context::from_waker(&w.waker);
                    let tail = simk::with(|k| k.rings[rid].sq_tail());
                    if op.poll(&mut cx) != Seen::Pending {
                        self.bad(&case, "round-trip", "first poll did not return Pending".into());
                    }
                    let sqe = simk::with(|k| unsafe { *k.rings[rid].sqe_slot(tail) });
                    if sqe.opcode() != OP_WRITE || simk::with(|k| k.rings[rid].sq_tail()) != tail.wrapping_add(1) {
                        self.bad(&case, "wrong-sq-slot", format!("the submission did not land in slot {} of the granted {gsq}-entry queue (tail {tail:#x})", tail & (gsq - 1)));
                        break;
                    }
                    let _ = talloc::track(|| ring.poll(Some(Duration::ZERO)));
                    let Some(s) = simk::with(|k| k.inflight_by_ud(sqe.user_data())) else {
                        self.bad(&case, "round-trip", "the kernel did not receive the submission".into());
                        break;
                    };
                    simk::with(|k| k.complete(s, Out::Default));
                    let _ = talloc::track(|| ring.poll(Some(Duration::ZERO)));
                    match op.poll(&mut cx) {
                        Seen::Ready(r) if r == format!("n:{}", 5 + n) => {}
                        other => {
                            self.bad(&case, "wrong-cq-slot", format!("operation {n} did not resolve through the granted {gcq}-entry completion queue: {other:?}"));
                            break;
                        }
                    }
                    talloc::track(|| drop(op));
                }
                for (class, msg) in simk::with(|k| std::mem::take(&mut k.violations)) {
                    self.bad(&case, &format!("kernel/{class}"), msg);
                }
                // Drop: back to the baseline.
                talloc::track(|| {
                    drop(unsafe { Box::from_raw(std::ptr::from_ref(fd).cast_mut()) });
                    let _ = ring.poll(Some(Duration::ZERO));
                    drop(sq);
                    drop(ring);
                });
                simk::with(|k| k.sync_closes());
                let fds_after: Vec<i32> = open_fds().into_iter().filter(|f| *f < simk::ISSUED_FD_BASE).collect();
                let fds_b: Vec<i32> = fds_before.iter().copied().filter(|f| *f < simk::ISSUED_FD_BASE).collect();
                if fds_after != fds_b {
                    self.bad(&case, "fd-left-behind", format!("descriptors differ after dropping the Ring: before {fds_b:?} after {fds_after:?}"));
                }
                if mapwatch::mappings().len() != maps_before {
                    self.bad(&case, "mapping-left-behind", "ring mappings left after dropping the Ring".into());
                }
                self.check_unmaps(&case, ev_before);
                talloc::track(|| drop(other));
            }
        }
    }
}

impl C18World {
    /// Every munmap since `ev_before` covers exactly the mapping it hits (a shorter length leaves pages
    /// of the ring mapped, and with them the kernel side of the ring).
    fn check_unmaps(&mut self, case: &Case, ev_before: usize) {
        for e in mapwatch::events()[ev_before..].iter() {
            if let MapEvent::Munmap { exact: false, addr, len, .. } = e {
                self.bad(case, "mapping-left-behind/partial-unmap", format!("munmap({addr:#x}, {len}) does not cover the ring mapping it hits exactly"));
            }
        }
    }
}

impl World for C18World {
    type Action = Action;

    fn enabled(&mut self) -> Vec<(Action, u32)> {
        if !self.picked {
            (0..self.cases.len()).map(|i| (Action::Pick(i), 0)).collect()
        } else {
            Vec::new()
        }
    }

    fn apply(&mut self, a: &Action) {
        let Action::Pick(i) = a;
        let case = self.cases[*i].clone();
        self.picked = true;
        self.case_hash = crate::report::hash_str(&format!("{case:?}"));
        self.run(case);
    }

    fn take_violations(&mut self) -> Vec<Violation> {
        std::mem::take(&mut self.violations)
    }

    fn key(&mut self) -> u64 {
        self.obs ^ self.case_hash
    }

    fn observation(&self) -> u64 {
        self.obs
    }

    fn finish(self) -> Vec<Violation> {
        simk::shutdown();
        let rep = talloc::disarm();
        let mut v = Vec::new();
        if rep.double_frees > 0 {
            v.push(Violation::new("C18", "double-free", "double free"));
        }
        if !rep.leaked.is_empty() && self.picked {
            let total: usize = rep.leaked.iter().map(|b| b.size).sum();
            v.push(Violation::new("C18", "allocation-left-behind", &format!("{} block(s), {total} bytes still allocated at the end", rep.leaked.len())));
        }
        v
    }
}

pub fn cases(quick: bool) -> Vec<Case> {
    let mut confs = Vec::new();
    let sqs: &[(u32, bool)] = &[(0, false), (1, false), (2, false), (3, false), (32, false), (0, true)];
    for &(sq, max_size) in sqs {
        // (256 and 1024 completion entries: from there on the entries alone fill whole pages.)
        for cq in [None, Some(1u32), Some(2 * sq.max(1)), Some(64), Some(256), Some(1024)] {
            for kt in [0u8, 1, 2, 3] {
                // 0: no kernel thread, 1: kernel thread, 2: +affinity, 3: +idle timeout
                for si in [0u8, 1, 2] {
                    // 0: none, 1: single issuer, 2: single issuer + defer taskrun
                    for disabled in [false, true] {
                        for attach in [false, true] {
                            for direct in [None, Some(4u32)] {
                                if quick {
                                    // A pairwise-ish thinning: keep the full product for small sq, thin the rest.
                                    let key = (sq as usize) + cq.unwrap_or(7) as usize + kt as usize * 3 + si as usize * 5 + disabled as usize + attach as usize * 2 + direct.is_some() as usize * 3;
                                    if sq > 2 && key % 3 != 0 {
                                        continue;
                                    }
                                }
                                confs.push(Conf {
                                    sq,
                                    cq,
                                    max_size,
                                    kernel_thread: kt > 0,
                                    affinity: if kt == 2 { Some(1) } else { None },
                                    idle: if kt == 3 { Some(250) } else { None },
                                    single_issuer: si > 0,
                                    defer_taskrun: si == 2,
                                    disabled,
                                    attach,
                                    direct,
                                });
                            }
                        }
                    }
                }
            }
        }
    }
    // Configurations the builder allows but the kernel refuses.
    confs.push(Conf { sq: 2, cq: None, max_size: false, kernel_thread: false, affinity: Some(0), idle: None, single_issuer: false, defer_taskrun: false, disabled: false, attach: false, direct: None });
    confs.push(Conf { sq: 2, cq: None, max_size: false, kernel_thread: false, affinity: None, idle: None, single_issuer: false, defer_taskrun: true, disabled: false, attach: false, direct: None });
    confs.push(Conf { sq: 2, cq: None, max_size: false, kernel_thread: false, affinity: None, idle: None, single_issuer: false, defer_taskrun: false, disabled: false, attach: false, direct: Some(0) });
    let answers_all = [
        Answer::Ok,
        Answer::Grant(8, 16),
        Answer::Grant(1, 2),
        Answer::SetupErr(libc::EINVAL),
        Answer::SetupErr(libc::ENOMEM),
        Answer::SetupErr(libc::EPERM),
        Answer::SetupErr(libc::ENOSYS),
        Answer::MissingFeature(FEAT_NODROP),
        Answer::MissingFeature(FEAT_SUBMIT_STABLE),
        Answer::MissingFeature(FEAT_RW_CUR_POS),
        Answer::MissingFeature(FEAT_SQPOLL_NONFIXED),
        Answer::Unmappable,
        Answer::MmapFails(1),
        Answer::MmapFails(2),
        Answer::MmapFails(3),
        Answer::MadviseFails(1),
        Answer::MadviseFails(2),
        Answer::MadviseFails(3),
        Answer::RegisterFilesFails(libc::ENOMEM),
    ];
    let mut v = Vec::new();
    for (ci, conf) in confs.iter().enumerate() {
        for (ai, a) in answers_all.iter().enumerate() {
            if quick && !matches!(a, Answer::Ok) && (ci + ai) % 4 != 0 {
                continue;
            }
            for c0 in [0u32, 0xffff_fffe] {
                if c0 != 0 && (quick || !matches!(a, Answer::Ok | Answer::Grant(..))) {
                    if !(matches!(a, Answer::Ok) && ci % 5 == 0) {
                        continue;
                    }
                }
                v.push(Case { conf: conf.clone(), answer: *a, c0 });
            }
        }
    }
    v
}
