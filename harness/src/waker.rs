//! Harness wakers with identity and a logical-time wake log.
#![allow(dead_code)]

use std::sync::Arc;
use std::sync::atomic::{AtomicU64, Ordering};
use std::task::{Wake, Waker};

static CLOCK: AtomicU64 = AtomicU64::new(1);

pub fn now() -> u64 {
    CLOCK.load(Ordering::SeqCst)
}

pub fn tick() -> u64 {
    CLOCK.fetch_add(1, Ordering::SeqCst) + 1
}

pub fn reset_clock() {
    CLOCK.store(1, Ordering::SeqCst);
}

pub struct Flag {
    pub id: u32,
    /// Number of times woken.
    pub wakes: AtomicU64,
    /// Logical time of the last wake (0 = never).
    pub last_wake: AtomicU64,
}

impl Wake for Flag {
    fn wake(self: Arc<Self>) {
        self.wake_by_ref();
    }

    fn wake_by_ref(self: &Arc<Self>) {
        self.wakes.fetch_add(1, Ordering::SeqCst);
        self.last_wake.store(tick(), Ordering::SeqCst);
        crate::schx::on_wake(self.id);
    }
}

#[derive(Clone)]
pub struct HWaker {
    pub flag: Arc<Flag>,
    pub waker: Waker,
}

impl HWaker {
    pub fn new(id: u32) -> HWaker {
        crate::talloc::untracked(|| {
            let flag = Arc::new(Flag {
                id,
                wakes: AtomicU64::new(0),
                last_wake: AtomicU64::new(0),
            });
            HWaker {
                waker: Waker::from(flag.clone()),
                flag,
            }
        })
    }

    pub fn wakes(&self) -> u64 {
        self.flag.wakes.load(Ordering::SeqCst)
    }

    pub fn last_wake(&self) -> u64 {
        self.flag.last_wake.load(Ordering::SeqCst)
    }
}
