//! Per-property harness definitions.
#![allow(dead_code)]

use serde_json::{Value, json};

use crate::abi::*;
use crate::ops::Kind;
use crate::opsworld::{Cfg, OpsWorld};
use crate::seqx::{self, Bounds, ExecResult, Stats};

/// A harness: a world family plus its bounds.
pub struct Harness {
    pub name: String,
    pub bounds: Bounds,
    pub describe: Value,
    pub run: Box<dyn Fn(&Bounds) -> Stats>,
    pub replay: Box<dyn Fn(&[usize]) -> ExecResult>,
}

pub fn ops_harness(name: &str, prop: &'static str, cfg: Cfg, bounds: Bounds) -> Harness {
    let c1 = cfg.clone();
    let c2 = cfg.clone();
    Harness {
        name: name.to_string(),
        describe: json!({
            "engine": "seqx",
            "world": "OpsWorld",
            "sq": cfg.sq, "cq": cfg.cq, "c0_sq": cfg.c0_sq, "c0_cq": cfg.c0_cq,
            "kinds": cfg.kinds.iter().map(|k| format!("{k:?}")).collect::<Vec<_>>(),
            "preset": cfg.preset.iter().map(|k| format!("{k:?}")).collect::<Vec<_>>(),
            "max_ops": cfg.max_ops,
            "faults": cfg.faults, "errors": cfg.errors, "shorts": cfg.shorts,
            "allow_drop": cfg.allow_drop, "allow_fresh_waker": cfg.allow_fresh,
            "cancel_may_lose": cfg.allow_cancel_lose,
            "raw_cqes": cfg.raw_cqes.len(), "canary": cfg.canary,
            "depth": bounds.depth, "deviations": bounds.dev, "d_all": bounds.d_all, "merge": bounds.merge,
        }),
        bounds,
        run: Box::new(move |b| seqx::explore(&|| OpsWorld::new(c1.clone()), prop, b)),
        replay: Box::new(move |choices| seqx::exec(&|| OpsWorld::new(c2.clone()), prop, choices)),
    }
}

pub fn bounds(depth: usize, dev: usize, d_all: usize) -> Bounds {
    let dev = dev as u32;
    Bounds { depth, dev, d_all, merge: true, shard: (0, 1), cap_s: 0 }
}

pub fn harnesses(prop: &str, tier: &str) -> Vec<Harness> {
    let quick = tier == "quick";
    match prop {
        "C01" => c01(quick),
        "C02" => c02(quick),
        "C03" => c03(quick),
        "C04" => c04(quick),
        "C05" => c05(quick),
        "C06" => c06(quick),
        "C09" => c09(quick),
        _ => Vec::new(),
    }
}

fn c02(quick: bool) -> Vec<Harness> {
    let mut v = Vec::new();
    let d = |q: usize, t: usize| if quick { q } else { t };
    let mut cfg = Cfg::base("C02");
    cfg.kinds = vec![Kind::ReadVec, Kind::WriteVec];
    cfg.max_ops = 2;
    v.push(ops_harness("single-pair", "C02", cfg, bounds(d(8, 10), d(2, 3), 4)));

    let mut cfg = Cfg::base("C02");
    cfg.preset = vec![Kind::MultishotRead];
    cfg.kinds = vec![Kind::ReadVec];
    cfg.max_ops = 2;
    cfg.max_items = 3;
    cfg.pool = (4, 8);
    v.push(ops_harness("multishot+single", "C02", cfg, bounds(d(9, 11), d(2, 3), 4)));

    let mut cfg = Cfg::base("C02");
    cfg.preset = vec![Kind::SendZc];
    cfg.kinds = vec![Kind::WriteVec];
    cfg.max_ops = 2;
    v.push(ops_harness("zerocopy+single", "C02", cfg, bounds(d(8, 10), d(2, 3), 4)));

    let mut cfg = Cfg::base("C02");
    cfg.preset = vec![Kind::MultishotAccept, Kind::Accept];
    cfg.kinds = vec![];
    cfg.max_ops = 2;
    v.push(ops_harness("descriptor-streams", "C02", cfg, bounds(d(8, 10), d(2, 3), 4)));

    let mut cfg = Cfg::base("C02");
    cfg.preset = vec![Kind::MultishotRecv, Kind::MultishotRead];
    cfg.kinds = vec![];
    cfg.max_ops = 2;
    cfg.pool = (4, 4);
    v.push(ops_harness("two-multishot", "C02", cfg, bounds(d(9, 11), d(2, 3), 4)));

    let mut cfg = Cfg::base("C02");
    cfg.preset = vec![Kind::ReadVec, Kind::RecvFrom, Kind::WriteVectored2];
    cfg.kinds = vec![];
    cfg.max_ops = 3;
    cfg.errors = false;
    v.push(ops_harness("three-singles", "C02", cfg, bounds(d(9, 11), d(2, 3), 4)));
    v
}

const WRAP_C0: &[u32] = &[0, 1, 0x7fff_ffff, 0x8000_0000, 0xffff_fffc, 0xffff_fffe, 0xffff_ffff];

fn c05(quick: bool) -> Vec<Harness> {
    let mut v = Vec::new();
    let d = |q: usize, t: usize| if quick { q } else { t };
    let raw = vec![
        (0u64, 0i32, 0u32),
        (1, 0, 0),
        (2, -libc::ENOENT, 0),
        (2, -libc::EALREADY, 0),
        (2, -libc::EINVAL, 0),
        (3, -libc::EBADF, 0),
        (0xdead_beef_0000, 5, CQE_F_SKIP),
    ];
    for &c0 in WRAP_C0 {
        for cq in [2u32, 4] {
            if quick && cq == 4 && !(c0 == 0 || c0 == 0xffff_fffe) {
                continue;
            }
            let mut cfg = Cfg::base("C05");
            cfg.sq = 2;
            cfg.cq = Some(cq);
            cfg.c0_cq = c0;
            cfg.preset = vec![Kind::ReadVec, Kind::MultishotRead];
            cfg.kinds = vec![];
            cfg.max_ops = 2;
            cfg.max_items = 3;
            cfg.pool = (4, 4);
            cfg.raw_cqes = raw.clone();
            cfg.canary = true;
            cfg.errors = false;
            cfg.shorts = false;
            cfg.allow_fresh = false;
            cfg.report = vec!["C05"];
            v.push(ops_harness(&format!("cq{cq}-c0={c0:#x}"), "C05", cfg, bounds(d(8, 10), d(3, 4), 3)));
        }
    }
    v
}

fn c03(quick: bool) -> Vec<Harness> {
    let mut v = Vec::new();
    let d = |q: usize, t: usize| if quick { q } else { t };
    for sq in [1u32, 2, 4] {
        let mut cfg = Cfg::base("C03");
        cfg.sq = sq;
        cfg.kinds = vec![Kind::ReadVec, Kind::MultishotRead];
        cfg.max_ops = if sq == 1 { 3 } else { 3 };
        cfg.allow_drop = true;
        cfg.allow_fresh = true;
        cfg.errors = false;
        cfg.shorts = false;
        cfg.faults = true;
        cfg.costs.spurious_poll = 1;
        cfg.costs.drop_op = 1;
        cfg.costs.fresh_waker = 1;
        cfg.report = vec!["C03"];
        v.push(ops_harness(&format!("sq{sq}"), "C03", cfg, bounds(d(9, 11), d(3, 4), 4)));
    }
    v
}

fn c04(quick: bool) -> Vec<Harness> {
    let mut v = Vec::new();
    let d = |q: usize, t: usize| if quick { q } else { t };
    for sq in [1u32, 2, 4] {
        for &c0 in WRAP_C0 {
            if quick && sq == 4 && !(c0 == 0 || c0 == 0xffff_fffe) {
                continue;
            }
            let mut cfg = Cfg::base("C04");
            cfg.sq = sq;
            cfg.c0_sq = c0;
            cfg.kinds = vec![Kind::WriteVec];
            cfg.max_ops = (2 * sq as usize + 2).min(6);
            cfg.errors = false;
            cfg.shorts = false;
            cfg.allow_fresh = false;
            cfg.report = vec!["C04"];
            v.push(ops_harness(&format!("sq{sq}-c0={c0:#x}"), "C04", cfg, bounds(d(9, 12), d(2, 3), 3)));
        }
    }
    v
}

fn c09(quick: bool) -> Vec<Harness> {
    let mut v = Vec::new();
    let d = |q: usize, t: usize| if quick { q } else { t };
    use Kind::*;
    let kinds = [
        ReadVec, ReadVecPrefilled, WriteVec, WriteStatic, ReadVectored2, WriteVectored2, WriteVectoredTuple, Recv,
        RecvVectored, RecvFrom, RecvFromVectored, Send, SendZc, SendTo, SendToZc, SendVectored, SendVectoredZc,
        ReadPool, RecvPool, MultishotRead, MultishotRecv, Accept, AcceptNoAddr, MultishotAccept, OpenFile, Socket,
        Connect, Bind, LocalAddr, SockOpt, SetSockOpt, Statx, CreateDir, Rename, RemoveFile, Fsync, Truncate, Shutdown,
        Pipe, WaitId, ReadLimited, OpenDirect, SocketDirect, PipeDirect, ToDirect,
    ];
    for k in kinds {
        let mut cfg = Cfg::base("C09");
        cfg.sq = 2;
        cfg.preset = vec![k];
        cfg.kinds = vec![];
        cfg.max_ops = 1;
        cfg.faults = true;
        cfg.errors = true;
        cfg.shorts = true;
        cfg.allow_fresh = false;
        cfg.costs.outcome = 0;
        cfg.costs.spurious_poll = 1;
        cfg.max_items = 2;
        if k.needs_direct_table() {
            cfg.direct_table = Some(4);
        }
        cfg.report = vec!["C09"];
        v.push(ops_harness(&format!("{k:?}"), "C09", cfg, bounds(d(8, 10), d(1, 2), 4)));
    }
    v
}

fn drop_cfg(prop: &'static str, preset: Vec<Kind>) -> Cfg {
    let mut cfg = Cfg::base(prop);
    cfg.sq = 2;
    cfg.preset = preset;
    cfg.kinds = vec![];
    cfg.max_ops = cfg.preset.len();
    cfg.faults = true;
    cfg.errors = false;
    cfg.shorts = false;
    cfg.allow_drop = true;
    cfg.allow_fresh = false;
    cfg.allow_cancel_lose = true;
    cfg.costs.drop_op = 0;
    cfg.costs.outcome = 1;
    cfg.costs.cancel_lose = 0;
    cfg.max_items = 2;
    if cfg.preset.iter().any(|k| k.needs_direct_table()) {
        cfg.direct_table = Some(4);
    }
    cfg
}

fn c06(quick: bool) -> Vec<Harness> {
    let mut v = Vec::new();
    let d = |q: usize, t: usize| if quick { q } else { t };
    use Kind::*;
    let kinds = [ReadVec, WriteVec, ReadVectored2, RecvFrom, SendZc, SendVectoredZc, MultishotRead, MultishotAccept, Statx, Connect, Rename];
    for k in kinds {
        let mut cfg = drop_cfg("C06", vec![k]);
        cfg.report = vec!["C06"];
        v.push(ops_harness(&format!("{k:?}"), "C06", cfg, bounds(d(7, 9), d(2, 3), 4)));
    }
    for (a, b) in [(ReadVec, SendZc), (ReadVec, WriteVec), (MultishotRead, ReadVec)] {
        for sq in [1u32, 2] {
            let mut cfg = drop_cfg("C06", vec![a, b]);
            cfg.sq = sq;
            cfg.report = vec!["C06"];
            v.push(ops_harness(&format!("{a:?}+{b:?}-sq{sq}"), "C06", cfg, bounds(d(7, 9), d(2, 3), 4)));
        }
    }
    v
}

fn c01(quick: bool) -> Vec<Harness> {
    let mut v = Vec::new();
    let d = |q: usize, t: usize| if quick { q } else { t };
    use Kind::*;
    let kinds = [
        ReadVec, ReadVecPrefilled, WriteVec, WriteStatic, WriteString, WriteBoxed, WriteArc, ReadVectored2, WriteVectored2,
        WriteVectoredTuple, Recv, RecvVectored, RecvFrom, RecvFromVectored, Send, SendZc, SendTo, SendToZc, SendVectored,
        SendVectoredZc, ReadPool, RecvPool, MultishotRead, MultishotRecv, Accept, AcceptNoAddr, MultishotAccept, OpenFile,
        Socket, Connect, Bind, LocalAddr, SockOpt, SetSockOpt, Statx, CreateDir, Rename, RemoveFile, Pipe, ToDirect, WaitId,
        ReadLimited, ReadN, WriteAll, WriteAllVectored, SendAll,
    ];
    for k in kinds {
        let mut cfg = drop_cfg("C01", vec![k]);
        cfg.report = vec!["C01"];
        v.push(ops_harness(&format!("{k:?}"), "C01", cfg, bounds(d(6, 8), d(2, 3), 4)));
    }
    for (a, b) in [(ReadVec, SendZc), (RecvFrom, WriteVectored2), (MultishotRead, Accept), (ReadPool, Statx)] {
        let mut cfg = drop_cfg("C01", vec![a, b]);
        cfg.report = vec!["C01"];
        v.push(ops_harness(&format!("{a:?}+{b:?}"), "C01", cfg, bounds(d(7, 9), d(2, 3), 4)));
    }
    v
}

pub const ALL: &[&str] = &["C01", "C02", "C03", "C04", "C05", "C06", "C09"];

pub fn assumptions(prop: &str) -> Vec<String> {
    let mut v = vec![
        "bounded: only histories within the stated alphabets, depth and deviation bounds are covered".to_string(),
        "the simulated kernel (simk) follows the io_uring ABI for the behaviours the oracles rely on".to_string(),
        "histories are those safe Rust callers can produce (futures pinned, not polled after completion)".to_string(),
    ];
    let _ = prop;
    v.push("sequential consistency between scheduling points; weak-memory effects are not modelled".to_string());
    v
}
