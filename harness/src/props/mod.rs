//! Per-property harness definitions.
#![allow(dead_code)]

use serde_json::{Value, json};

use crate::abi::*;
use crate::ops::Kind;
use crate::opsworld::{Cfg, OpsWorld};
use crate::seqx::{self, Bounds, ExecResult, Stats};

/// A harness: a world family plus its bounds.
pub struct Harness {
    pub name: String,
    pub bounds: Bounds,
    pub describe: Value,
    pub run: Box<dyn Fn(&Bounds) -> Stats>,
    pub replay: Box<dyn Fn(&[usize]) -> ExecResult>,
}

/// Wrap a threaded (schx) harness into the common interface.
pub fn th_harness(prop: &'static str, h: crate::thworld::ThHarness) -> Harness {
    use crate::thworld::run_schedule;
    let h = std::rc::Rc::new(h);
    let h1 = h.clone();
    let h2 = h.clone();
    Harness {
        name: h.name.clone(),
        bounds: Bounds { depth: 0, dev: h.bound, d_all: h.free_bound as usize, merge: false, shard: (0, 1), cap_s: h.cap_s, shard_depth: 3 },
        describe: {
            let mut d = h.describe.clone();
            d["free_switch_bound"] = if h.free_bound == 0 { serde_json::json!("unbounded") } else { serde_json::json!(h.free_bound) };
            d["wall_cap_s"] = serde_json::json!(h.cap_s);
            d
        },
        run: Box::new(move |b| {
            let mut stats = Stats::default();
            let mut sx = crate::schx::Stats::default();
            let mut found: Vec<seqx::Found> = Vec::new();
            let mut outcomes = std::collections::HashSet::new();
            let mut states = std::collections::HashSet::new();
            let mut samples: Vec<Vec<String>> = Vec::new();
            let mut run_one = |prefix: &[usize]| {
                let want_trace = samples.len() < 2;
                let r = run_schedule(&h1, prop, prefix, want_trace);
                outcomes.insert(r.outcome);
                states.insert(crate::report::hash_str(&format!("{:?}", r.exec.choices)));
                if want_trace && r.exec.points.len() > 4 {
                    samples.push(r.exec.trace.clone());
                }
                for v in r.violations {
                    if !found.iter().any(|f| f.violation.sig == v.sig && f.violation.prop == v.prop) {
                        let mut hist = vec![format!("schedule choices {:?}", r.exec.choices)];
                        hist.extend(r.exec.deadlocks.iter().map(|d| format!("deadlock: {d}")));
                        found.push(seqx::Found { violation: v, choices: r.exec.choices.clone(), history: hist });
                    }
                }
                r.exec
            };
            crate::schx::explore(b.dev, b.d_all as u32, b.shard, b.cap_s, &mut run_one, &mut sx);
            stats.executions = sx.executions;
            stats.transitions = sx.points;
            stats.max_depth = sx.max_points;
            stats.capped = sx.capped;
            stats.bound_completed = Some(sx.bound_completed);
            stats.too_long = sx.too_long;
            stats.states = states;
            stats.outcomes = outcomes;
            stats.found = found;
            stats.samples = samples;
            stats
        }),
        replay: Box::new(move |choices| {
            let r = run_schedule(&h2, prop, choices, true);
            ExecResult {
                violations: r.violations,
                history: r.exec.trace.clone(),
                enabled: Vec::new(),
                key: 0,
                observation: r.outcome,
                transitions: r.exec.points.len() as u64,
                bad_choice: r.exec.bad_choice,
                end_only: false,
            }
        }),
    }
}

pub fn ops_harness(name: &str, prop: &'static str, cfg: Cfg, bounds: Bounds) -> Harness {
    let c1 = cfg.clone();
    let c2 = cfg.clone();
    Harness {
        name: name.to_string(),
        describe: json!({
            "engine": "seqx",
            "world": "OpsWorld",
            "sq": cfg.sq, "cq": cfg.cq, "c0_sq": cfg.c0_sq, "c0_cq": cfg.c0_cq,
            "kinds": cfg.kinds.iter().map(|k| format!("{k:?}")).collect::<Vec<_>>(),
            "preset": cfg.preset.iter().map(|k| format!("{k:?}")).collect::<Vec<_>>(),
            "max_ops": cfg.max_ops,
            "faults": cfg.faults, "errors": cfg.errors, "shorts": cfg.shorts,
            "allow_drop": cfg.allow_drop, "allow_fresh_waker": cfg.allow_fresh,
            "cancel_may_lose": cfg.allow_cancel_lose, "pool": format!("{}x{}", cfg.pool.0, cfg.pool.1), "pool_tail_shift": cfg.pool_shift, "held_object_letters": cfg.held_letters,
            "raw_cqes": cfg.raw_cqes.len(), "canary": cfg.canary, "zc_error_posts_notification": cfg.zc_error_notif,
            "depth": bounds.depth, "deviations": bounds.dev, "d_all": bounds.d_all, "merge": bounds.merge,
        }),
        bounds,
        run: Box::new(move |b| seqx::explore(&|| OpsWorld::new(c1.clone()), prop, b)),
        replay: Box::new(move |choices| seqx::exec(&|| OpsWorld::new(c2.clone()), prop, choices)),
    }
}

pub fn bounds(depth: usize, dev: usize, d_all: usize) -> Bounds {
    let dev = dev as u32;
    Bounds { depth, dev, d_all, merge: true, shard: (0, 1), cap_s: 0, shard_depth: 3 }
}

pub fn harnesses(prop: &str, tier: &str) -> Vec<Harness> {
    let quick = tier == "quick";
    match prop {
        "C01" => c01(quick),
        "C02" => c02(quick),
        "C03" => c03(quick),
        "C04" => c04(quick),
        "C05" => c05(quick),
        "C06" => c06(quick),
        "C07" => c07(quick),
        "C08" => c08(quick),
        "C09" => c09(quick),
        "C10" => c10(quick),
        "C11" => c11(quick),
        "C12" => c12(quick),
        "C13" => c13(quick),
        "C14" => c14(quick),
        "C15" => c15(quick),
        "C16" => c16(quick),
        "C17" => c17(quick),
        "C18" => c18(quick),
        _ => Vec::new(),
    }
}

fn thops_set(prop: &'static str, quick: bool) -> Vec<Harness> {
    use crate::thworld::{Step, ThOpsCfg, thops};
    // Three threads plus kernel actors: ~100 points per schedule.
    let pb = 2;
    let mut v = Vec::new();
    let mk = |tasks: Vec<(Kind, Vec<Step>, Option<usize>)>, canary: bool, cq: Option<u32>, c0: u32| ThOpsCfg { prop, sq: 4, cq, c0_cq: c0, tasks, canary, ring_polls: 4, pool: (4, 8), ring_drops: false };
    match prop {
        "C02" => {
            v.push(mk(vec![(Kind::MultishotRead, vec![Step::More, Step::More, Step::FinalZero], None), (Kind::ReadVec, vec![Step::Ok], None)], false, None, 0));
            v.push(mk(vec![(Kind::SendZc, vec![Step::Ok, Step::Notif], None), (Kind::WriteVec, vec![Step::Ok], None)], false, None, 0));
        }
        "C05" => {
            v.push(mk(vec![(Kind::ReadVec, vec![Step::Ok], None), (Kind::MultishotRead, vec![Step::More, Step::FinalZero], None)], true, Some(4), 0));
            v.push(mk(vec![(Kind::ReadVec, vec![Step::Ok], None), (Kind::WriteVec, vec![Step::Ok], None)], true, Some(4), 0xffff_fffe));
        }
        "C01" | "C06" => {
            if prop == "C01" {
                // The Ring is dropped on its own thread while the tasks still poll and drop their operations.
                let mut c = mk(vec![(Kind::ReadVec, vec![Step::Ok], None), (Kind::SendZc, vec![Step::Ok, Step::Notif], Some(1))], false, None, 0);
                c.ring_polls = 1;
                c.ring_drops = true;
                v.push(c);
                let mut c = mk(vec![(Kind::MultishotRead, vec![Step::More, Step::FinalZero], Some(2))], false, None, 0);
                c.ring_polls = 1;
                c.ring_drops = true;
                v.push(c);
            }
            v.push(mk(vec![(Kind::ReadVec, vec![Step::Ok], Some(1))], false, None, 0));
            v.push(mk(vec![(Kind::SendZc, vec![Step::Ok, Step::Notif], Some(1))], false, None, 0));
            v.push(mk(vec![(Kind::MultishotRead, vec![Step::More, Step::More, Step::FinalZero], Some(2)), (Kind::ReadVec, vec![Step::Eintr, Step::Ok], None)], false, None, 0));
        }
        _ => {}
    }
    v.into_iter()
        .map(|c| {
            // The scribbling actor is one more alternative at every point.
            let pb = if quick && c.canary { 1 } else { pb };
            let mut h = thops(c, pb);
            // Where no thread can continue any of ~5 alternatives is free under
            // a preemption bound alone; bound those deviations too.
            h.free_bound = if quick { 1 } else { 3 };
            h.cap_s = if quick { 0 } else { 600 };
            th_harness(prop, h)
        })
        .collect()
}

fn c02(quick: bool) -> Vec<Harness> {
    let mut v = thops_set("C02", quick);
    let d = |q: usize, t: usize| if quick { q } else { t };
    let mut cfg = Cfg::base("C02");
    cfg.kinds = vec![Kind::ReadVec, Kind::WriteVec];
    cfg.max_ops = 2;
    v.push(ops_harness("single-pair", "C02", cfg, bounds(d(8, 10), d(2, 3), 4)));

    let mut cfg = Cfg::base("C02");
    cfg.preset = vec![Kind::MultishotRead];
    cfg.kinds = vec![Kind::ReadVec];
    cfg.max_ops = 2;
    cfg.max_items = 3;
    cfg.pool = (4, 8);
    v.push(ops_harness("multishot+single", "C02", cfg.clone(), bounds(d(9, 11), d(2, 3), 4)));
    // The same with interruptions / cancellations by the kernel as the terminating completion: results
    // queued ahead of it are still the stream's.
    cfg.faults = true;
    cfg.errors = false;
    cfg.kinds = vec![];
    cfg.max_ops = 1;
    v.push(ops_harness("multishot-interrupted", "C02", cfg, bounds(d(9, 11), d(2, 3), 4)));

    let mut cfg = Cfg::base("C02");
    cfg.preset = vec![Kind::SendZc];
    cfg.kinds = vec![Kind::WriteVec];
    cfg.max_ops = 2;
    v.push(ops_harness("zerocopy+single", "C02", cfg, bounds(d(8, 10), d(2, 3), 4)));

    let mut cfg = Cfg::base("C02");
    cfg.preset = vec![Kind::MultishotAccept, Kind::Accept];
    cfg.kinds = vec![];
    cfg.max_ops = 2;
    v.push(ops_harness("descriptor-streams", "C02", cfg, bounds(d(8, 10), d(2, 3), 4)));

    let mut cfg = Cfg::base("C02");
    cfg.preset = vec![Kind::MultishotRecv, Kind::MultishotRead];
    cfg.kinds = vec![];
    cfg.max_ops = 2;
    cfg.pool = (4, 4);
    v.push(ops_harness("two-multishot", "C02", cfg, bounds(d(9, 11), d(2, 3), 4)));

    let mut cfg = Cfg::base("C02");
    cfg.preset = vec![Kind::ReadVec, Kind::RecvFrom, Kind::WriteVectored2];
    cfg.kinds = vec![];
    cfg.max_ops = 3;
    cfg.errors = false;
    v.push(ops_harness("three-singles", "C02", cfg, bounds(d(9, 11), d(2, 3), 4)));

    let mut cfg = Cfg::base("C02");
    cfg.preset = vec![Kind::Pollable, Kind::PeerAddr];
    cfg.kinds = vec![];
    cfg.max_ops = 2;
    v.push(ops_harness("readiness-stream+address", "C02", cfg, bounds(d(8, 10), d(2, 3), 4)));

    let mut cfg = Cfg::base("C02");
    cfg.preset = vec![Kind::ReceiveSignals, Kind::ReceiveSignal];
    cfg.kinds = vec![];
    cfg.max_ops = 2;
    v.push(ops_harness("signal-iterator+single", "C02", cfg, bounds(d(9, 11), d(2, 3), 4)));

    let mut cfg = Cfg::base("C02");
    cfg.preset = vec![Kind::RecvFromPool, Kind::RenameExtract, Kind::OpenExtract];
    cfg.kinds = vec![];
    cfg.max_ops = 3;
    cfg.errors = false;
    cfg.pool = (2, 8);
    v.push(ops_harness("pool-recvmsg+extracts", "C02", cfg, bounds(d(9, 11), d(2, 3), 4)));

    let mut cfg = Cfg::base("C02");
    cfg.preset = vec![Kind::SpliceTo, Kind::SendToVectored, Kind::OpenTemp];
    cfg.kinds = vec![];
    cfg.max_ops = 3;
    cfg.errors = false;
    v.push(ops_harness("splice+sendmsg+open", "C02", cfg, bounds(d(9, 11), d(2, 3), 4)));
    {
        // Composite operations: what read_n / recv_n / write_all / send_all resolve with, under every
        // sequence of kernel answers (the C10 world, reporting as C02).
        use crate::c10::{C10World, read_cases, write_cases};
        for (name, cases) in [("composites-write-side", write_cases(true)), ("composites-read-side", read_cases(true))] {
            let n = cases.len();
            let cases = std::rc::Rc::new(cases);
            let (c1, c2) = (cases.clone(), cases.clone());
            let b = Bounds { depth: 16, dev: 0, d_all: 16, merge: false, shard: (0, 1), cap_s: 0, shard_depth: 1 };
            v.push(Harness {
                name: name.to_string(),
                describe: json!({"engine": "seqx", "world": "C10World (reporting as C02)", "cases": n, "answers": "every sequence of accepted/delivered byte counts 0..remaining, or EIO, for each request"}),
                bounds: b,
                run: Box::new(move |b| seqx::explore(&|| C10World::labelled(c1.clone(), "C02"), "C02", b)),
                replay: Box::new(move |choices| seqx::exec(&|| C10World::labelled(c2.clone(), "C02"), "C02", choices)),
            });
        }
    }
    v
}

const WRAP_C0: &[u32] = &[0, 1, 0x7fff_ffff, 0x8000_0000, 0xffff_fffc, 0xffff_fffe, 0xffff_ffff];

fn c05(quick: bool) -> Vec<Harness> {
    let mut v = thops_set("C05", quick);
    let d = |q: usize, t: usize| if quick { q } else { t };
    let raw = vec![
        (0u64, 0i32, 0u32),
        (1, 0, 0),
        (2, -libc::ENOENT, 0),
        (2, -libc::EALREADY, 0),
        (2, -libc::EINVAL, 0),
        (3, -libc::EBADF, 0),
        (0xdead_beef_0000, 5, CQE_F_SKIP),
    ];
    for &c0 in WRAP_C0 {
        // (8: a completion queue that is not twice the submission queue.)
        for cq in [2u32, 4, 8] {
            if quick && cq >= 4 && !(c0 == 0 || c0 == 0xffff_fffe) {
                continue;
            }
            if cq == 8 && c0 != 0xffff_fffe {
                continue;
            }
            let mut cfg = Cfg::base("C05");
            cfg.sq = 2;
            cfg.cq = Some(cq);
            cfg.c0_cq = c0;
            cfg.preset = vec![Kind::ReadVec, Kind::MultishotRead];
            cfg.kinds = vec![];
            cfg.max_ops = 2;
            cfg.max_items = 3;
            cfg.pool = (4, 4);
            cfg.raw_cqes = raw.clone();
            cfg.canary = true;
            cfg.errors = false;
            cfg.shorts = false;
            cfg.allow_fresh = false;
            cfg.report = vec!["C05"];
            v.push(ops_harness(&format!("cq{cq}-c0={c0:#x}"), "C05", cfg, bounds(d(8, 10), d(3, 4), 3)));
        }
    }
    // The Ring's own last drain (when it is dropped) with more completions than the queue holds.
    for (preset, sq, c0) in [(vec![Kind::ReadVec, Kind::WriteVec], 1u32, 0u32), (vec![Kind::ReadVec, Kind::SendZc], 2, 0xffff_fffe), (vec![Kind::MultishotRead, Kind::ReadVec], 2, 0)] {
        let mut cfg = drop_cfg("C05", preset.clone());
        cfg.sq = sq;
        cfg.cq = Some(2);
        cfg.c0_cq = c0;
        cfg.final_drop_ring_first = true;
        cfg.report = vec!["C05"];
        let name = format!("{}-sq{sq}-cq2-c0={c0:#x}-ring-dropped-first", preset.iter().map(|k| format!("{k:?}")).collect::<Vec<_>>().join("+"));
        v.push(ops_harness(&name, "C05", cfg, bounds(d(7, 9), d(2, 3), 4)));
    }
    v
}

fn c03(quick: bool) -> Vec<Harness> {
    let mut v = Vec::new();
    {
        use crate::thworld::{C03Cfg, c03_threads};
        let pb = if quick { 2 } else { 3 };
        for (sq, prefill, kind, repoll, tasks) in [
            (2u32, 0usize, Kind::ReadVec, false, 1usize),
            (2, 0, Kind::ReadVec, true, 1),
            (2, 0, Kind::SendZc, true, 1),
            (1, 1, Kind::ReadVec, false, 1),
            (1, 1, Kind::ReadVec, false, 2),
            (2, 2, Kind::ReadVec, true, 1),
        ] {
            if quick && tasks > 1 {
                continue;
            }
            v.push(th_harness("C03", c03_threads(C03Cfg { sq, prefill, kind, repoll_fresh: repoll, tasks, max_polls: 5, sqpoll: false, poll_none: false }, pb)));
        }
        // With a kernel thread the queue is drained at any moment, also between a failed submission and the registration of the waiter.
        for (sq, prefill) in [(1u32, 1usize), (2, 2)] {
            let mut h = c03_threads(C03Cfg { sq, prefill, kind: Kind::ReadVec, repoll_fresh: false, tasks: 1, max_polls: 4, sqpoll: true, poll_none: false }, pb);
            h.free_bound = if quick { if prefill == 2 { 1 } else { 2 } } else { 0 };
            v.push(th_harness("C03", h));
        }
    }
    {
        use crate::thworld::{C03Cfg, c03_threads};
        // The ring thread polls without a timeout while a task finds the queue full: nothing but the
        // task's own (not yet submitted) operation could ever complete.
        for (sq, prefill, tasks) in [(1u32, 1usize, 1usize), (2, 2, 1), (1, 1, 2)] {
            if quick && tasks > 1 {
                continue;
            }
            v.push(th_harness("C03", c03_threads(C03Cfg { sq, prefill, kind: Kind::ReadVec, repoll_fresh: false, tasks, max_polls: 3, sqpoll: false, poll_none: true }, if quick { 2 } else { 3 })));
        }
    }
    let d = |q: usize, t: usize| if quick { q } else { t };
    for sq in [1u32, 2, 4] {
        let mut cfg = Cfg::base("C03");
        cfg.sq = sq;
        cfg.kinds = vec![Kind::ReadVec, Kind::MultishotRead];
        cfg.max_ops = if sq == 1 { 3 } else { 3 };
        cfg.allow_drop = true;
        cfg.allow_fresh = true;
        cfg.errors = false;
        cfg.shorts = false;
        cfg.faults = true;
        cfg.costs.spurious_poll = 1;
        cfg.costs.drop_op = 1;
        cfg.costs.fresh_waker = 1;
        cfg.report = vec!["C03"];
        v.push(ops_harness(&format!("sq{sq}"), "C03", cfg.clone(), bounds(if sq >= 2 { d(8, 11) } else { d(9, 11) }, d(3, 4), 4)));
        if sq <= 2 {
            // The caller polls without a timeout.
            cfg.blocking_enter = true;
            cfg.kinds = vec![Kind::ReadVec];
            cfg.allow_drop = false;
            v.push(ops_harness(&format!("sq{sq}-poll-without-timeout"), "C03", cfg, bounds(d(8, 10), d(2, 3), 4)));
        }
    }
    {
        // Kernel-thread ring, the thread may sleep: completions and freed queue space still wake.
        let mut cfg = Cfg::base("C03");
        cfg.sq = 1;
        cfg.sqpoll = true;
        cfg.kinds = vec![Kind::ReadVec];
        cfg.max_ops = 3;
        cfg.allow_drop = false;
        cfg.allow_fresh = false;
        cfg.errors = false;
        cfg.shorts = false;
        cfg.faults = false;
        cfg.costs.spurious_poll = 1;
        cfg.report = vec!["C03"];
        v.push(ops_harness("sq1-kernel-thread", "C03", cfg, bounds(d(9, 11), d(2, 3), 4)));
    }
    // Operations that become ready with their *second* completion (zero-copy sends), and streams of
    // descriptors / readiness events, next to a plain operation.
    for (name, kinds, zc_notif) in [("two-step", vec![Kind::SendZc, Kind::ReadVec], true), ("two-step-error-without-notif", vec![Kind::SendVectoredZc], false), ("streams", vec![Kind::MultishotAccept, Kind::Pollable], true)] {
        let mut cfg = Cfg::base("C03");
        cfg.sq = 2;
        cfg.kinds = kinds;
        cfg.max_ops = 2;
        cfg.allow_drop = true;
        cfg.allow_fresh = true;
        cfg.errors = true;
        cfg.shorts = false;
        cfg.faults = true;
        cfg.zc_error_notif = zc_notif;
        cfg.costs.spurious_poll = 1;
        cfg.costs.drop_op = 1;
        cfg.costs.fresh_waker = 1;
        cfg.report = vec!["C03"];
        v.push(ops_harness(name, "C03", cfg, bounds(if name == "streams" { d(8, 11) } else { d(9, 11) }, d(3, 4), 4)));
    }
    v
}

fn c04(quick: bool) -> Vec<Harness> {
    let mut v = Vec::new();
    {
        use crate::thworld::{C04Cfg, c04_threads};
        let pb = if quick { 2 } else { 3 };
        for (sq, c0, submitters, per, sqpoll, single_issuer) in [
            (1u32, 0u32, 2usize, 1usize, false, false),
            (1, 0xffff_ffff, 2, 1, false, false),
            (2, 0, 2, 2, false, false),
            (2, 0xffff_fffe, 3, 1, false, false),
            (1, 0, 2, 1, true, false),
            (2, 0xffff_ffff, 2, 2, true, false),
            // Single issuer: one thread enters the kernel, every thread still queues submissions.
            (2, 0, 2, 1, false, true),
            (4, 0xffff_fffe, 2, 2, false, true),
        ] {
            v.push(th_harness("C04", c04_threads(C04Cfg { sq, c0, submitters, per, sqpoll, polls: 2, single_issuer }, pb)));
        }
    }
    let d = |q: usize, t: usize| if quick { q } else { t };
    // (3: a size the kernel rounds up; a10 must work with what was granted.)
    for sq in [1u32, 2, 4, 3] {
        for &c0 in WRAP_C0 {
            if quick && sq >= 3 && !(c0 == 0 || c0 == 0xffff_fffe) {
                continue;
            }
            let mut cfg = Cfg::base("C04");
            cfg.sq = sq;
            cfg.c0_sq = c0;
            cfg.kinds = vec![Kind::WriteVec];
            cfg.max_ops = (2 * sq as usize + 2).min(6);
            cfg.errors = false;
            cfg.shorts = false;
            cfg.allow_fresh = false;
            cfg.report = vec!["C04"];
            v.push(ops_harness(&format!("sq{sq}-c0={c0:#x}"), "C04", cfg, bounds(d(9, 12), d(2, 3), 3)));
        }
    }
    for (sq, c0) in [(1u32, 0u32), (2, 0xffff_ffff)] {
        // A kernel-thread ring whose thread may go to sleep: what is accepted must still reach the kernel
        // (a10 has to wake the thread when it next enters).
        let mut cfg = Cfg::base("C04");
        cfg.sq = sq;
        cfg.c0_sq = c0;
        cfg.sqpoll = true;
        cfg.kinds = vec![Kind::WriteVec];
        cfg.max_ops = 3;
        cfg.errors = false;
        cfg.shorts = false;
        cfg.allow_fresh = false;
        cfg.report = vec!["C04"];
        v.push(ops_harness(&format!("sq{sq}-kernel-thread-c0={c0:#x}"), "C04", cfg, bounds(d(9, 11), d(2, 3), 3)));
    }
    for c0 in [0u32, 0xffff_fffe] {
        // "Every ring size": the largest one the kernel grants (IORING_SETUP_CLAMP).
        let mut cfg = Cfg::base("C04");
        cfg.clamp = true;
        cfg.c0_sq = c0;
        cfg.kinds = vec![Kind::WriteVec];
        cfg.max_ops = 3;
        cfg.errors = false;
        cfg.shorts = false;
        cfg.allow_fresh = false;
        cfg.report = vec!["C04"];
        v.push(ops_harness(&format!("clamped-max-size-c0={c0:#x}"), "C04", cfg, bounds(d(8, 10), d(2, 3), 3)));
    }
    v
}

fn c07(quick: bool) -> Vec<Harness> {
    let mut v = Vec::new();
    let d = |q: usize, t: usize| if quick { q } else { t };
    use Kind::*;
    for k in [OpenFile, OpenDirect, Socket, SocketDirect, Accept, AcceptNoAddr, MultishotAccept, Pipe, PipeDirect, ToDirect, OpenTemp, OpenTempDirect] {
        for sq in [1u32, 4] {
            let mut cfg = drop_cfg("C07", vec![k]);
            cfg.sq = sq;
            cfg.direct_table = Some(4);
            cfg.held_letters = true;
            cfg.faults = false;
            cfg.errors = true;
            cfg.costs.outcome = 1;
            cfg.max_ops = 1;
            cfg.report = vec!["C07"];
            v.push(ops_harness(&format!("{k:?}-sq{sq}"), "C07", cfg, bounds(d(8, 13), d(2, 4), 4)));
        }
    }
    // Queue full at the moment the descriptor is dropped: a second operation occupies the only slot.
    for a in [OpenFile, OpenDirect, PipeDirect, AcceptNoAddr] {
        let mut cfg = drop_cfg("C07", vec![a, ReadVec]);
        cfg.sq = 1;
        cfg.direct_table = Some(4);
        cfg.held_letters = true;
        cfg.faults = false;
        cfg.errors = false;
        cfg.allow_cancel_lose = false;
        cfg.report = vec!["C07"];
        v.push(ops_harness(&format!("{a:?}+ReadVec-sq1-full"), "C07", cfg.clone(), bounds(d(9, 13), d(2, 4), 4)));
        if a == OpenFile {
            // The synchronous close(2) is interrupted (EINTR): on Linux the descriptor is closed all the same.
            cfg.close_eintr = true;
            v.push(ops_harness(&format!("{a:?}+ReadVec-sq1-full-close-eintr"), "C07", cfg, bounds(d(9, 13), d(2, 4), 4)));
        }
    }
    // The listening descriptor itself is direct: what it accepts must be direct too.
    for k in [Accept, AcceptNoAddr, MultishotAccept, ToFd] {
        for sq in [1u32, 4] {
            let mut cfg = drop_cfg("C07", vec![k]);
            cfg.sq = sq;
            cfg.direct_table = Some(4);
            cfg.fd_direct = true;
            cfg.held_letters = true;
            cfg.faults = false;
            cfg.errors = true;
            cfg.costs.outcome = 1;
            cfg.max_ops = 1;
            cfg.report = vec!["C07"];
            v.push(ops_harness(&format!("{k:?}-on-direct-sq{sq}"), "C07", cfg, bounds(d(8, 13), d(2, 4), 4)));
        }
    }
    // Duplicates made with try_clone are descriptors of their own.
    for sq in [1u32, 4] {
        let mut cfg = drop_cfg("C07", vec![OpenFile]);
        cfg.sq = sq;
        cfg.held_letters = true;
        cfg.clone_held = true;
        cfg.faults = false;
        cfg.errors = false;
        cfg.allow_cancel_lose = false;
        cfg.report = vec!["C07"];
        v.push(ops_harness(&format!("OpenFile-try_clone-sq{sq}"), "C07", cfg, bounds(d(9, 12), d(2, 3), 4)));
    }
    for (a, b) in [(OpenFile, OpenDirect), (MultishotAccept, Socket), (Pipe, ToDirect)] {
        let mut cfg = drop_cfg("C07", vec![a, b]);
        cfg.sq = 2;
        cfg.direct_table = Some(4);
        cfg.held_letters = true;
        cfg.faults = false;
        cfg.report = vec!["C07"];
        v.push(ops_harness(&format!("{a:?}+{b:?}"), "C07", cfg, bounds(d(8, 13), d(2, 4), 4)));
    }
    {
        let cases = crate::c07conv::cases();
        let n = cases.len();
        v.push(crate::casex::case_harness("signals-to-direct-descriptor", "C07", cases, crate::c07conv::run, json!({"engine": "casex over simk", "cases": n, "alphabet": "Signals::to_direct_descriptor: kernel answer {success, ENOMEM} x Ring::poll calls before the result is dropped {0,1,2} x queue size {1,4}, plus the conversion dropped in flight; the signalfd(2) descriptor is tracked through the close interposer"})));
    }
    v
}

fn c08(quick: bool) -> Vec<Harness> {
    let mut v = Vec::new();
    {
        use crate::thworld::{C08Cfg, c08_threads};
        let pb = if quick { 2 } else { 3 };
        for (pool, releasers, shift, reader) in [
            (2u16, 2usize, 0u16, false),
            (4, 3, 0, false),
            (2, 2, 0u16.wrapping_sub(3), false),
            (4, 2, 0, true),
            (4, 3, 0u16.wrapping_sub(5), true),
            // Every buffer handed out: the kernel's head equals the tail, and the first release
            // writes ring entry 0 (which shares its last two bytes with the tail).
            (2, 2, 0, true),
            (2, 2, 0u16.wrapping_sub(4), true),
            (1, 1, 0, true),
        ] {
            if pool == 4 && releasers == 3 && !reader {
                // Also with a buffer size that is not a power of two.
                v.push(th_harness("C08", c08_threads(C08Cfg { pool, buf_size: 6, releasers, shift, reader }, pb)));
            }
            if quick && releasers == 3 && reader {
                continue;
            }
            v.push(th_harness("C08", c08_threads(C08Cfg { pool, buf_size: 8, releasers, shift, reader }, pb)));
        }
    }
    let d = |q: usize, t: usize| if quick { q } else { t };
    use Kind::*;
    // (Buffer sizes that are not powers of two: the buffer id is an address difference divided by the size.)
    for (psize, bsize) in [(1u16, 8u32), (2, 1), (2, 8), (4, 8), (4, 3), (2, 6)] {
        for shift in [0u16, 0u16.wrapping_sub(2 * psize), 0u16.wrapping_sub(psize)] {
            if quick && psize == 4 && shift != 0 {
                continue;
            }
            for preset in [vec![MultishotRead], vec![ReadPool, RecvPool], vec![MultishotRecv, ReadPool], vec![RecvFromPool, ReadPool]] {
                if quick && bsize == 1 && preset.len() == 2 && preset[0] == ReadPool {
                    continue;
                }
                let mut cfg = drop_cfg("C08", preset.clone());
                cfg.sq = 4;
                cfg.pool = (psize, bsize);
                cfg.pool_shift = shift;
                cfg.held_letters = true;
                cfg.faults = false;
                cfg.errors = true;
                cfg.shorts = true;
                cfg.costs.outcome = 1;
                cfg.max_items = 3;
                cfg.allow_cancel_lose = false;
                cfg.report = vec!["C08"];
                let name = format!("pool{psize}x{bsize}-shift{shift}-{}", preset.iter().map(|k| format!("{k:?}")).collect::<Vec<_>>().join("+"));
                v.push(ops_harness(&name, "C08", cfg, bounds(d(8, 10), d(2, 3), 4)));
            }
        }
    }
    // A buffer that holds data is passed to later reads (five operation kinds); in the
    // thorough tier its neighbour is owned by another ReadBuf at that time.
    for (psize, bsize, preset, depth) in [(2u16, 8u32, vec![ReadPool], d(12, 13)), (4, 4, vec![ReadPool], d(12, 13)), (2, 8, vec![ReadPool, RecvPool], 15)] {
        if quick && preset.len() > 1 {
            continue;
        }
        let mut cfg = drop_cfg("C08", preset.clone());
        cfg.sq = 4;
        cfg.pool = (psize, bsize);
        cfg.held_letters = false;
        cfg.reread_held = true;
        cfg.edit_held = true;
        cfg.held_letters = psize == 4;
        cfg.allow_drop = false;
        cfg.faults = false;
        cfg.errors = false;
        cfg.shorts = true;
        cfg.costs.outcome = 1;
        cfg.allow_cancel_lose = false;
        cfg.allow_fresh = false;
        cfg.report = vec!["C08"];
        v.push(ops_harness(&format!("pool{psize}x{bsize}-reread{}", preset.len()), "C08", cfg, bounds(depth, d(2, 3), 4)));
    }
    {
        // Life cycle of the pool, its handles and its ReadBufs (explicit release, re-use, handles dropped first).
        use crate::c08life::{LifeWorld, cases};
        let cs = std::rc::Rc::new(cases(quick));
        let n = cs.len();
        let (c1, c2) = (cs.clone(), cs.clone());
        let depth = if quick { 7 } else { 9 };
        let b = Bounds { depth: depth + 1, dev: 0, d_all: 4, merge: true, shard: (0, 1), cap_s: 0, shard_depth: 2 };
        v.push(Harness {
            name: "pool-life-cycle".to_string(),
            describe: json!({"engine": "seqx", "world": "LifeWorld", "cases": n, "letters": "get a ReadBuf, read into it (2 bytes / 0 bytes; fresh, released or holding data), release() explicitly, clear(), drop it, drop the pool handle; two ReadBufs", "sequence_length": depth, "state_merging": "by model state and ring contents"}),
            bounds: b,
            run: Box::new(move |b| seqx::explore(&|| LifeWorld::new(c1.clone()), "C08", b)),
            replay: Box::new(move |choices| seqx::exec(&|| LifeWorld::new(c2.clone()), "C08", choices)),
        });
    }
    v
}

fn c10(quick: bool) -> Vec<Harness> {
    use crate::c10::{C10World, read_cases, write_cases};
    let mut v = Vec::new();
    for (name, cases) in [("write-side", write_cases(quick)), ("read-side", read_cases(quick))] {
        let n = cases.len();
        let cases = std::rc::Rc::new(cases);
        let (c1, c2) = (cases.clone(), cases.clone());
        let b = Bounds { depth: 16, dev: 0, d_all: 16, merge: false, shard: (0, 1), cap_s: 0, shard_depth: 1 };
        v.push(Harness {
            name: name.to_string(),
            describe: json!({"engine": "seqx", "world": "C10World", "cases": n, "answers": "every sequence of accepted/delivered byte counts 0..remaining for each request", "sample_case": format!("{:?}", cases[cases.len() / 2])}),
            bounds: b,
            run: Box::new(move |b| seqx::explore(&|| C10World::new(c1.clone()), "C10", b)),
            replay: Box::new(move |choices| seqx::exec(&|| C10World::new(c2.clone()), "C10", choices)),
        });
    }
    v
}

fn c12(quick: bool) -> Vec<Harness> {
    use crate::c12::{C12World, scenarios};
    let sc = scenarios(quick);
    let n = sc.len();
    let sc = std::rc::Rc::new(sc);
    let (c1, c2) = (sc.clone(), sc.clone());
    let b = Bounds { depth: 10, dev: 0, d_all: 10, merge: false, shard: (0, 1), cap_s: 0, shard_depth: 1 };
    let mut th = Vec::new();
    {
        // The Ring dropped on its own thread while other threads poll and drop operations on it.
        use crate::thworld::{Step, ThOpsCfg, thops};
        for tasks in [
            vec![(Kind::ReadVec, vec![Step::Ok], None), (Kind::SendZc, vec![Step::Ok, Step::Notif], Some(1))],
            vec![(Kind::MultishotRead, vec![Step::More, Step::FinalZero], Some(2)), (Kind::WriteVec, vec![Step::Ok], None)],
        ] {
            let c = ThOpsCfg { prop: "C12", sq: 4, cq: None, c0_cq: 0, tasks, canary: false, ring_polls: 1, pool: (4, 8), ring_drops: true };
            let mut h = thops(c, if quick { 1 } else { 2 });
            h.free_bound = if quick { 1 } else { 3 };
            h.cap_s = if quick { 0 } else { 600 };
            th.push(th_harness("C12", h));
        }
    }
    {
        // The Ring dropped on its own thread while another thread drops / releases / wakes / first-polls
        // an object that shares its submission queue.
        use crate::thworld::{C12Act::*, C12ThCfg, c12_threads};
        let pb = if quick { 2 } else { 3 };
        let mut sets: Vec<(Vec<crate::thworld::C12Act>, usize, u32, bool)> = vec![
            (vec![DropFd], 0, 4, false),
            (vec![DropFd], 1, 1, false),
            (vec![DropDirectFd], 0, 4, false),
            (vec![ReleaseBuf], 0, 4, false),
            (vec![DropFreshBufAndPool], 0, 4, false),
            (vec![Wake], 0, 4, false),
            (vec![DropSqClone], 0, 4, false),
            (vec![DropInflight(Kind::ReadVec)], 0, 4, false),
            (vec![DropInflight(Kind::MultishotRead)], 0, 4, false),
            (vec![DropQueued(Kind::WriteVec)], 0, 4, false),
            (vec![FirstPoll(Kind::ReadVec)], 0, 4, false),
            (vec![DropFd, DropInflight(Kind::ReadVec)], 0, 2, false),
            (vec![DropFd], 0, 4, true),
            (vec![DropInflight(Kind::ReadVec)], 0, 4, true),
        ];
        if !quick {
            sets.extend([
                (vec![DropDirectFd], 1, 1, false),
                (vec![DropInflight(Kind::SendZc)], 0, 4, false),
                (vec![DropInflight(Kind::SendZc)], 1, 4, false),
                (vec![DropFd, ReleaseBuf], 0, 4, false),
                (vec![Wake, DropInflight(Kind::ReadVec)], 1, 2, false),
                (vec![DropDirectFd, DropQueued(Kind::WriteVec)], 0, 2, false),
                (vec![Wake], 0, 4, true),
                (vec![ReleaseBuf], 0, 4, true),
                (vec![FirstPoll(Kind::ReadVec)], 1, 1, false),
                (vec![DropQueued(Kind::WriteVec), DropInflight(Kind::MultishotRead)], 0, 2, false),
            ]);
        }
        for (acts, ring_polls, sq, sqpoll) in sets {
            let mut h = c12_threads(C12ThCfg { acts: acts.clone(), ring_polls, sq, sqpoll, prop: "C12", idle_at_start: false }, pb);
            if sqpoll && acts.len() == 1 {
                let mut h2 = c12_threads(C12ThCfg { acts, ring_polls, sq, sqpoll, prop: "C12", idle_at_start: true }, pb);
                h2.cap_s = if quick { 0 } else { 150 };
                th.push(th_harness("C12", h2));
            }
            h.cap_s = if quick { 0 } else { 150 };
            th.push(th_harness("C12", h));
        }
    }
    let mut out = th;
    out.push(Harness {
        name: "drop-permutations".to_string(),
        describe: json!({"engine": "seqx", "world": "C12World", "scenarios": n, "drop_orders": "every permutation of the scenario's objects that safe Rust admits", "sample_scenario": format!("{:?}", sc[sc.len() / 3])}),
        bounds: b,
        run: Box::new(move |b| seqx::explore(&|| C12World::new(c1.clone()), "C12", b)),
        replay: Box::new(move |choices| seqx::exec(&|| C12World::new(c2.clone()), "C12", choices)),
    });
    out
}

fn c18(quick: bool) -> Vec<Harness> {
    use crate::c18::{C18World, cases};
    let cs = cases(quick);
    let n = cs.len();
    let cs = std::rc::Rc::new(cs);
    let (c1, c2) = (cs.clone(), cs.clone());
    let b = Bounds { depth: 1, dev: 0, d_all: 1, merge: false, shard: (0, 1), cap_s: 0, shard_depth: 1 };
    vec![Harness {
        name: "config-x-kernel-answer".to_string(),
        describe: json!({"engine": "seqx", "world": "C18World", "cases": n, "product": "queue sizes x completion size x clamp x kernel thread(affinity, idle) x single issuer x defer taskrun x disabled x attach x direct descriptors, crossed with kernel answers (ok, other granted sizes, 4 setup errors, 4 missing feature bits, unmappable fd, k-th mmap fails, k-th madvise fails, file table registration fails) and initial counter values", "sample_case": format!("{:?}", cs[cs.len() / 2])}),
        bounds: b,
        run: Box::new(move |b| seqx::explore(&|| C18World::new(c1.clone()), "C18", b)),
        replay: Box::new(move |choices| seqx::exec(&|| C18World::new(c2.clone()), "C18", choices)),
    }]
}

fn c15(quick: bool) -> Vec<Harness> {
    use crate::c15::{C15World, cases};
    let cs = cases(quick);
    let n = cs.len();
    let cs = std::rc::Rc::new(cs);
    let (c1, c2) = (cs.clone(), cs.clone());
    let depth = if quick { 3 } else { 4 };
    let b = Bounds { depth: depth + 1, dev: 0, d_all: 2, merge: true, shard: (0, 1), cap_s: 0, shard_depth: 2 };
    vec![Harness {
        name: "edit-sequences".to_string(),
        describe: json!({"engine": "seqx", "world": "C15World", "cases": n, "edit_sequence_length": depth, "edits": "truncate, clear, remove with every range form and bounds 0..cap+1, usize::MAX-1, usize::MAX, set_len, extend_from_slice 0..cap+1, spare_capacity_mut+set_len, a second kernel read, as_mut_slice writes; then release", "state_merging": "by (case, contents)"}),
        bounds: b,
        run: Box::new(move |b| seqx::explore(&|| C15World::new(c1.clone()), "C15", b)),
        replay: Box::new(move |choices| seqx::exec(&|| C15World::new(c2.clone()), "C15", choices)),
    }]
}

fn c14(quick: bool) -> Vec<Harness> {
    let cases = crate::c14::cases(quick);
    let n = cases.len();
    let mut extra = Vec::new();
    {
        // The crate-private wrappers (SkipBuf behind write_all / send_all, ReadNBuf behind read_n /
        // recv_n, the iovec skipping of the vectored forms) are only reachable through the composite
        // operations: the C10 world, judged here by the pointer/length law alone.
        use crate::c10::{C10World, read_cases, write_cases};
        for (name, cases) in [("wrappers-behind-write_all-send_all", write_cases(quick)), ("wrappers-behind-read_n-recv_n", read_cases(quick))] {
            let n = cases.len();
            let cases = std::rc::Rc::new(cases);
            let (c1, c2) = (cases.clone(), cases.clone());
            let b = Bounds { depth: 16, dev: 0, d_all: 16, merge: false, shard: (0, 1), cap_s: 0, shard_depth: 1 };
            extra.push(Harness {
                name: name.to_string(),
                describe: json!({"engine": "seqx", "world": "C10World (pointer/length law only, reporting as C14)", "cases": n, "answers": "every sequence of accepted/delivered byte counts 0..remaining for each request"}),
                bounds: b,
                run: Box::new(move |b| seqx::explore(&|| C10World::new(c1.clone()), "C14", b)),
                replay: Box::new(move |choices| seqx::exec(&|| C10World::new(c2.clone()), "C14", choices)),
            });
        }
    }
    let mut v = vec![crate::casex::case_harness(
        "buffer-laws",
        "C14",
        cases,
        crate::c14::run,
        json!({"engine": "casex (bounded exhaustive enumeration)", "cases": n, "alphabet": "14 read-side buffer types x lengths {0,1,2,3,8,16} x limits {none,0,1,c-1,c,c+1,total,2^32-1,2^32,2^32+1,2^32+5,usize::MAX}; Vec<u8> write-side capacity {0,1,2,3,8,64} x fill x limits x every n; arrays and heterogeneous tuples of arity 1..8 over 5 size patterns incl. zero-size members x limits (also on and inside every member boundary) x every n"}),
    )];
    v.extend(extra);
    v
}

fn c16(quick: bool) -> Vec<Harness> {
    let cases = crate::c16::cases(quick);
    let n = cases.len();
    vec![crate::casex::case_harness(
        "address-round-trip",
        "C16",
        cases,
        crate::c16::run,
        json!({"engine": "casex (bounded exhaustive enumeration) + real kernel", "cases": n, "alphabet": if quick { "IPv4: 8 first octets x {0,1,2,127,128,254,255}^3 x ports {0,1,80,65535}; IPv6: 64 structured addresses x ports x flowinfo {0,1,0xFFFFF,0x01020304,MAX} x scope {0,1,0x0a0b0c0d,MAX}; either-family over both; Unix path names of every length 1..107 (3 byte alphabets), abstract names of every length 0..107 (3 alphabets incl. embedded NULs), unnamed; kernel-reported lengths established on real sockets" } else { "IPv4: all 2^32 addresses x ports {0,1,80,65535}; IPv6, Unix as in quick but every alphabet at every length" }}),
    )]
}

fn c17(quick: bool) -> Vec<Harness> {
    let cases = crate::c17::cases(quick);
    let n = cases.len();
    vec![crate::casex::case_harness(
        "inotify-streams",
        "C17",
        cases,
        crate::c17::run,
        json!({"engine": "casex over simk", "cases": n, "alphabet": "every sequence of up to 3 (thorough: 4) records over 12 representative inotify records (name lengths 0,1,2,15,16,17,48 with kernel padding and minimal padding; IN_IGNORED, IN_Q_OVERFLOW, IN_UNMOUNT, unknown watch descriptor, -1), every way of cutting a sequence into successive reads that fit the 272-byte buffer, ending with an empty read / a read error / nothing, EINTR on a read, events retained across later polls and across dropping the iterator; plus every name length 0..255 and every mask bit x IN_ISDIR x watch descriptor class"}),
    )]
}

fn c13(quick: bool) -> Vec<Harness> {
    let cases = crate::c13::cases(quick);
    let n = cases.len();
    vec![crate::casex::case_harness(
        "posix-equivalence",
        "C13",
        cases,
        crate::c13::run,
        json!({"engine": "casex: encoder differential over simk + real-kernel differential", "cases": n, "parts": "A: 37 operation shapes issued on a regular and on a direct descriptor, submissions compared with each other and with an ABI table; builder settings (offsets {0,1,4095,4096,2^40,2^64-2}, send/recv flags, open options x mode x kind, socket/pipe kind, advise/allocate/truncate/sync/shutdown/listen/mkdir/unlink/rename) reflected in the submission. B: 16 real-kernel scenarios x {regular, direct}: read/readv and write/writev over offsets x lengths vs pread/pwrite (contents, counts, file position), open option combinations, mkdir/rmdir/rename/unlink, statx/ftruncate/fallocate/fsync, pool reads, TCP v4/v6 (bind, listen, accept, names, send, recv, sendmsg, zero-copy, shutdown, options, connect), UDP send_to/recv_from, Unix path and abstract names, pipe, splice, waitid, descriptor conversions and close"}),
    )]
}

fn c11(quick: bool) -> Vec<Harness> {
    use crate::thworld::{C11Cfg, RingMode, c11};
    let mut v = Vec::new();
    let pb = if quick { 2 } else { 3 };
    for mode in [RingMode::Default, RingMode::KernelThread, RingMode::SingleIssuer, RingMode::SingleIssuerDefer] {
        for polls in [vec![None], vec![Some(0), None], vec![None, None]] {
            for (wakers, each) in [(1usize, 1usize), (1, 2), (2, 1)] {
                if quick && wakers * each > 1 && polls.len() > 1 && mode != RingMode::Default {
                    continue;
                }
                let need = polls.iter().filter(|p| p.is_none()).count();
                if wakers * each < need {
                    continue; // Not enough wakes to end every blocking poll.
                }
                v.push(th_harness("C11", c11(C11Cfg { mode, polls: polls.clone(), wakers, wakes_each: each, sq: 2, sq_full: false, pre_posted: vec![] }, pb)));
            }
        }
    }
    v.push(th_harness("C11", c11(C11Cfg { mode: RingMode::Default, polls: vec![None], wakers: 1, wakes_each: 1, sq: 1, sq_full: true, pre_posted: vec![] }, pb)));
    for mode in [RingMode::Default, RingMode::KernelThread, RingMode::SingleIssuer] {
        v.push(th_harness("C11", c11(C11Cfg { mode, polls: vec![None, None], wakers: 1, wakes_each: 1, sq: 2, sq_full: false, pre_posted: vec![0] }, pb)));
        v.push(th_harness("C11", c11(C11Cfg { mode, polls: vec![Some(0), None, None], wakers: 1, wakes_each: 1, sq: 2, sq_full: false, pre_posted: vec![1] }, pb)));
    }
    {
        let cases = crate::c11seq::cases();
        let n = cases.len();
        v.push(crate::casex::case_harness("wake-before-poll", "C11", cases, crate::c11seq::run, json!({"engine": "casex over simk", "cases": n, "alphabet": "ring mode {default, kernel thread, single issuer, +defer taskrun} x timeout of the next poll {None, 0, 1 ms, 5 s, huge} x wakes {1,2} x earlier polls {0,1} x wake through {the ring's handle, a clone}: the poll that follows a wake made while nobody polls must not wait in the kernel"})));
    }
    {
        // wake() racing with the Ring being dropped on another thread ("harmless").
        use crate::thworld::{C12Act, C12ThCfg, c12_threads};
        for (acts, ring_polls, sq, sqpoll) in [(vec![C12Act::Wake], 0usize, 2u32, false), (vec![C12Act::Wake, C12Act::Wake], 1, 1, false), (vec![C12Act::Wake], 0, 2, true)] {
            v.push(th_harness("C11", c12_threads(C12ThCfg { acts, ring_polls, sq, sqpoll, prop: "C11", idle_at_start: false }, pb)));
        }
    }
    v
}

fn c09(quick: bool) -> Vec<Harness> {
    let mut v = Vec::new();
    let d = |q: usize, t: usize| if quick { q } else { t };
    use Kind::*;
    let kinds = [
        ReadVec, ReadVecPrefilled, WriteVec, WriteStatic, ReadVectored2, WriteVectored2, WriteVectoredTuple, Recv,
        RecvVectored, RecvFrom, RecvFromVectored, Send, SendZc, SendTo, SendToZc, SendVectored, SendVectoredZc,
        ReadPool, RecvPool, MultishotRead, MultishotRecv, Accept, AcceptNoAddr, MultishotAccept, OpenFile, Socket,
        Connect, Bind, LocalAddr, SockOpt, SetSockOpt, Statx, CreateDir, Rename, RemoveFile, Fsync, Truncate, Shutdown,
        Pipe, WaitId, ReadLimited, OpenDirect, SocketDirect, PipeDirect, ToDirect, Listen, PeerAddr, SyncData, FAdvise,
        Allocate, MemAdvise, SpliceTo, SpliceFrom, SendToVectored, OpenTemp, Pollable, ReceiveSignal, ReceiveSignals,
        RecvFromPool, OpenExtract, CreateDirExtract, RenameExtract, RemoveExtract, ReadVecFrom, WriteVecAt, ReadVectoredFrom,
        WriteVectoredAt, RecvPeek, RecvPoolWaitAll, RecvFromPeek, SendMore, SendZcMore, SendToMore, MultishotRecvPeek,
        SpliceToAt, SpliceFromAt,
    ];
    for k in kinds {
        let mut cfg = Cfg::base("C09");
        cfg.sq = 2;
        cfg.preset = vec![k];
        cfg.kinds = vec![];
        cfg.max_ops = 1;
        cfg.faults = true;
        cfg.errors = true;
        cfg.shorts = true;
        cfg.allow_fresh = false;
        cfg.costs.outcome = 0;
        cfg.costs.spurious_poll = 1;
        cfg.max_items = 2;
        if k.needs_direct_table() {
            cfg.direct_table = Some(4);
        }
        cfg.report = vec!["C09"];
        if !quick {
            cfg.max_items = 3;
        }
        v.push(ops_harness(&format!("{k:?}"), "C09", cfg.clone(), bounds(d(8, 16), d(1, 4), 4)));
        if k.class() == crate::ops::Class::TwoStep {
            cfg.zc_error_notif = false;
            v.push(ops_harness(&format!("{k:?}-error-without-notif"), "C09", cfg, bounds(d(8, 16), d(1, 4), 4)));
        }
    }
    {
        // AsyncFd::close of a descriptor an operation handed out, interrupted and restarted.
        for k in [OpenFile, OpenDirect] {
            let mut cfg = Cfg::base("C09");
            cfg.sq = 2;
            cfg.preset = vec![k];
            cfg.kinds = vec![];
            cfg.max_ops = 1;
            cfg.faults = true;
            cfg.errors = false;
            cfg.shorts = false;
            cfg.allow_fresh = false;
            cfg.held_letters = true;
            cfg.hold_close = true;
            cfg.costs.outcome = 0;
            cfg.costs.spurious_poll = 1;
            cfg.direct_table = Some(4);
            cfg.report = vec!["C09"];
            v.push(ops_harness(&format!("{k:?}+close"), "C09", cfg, bounds(d(13, 15), d(1, 2), 4)));
        }
    }
    if !quick {
        // Two operations interrupted independently (their restarts interleave).
        for (a, b) in [(ReadVec, SendZc), (MultishotRead, ReadVec), (RecvFrom, WriteVectored2), (SendVectoredZc, Accept), (ReceiveSignals, ReadPool), (OpenDirect, MultishotAccept)] {
            let mut cfg = Cfg::base("C09");
            cfg.sq = 2;
            cfg.preset = vec![a, b];
            cfg.kinds = vec![];
            cfg.max_ops = 2;
            cfg.faults = true;
            cfg.errors = false;
            cfg.shorts = false;
            cfg.allow_fresh = false;
            cfg.costs.outcome = 0;
            cfg.costs.spurious_poll = 1;
            cfg.max_items = 2;
            cfg.direct_table = Some(4);
            cfg.report = vec!["C09"];
            v.push(ops_harness(&format!("{a:?}+{b:?}"), "C09", cfg, bounds(14, 3, 4)));
        }
    }
    v
}

fn drop_cfg(prop: &'static str, preset: Vec<Kind>) -> Cfg {
    let mut cfg = Cfg::base(prop);
    cfg.sq = 2;
    cfg.preset = preset;
    cfg.kinds = vec![];
    cfg.max_ops = cfg.preset.len();
    cfg.faults = true;
    cfg.errors = false;
    cfg.shorts = false;
    cfg.allow_drop = true;
    cfg.allow_fresh = false;
    cfg.allow_cancel_lose = true;
    cfg.costs.drop_op = 0;
    cfg.costs.outcome = 1;
    cfg.costs.cancel_lose = 0;
    cfg.max_items = 2;
    if cfg.preset.iter().any(|k| k.needs_direct_table()) {
        cfg.direct_table = Some(4);
    }
    cfg
}

fn c06(quick: bool) -> Vec<Harness> {
    let mut v = thops_set("C06", quick);
    let d = |q: usize, t: usize| if quick { q } else { t };
    use Kind::*;
    let kinds = [
        ReadVec, WriteVec, ReadVectored2, RecvFrom, SendZc, SendVectoredZc, MultishotRead, MultishotAccept, Statx, Connect, Rename,
        SendToVectored, PeerAddr, SpliceTo, OpenTemp, Pollable, RecvN, SendAllVectored, ReceiveSignal, ReceiveSignals,
        ReceiveSignalsIntoInner, RecvFromPool, OpenExtract, RenameExtract,
    ];
    for k in kinds {
        let mut cfg = drop_cfg("C06", vec![k]);
        cfg.report = vec!["C06"];
        v.push(ops_harness(&format!("{k:?}"), "C06", cfg.clone(), bounds(d(7, 9), d(2, 3), 4)));
        if k.class() == crate::ops::Class::TwoStep {
            cfg.zc_error_notif = false;
            v.push(ops_harness(&format!("{k:?}-error-without-notif"), "C06", cfg, bounds(d(7, 9), d(2, 3), 4)));
        }
    }
    // The Ring is dropped right after the futures, with whatever is still queued or in flight.
    for (preset, sq) in [(vec![ReadVec, WriteVec], 1u32), (vec![ReadVec, WriteVec], 2), (vec![SendZc, ReadVec], 2), (vec![MultishotRead, ReadVec], 2), (vec![OpenFile, RecvFrom], 1)] {
        let mut cfg = drop_cfg("C06", preset.clone());
        cfg.sq = sq;
        cfg.final_drop_ring_first = true;
        cfg.report = vec!["C06"];
        let name = format!("{}-sq{sq}-ring-dropped-first", preset.iter().map(|k| format!("{k:?}")).collect::<Vec<_>>().join("+"));
        v.push(ops_harness(&name, "C06", cfg, bounds(d(7, 9), d(2, 3), 4)));
    }
    for (a, b) in [(ReadVec, SendZc), (ReadVec, WriteVec), (MultishotRead, ReadVec)] {
        for sq in [1u32, 2] {
            let mut cfg = drop_cfg("C06", vec![a, b]);
            cfg.sq = sq;
            cfg.report = vec!["C06"];
            v.push(ops_harness(&format!("{a:?}+{b:?}-sq{sq}"), "C06", cfg, bounds(d(7, 9), d(2, 3), 4)));
        }
    }
    v
}

fn c01(quick: bool) -> Vec<Harness> {
    let mut v = thops_set("C01", quick);
    let d = |q: usize, t: usize| if quick { q } else { t };
    use Kind::*;
    let kinds = [
        ReadVec, ReadVecPrefilled, WriteVec, WriteStatic, WriteString, WriteBoxed, WriteArc, ReadVectored2, WriteVectored2,
        WriteVectoredTuple, Recv, RecvVectored, RecvFrom, RecvFromVectored, Send, SendZc, SendTo, SendToZc, SendVectored,
        SendVectoredZc, ReadPool, RecvPool, MultishotRead, MultishotRecv, Accept, AcceptNoAddr, MultishotAccept, OpenFile,
        Socket, Connect, Bind, LocalAddr, SockOpt, SetSockOpt, Statx, CreateDir, Rename, RemoveFile, Pipe, ToDirect, WaitId,
        ReadLimited, ReadN, WriteAll, WriteAllVectored, SendAll, Fsync, Truncate, Shutdown, Listen, PeerAddr, SyncData,
        FAdvise, Allocate, MemAdvise, SpliceTo, SpliceFrom, SendToVectored, OpenTemp, RecvN, ReadNVectored,
        SendAllVectored, Pollable, ReceiveSignal, ReceiveSignals, ReceiveSignalsIntoInner, RecvFromPool, OpenExtract,
        CreateDirExtract, RenameExtract, RemoveExtract,
    ];
    for k in kinds {
        let mut cfg = drop_cfg("C01", vec![k]);
        cfg.report = vec!["C01"];
        v.push(ops_harness(&format!("{k:?}"), "C01", cfg.clone(), bounds(d(6, 8), d(2, 3), 4)));
        if k.class() == crate::ops::Class::TwoStep {
            cfg.zc_error_notif = false;
            v.push(ops_harness(&format!("{k:?}-error-without-notif"), "C01", cfg, bounds(d(6, 8), d(2, 3), 4)));
        }
    }
    {
        // A pool buffer that holds data handed to the kernel again (five operation kinds).
        let mut cfg = drop_cfg("C01", vec![ReadPool]);
        cfg.sq = 4;
        cfg.pool = (2, 8);
        cfg.reread_held = true;
        // (In-place edits before the buffer goes back to the kernel: what it is then given must still be the buffer's own slot.)
        cfg.edit_held = true;
        cfg.shorts = true;
        cfg.costs.outcome = 1;
        cfg.allow_fresh = false;
        cfg.allow_cancel_lose = false;
        cfg.report = vec!["C01"];
        v.push(ops_harness("pool-buffer-reused", "C01", cfg, bounds(d(12, 13), d(2, 3), 4)));
    }
    {
        // Every drop order of the Ring, the queue handles, descriptors, pools, buffers and operations in
        // every state (the C12 world): memory the kernel still uses must survive all of them.
        use crate::c12::{C12World, scenarios};
        let sc = std::rc::Rc::new(scenarios(quick));
        let n = sc.len();
        let (c1, c2) = (sc.clone(), sc.clone());
        let b = Bounds { depth: 10, dev: 0, d_all: 10, merge: false, shard: (0, 1), cap_s: 0, shard_depth: 1 };
        v.push(Harness {
            name: "drop-permutations".to_string(),
            describe: json!({"engine": "seqx", "world": "C12World (memory oracle reporting as C01)", "scenarios": n, "drop_orders": "every permutation of the scenario's objects that safe Rust admits"}),
            bounds: b,
            run: Box::new(move |b| seqx::explore(&|| C12World::labelled(c1.clone(), "C01"), "C01", b)),
            replay: Box::new(move |choices| seqx::exec(&|| C12World::labelled(c2.clone(), "C01"), "C01", choices)),
        });
    }
    for (a, b) in [(ReadVec, SendZc), (RecvFrom, WriteVectored2), (MultishotRead, Accept), (ReadPool, Statx)] {
        let mut cfg = drop_cfg("C01", vec![a, b]);
        cfg.report = vec!["C01"];
        v.push(ops_harness(&format!("{a:?}+{b:?}"), "C01", cfg, bounds(d(7, 9), d(2, 3), 4)));
    }
    v
}

pub const ALL: &[&str] = &["C01", "C02", "C03", "C04", "C05", "C06", "C07", "C08", "C09", "C10", "C11", "C12", "C13", "C14", "C15", "C16", "C17", "C18"];

pub fn assumptions(prop: &str) -> Vec<String> {
    let mut v = vec![
        "bounded: only histories within the stated alphabets, depth and deviation bounds are covered".to_string(),
        "the simulated kernel (simk) follows the io_uring ABI for the behaviours the oracles rely on".to_string(),
        "histories are those safe Rust callers can produce (futures pinned, not polled after completion)".to_string(),
    ];
    v.push("sequential consistency between scheduling points; weak-memory effects are not modelled".to_string());
    let extra: &[&str] = match prop {
        "C01" | "C02" | "C05" | "C06" | "C09" => &[
            "simk's completion shapes (single CQE, F_MORE streams, zero-copy result + notification incl. on failure/cancel, -ECANCELED/-EINTR, buffer-select flags) are the ones K-conf compares with the running kernel; completion shapes no Linux kernel produces are not explored",
            "operations are those of the catalogue in harness/src/ops.rs (88 shapes); an a10 operation type not in it is not covered",
        ],
        "C03" => &["an executor that re-polls only when woken; Ring::poll calls are made by the harness (sequential) or by one ring thread (schx)"],
        "C04" => &["the kernel consumes submission entries atomically at io_uring_enter (or, with a kernel thread, at any scheduling point as one actor step)"],
        "C07" | "C12" => &[
            "descriptor identity is what the simulated kernel's descriptor table and the close(2) interposer see; descriptors made by other system calls are tracked only where noted (try_clone)",
            "known findings (descriptors/buffers delivered to abandoned operations) are reported as KNOWN-FINDING and do not stop the search below that history",
        ],
        "C08" | "C15" => &["pool geometry: 1-4 buffers of 1-8 bytes; the 16-bit ring tail starts at 0 or just below 2^16"],
        "C10" => &["kernel answers per request: every byte count 0..=remaining, or EIO; buffers of up to 3 (thorough 5) members"],
        "C11" => &["a wake-up is judged lost only if the poller can never return (deadlock under the scheduler), not by elapsed time"],
        "C13" => &[
            "part B trusts the running Linux kernel (6.18) and libc as the oracle; errno identity is demanded only where a10 passes the kernel's error on",
            "the synchronous fallbacks for kernels without an opcode are not reachable on this kernel and are not covered",
        ],
        "C14" | "C16" => &["pure functions: exhaustive over the stated input alphabets only"],
        "C17" => &["the inotify instance is a stand-in (interposed inotify_init1/inotify_add_watch handing out watch descriptors 1,2,..); records are the ones the harness writes, well-formed as the statement requires"],
        "C18" => &["kernel answers are those enumerated (success with granted sizes, 4 setup errors, missing feature bits, k-th mmap/madvise failing, registration failing)"],
        _ => &[],
    };
    v.extend(extra.iter().map(|s| s.to_string()));
    v
}

/// Evidence level per property (must match MANIFEST.json).
pub fn level(prop: &str) -> &'static str {
    match prop {
        "C13" | "C14" | "C16" => "exploration",
        "C18" => "fault_enumeration",
        _ => "model_checking",
    }
}

pub fn rule(prop: &str) -> &'static str {
    match prop {
        "C13" => "cases are enumerated from the cartesian product of the argument alphabets listed under harnesses[].bounds; a case is distinct if its (operation, arguments, descriptor kind) tuple is distinct; every case issues at least one real operation, so every distinct case is non-trivial",
        "C14" => "cases are enumerated from the product of buffer type x size x fill x limit (and every n inside a case); distinct = distinct tuple; every case evaluates at least the pointer/length laws on a real buffer",
        "C16" => "cases are enumerated from the address alphabets; distinct = distinct case tuple; every case performs at least one full address -> kernel representation -> address round trip",
        "C18" => "cases are (configuration, kernel answer, counter start) tuples enumerated from the product; distinct = distinct tuple; every case runs Config::build on the real code",
        _ => "histories are enumerated depth first over the action alphabet within the depth and deviation bounds; distinct = distinct canonical state key reached; every history executes real a10 code and is closed by the epilogue oracles",
    }
}
