//! Per-property harness definitions.
#![allow(dead_code)]

use serde_json::{Value, json};

use crate::ops::Kind;
use crate::opsworld::{Cfg, OpsWorld};
use crate::seqx::{self, Bounds, ExecResult, Stats};

/// A harness: a world family plus its bounds.
pub struct Harness {
    pub name: String,
    pub bounds: Bounds,
    pub describe: Value,
    pub run: Box<dyn Fn(&Bounds) -> Stats>,
    pub replay: Box<dyn Fn(&[usize]) -> ExecResult>,
}

pub fn ops_harness(name: &str, prop: &'static str, cfg: Cfg, bounds: Bounds) -> Harness {
    let c1 = cfg.clone();
    let c2 = cfg.clone();
    Harness {
        name: name.to_string(),
        describe: json!({
            "engine": "seqx",
            "world": "OpsWorld",
            "sq": cfg.sq, "cq": cfg.cq, "c0_sq": cfg.c0_sq, "c0_cq": cfg.c0_cq,
            "kinds": cfg.kinds.iter().map(|k| format!("{k:?}")).collect::<Vec<_>>(),
            "preset": cfg.preset.iter().map(|k| format!("{k:?}")).collect::<Vec<_>>(),
            "max_ops": cfg.max_ops,
            "faults": cfg.faults, "errors": cfg.errors, "shorts": cfg.shorts,
            "allow_drop": cfg.allow_drop, "allow_fresh_waker": cfg.allow_fresh,
            "cancel_may_lose": cfg.allow_cancel_lose,
            "raw_cqes": cfg.raw_cqes.len(), "canary": cfg.canary,
            "depth": bounds.depth, "deviations": bounds.dev, "d_all": bounds.d_all, "merge": bounds.merge,
        }),
        bounds,
        run: Box::new(move |b| seqx::explore(&|| OpsWorld::new(c1.clone()), prop, b)),
        replay: Box::new(move |choices| seqx::exec(&|| OpsWorld::new(c2.clone()), prop, choices)),
    }
}

pub fn bounds(depth: usize, dev: u32, d_all: usize) -> Bounds {
    Bounds { depth, dev, d_all, merge: true, shard: (0, 1), cap_s: 0 }
}

pub fn harnesses(prop: &str, tier: &str) -> Vec<Harness> {
    let quick = tier == "quick";
    match prop {
        "C02" => c02(quick),
        _ => Vec::new(),
    }
}

fn c02(quick: bool) -> Vec<Harness> {
    let mut v = Vec::new();
    let mut cfg = Cfg::base("C02");
    cfg.kinds = vec![Kind::ReadVec, Kind::WriteVec];
    cfg.max_ops = 2;
    v.push(ops_harness("single-pair", "C02", cfg, bounds(if quick { 7 } else { 9 }, 2, 4)));
    v
}

pub const ALL: &[&str] = &["C02"];

pub fn assumptions(prop: &str) -> Vec<String> {
    let mut v = vec![
        "bounded: only histories within the stated alphabets, depth and deviation bounds are covered".to_string(),
        "the simulated kernel (simk) follows the io_uring ABI for the behaviours the oracles rely on".to_string(),
        "histories are those safe Rust callers can produce (futures pinned, not polled after completion)".to_string(),
    ];
    let _ = prop;
    v.push("sequential consistency between scheduling points; weak-memory effects are not modelled".to_string());
    v
}
