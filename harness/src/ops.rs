//! Operation catalogue: constructors for a10 operations behind one uniform,
//! type-erased handle, with a canonical rendering of their output.
#![allow(dead_code)]

use std::future::Future;
use std::net::{SocketAddr, SocketAddrV4};
use std::path::PathBuf;
use std::pin::Pin;
use std::task::{Context, Poll};

use a10::fd::Kind as FdKind;
use a10::io::ReadBufPool;
use a10::{AsyncFd, SubmissionQueue};

use crate::talloc;

/// What a poll of an operation showed the caller.
#[derive(Clone, Debug, PartialEq, Eq, Hash)]
pub enum Seen {
    Pending,
    /// Single-shot result or stream item.
    Ready(String),
    /// End of a stream.
    End,
}

/// Type erased operation. Dropping it drops the future.
pub struct Op {
    poller: Box<dyn FnMut(&mut Context<'_>) -> Poll<Option<String>>>,
    pub stream: bool,
    /// Descriptors (AsyncFds) handed out by this operation, kept alive here so
    /// that the world decides when they are dropped.
    pub held: std::rc::Rc<std::cell::RefCell<Vec<AsyncFd>>>,
    /// Pool buffers handed out by this operation.
    pub bufs: std::rc::Rc<std::cell::RefCell<Vec<a10::io::ReadBuf>>>,
}

impl Op {
    pub fn from_poller(poller: Box<dyn FnMut(&mut Context<'_>) -> Poll<Option<String>>>) -> Op {
        let held = talloc::untracked(Held::new_untracked);
        Op { poller, stream: false, held: held.fds, bufs: held.bufs }
    }

    pub fn poll(&mut self, cx: &mut Context<'_>) -> Seen {
        match talloc::track(|| (self.poller)(cx)) {
            Poll::Pending => Seen::Pending,
            Poll::Ready(Some(s)) => Seen::Ready(s),
            Poll::Ready(None) => Seen::End,
        }
    }
}

fn hex(b: &[u8]) -> String {
    b.iter().map(|b| format!("{b:02x}")).collect()
}

pub fn err_str(e: &std::io::Error) -> String {
    match e.raw_os_error() {
        Some(n) => format!("err:{n}"),
        None => format!("err:{:?}", e.kind()),
    }
}

fn single<F, T>(fut: F, render: impl Fn(T, &Held) -> String + 'static) -> Op
where
    F: Future<Output = std::io::Result<T>> + 'static,
{
    let mut fut: Pin<Box<F>> = Box::pin(fut);
    let held = talloc::untracked(Held::new_untracked);
    let h2 = held.clone();
    Op {
        poller: Box::new(move |cx| match fut.as_mut().poll(cx) {
            Poll::Pending => Poll::Pending,
            Poll::Ready(Ok(v)) => Poll::Ready(Some(talloc::untracked(|| render(v, &h2)))),
            Poll::Ready(Err(e)) => Poll::Ready(Some(talloc::untracked(|| err_str(&e)))),
        }),
        stream: false,
        held: held.fds,
        bufs: held.bufs,
    }
}

#[derive(Clone, Default)]
pub struct Held {
    pub fds: std::rc::Rc<std::cell::RefCell<Vec<AsyncFd>>>,
    pub bufs: std::rc::Rc<std::cell::RefCell<Vec<a10::io::ReadBuf>>>,
}

fn fd_str(fd: AsyncFd, held: &Held) -> String {
    let s = format!("fd:{:?}:{}", fd.kind(), raw_of(&fd));
    held.fds.borrow_mut().push(fd);
    s
}

impl Held {
    pub fn new_untracked() -> Held {
        let h = Held::default();
        // Pre-size the vectors here so that later pushes (made in whatever
        // scope) never allocate tracked memory.
        h.fds.borrow_mut().reserve(8);
        h.bufs.borrow_mut().reserve(8);
        h
    }
}

/// The descriptor number (or slot) of an AsyncFd, through its Debug output.
pub fn raw_of(fd: &AsyncFd) -> i32 {
    let d = format!("{fd:?}");
    // AsyncFd { fd: N, kind: K }
    let start = d.find("fd: ").map(|i| i + 4).unwrap_or(0);
    let rest = &d[start..];
    let end = rest.find(',').unwrap_or(rest.len());
    rest[..end].trim().parse().unwrap_or(-1)
}

fn buf_str(buf: a10::io::ReadBuf, held: &Held) -> String {
    let s = format!("buf:{}", hex(&buf));
    held.bufs.borrow_mut().push(buf);
    s
}

macro_rules! stream {
    ($it:expr, $render:expr) => {{
        let mut it = Box::pin($it);
        let held = talloc::untracked(Held::new_untracked);
        let h2 = held.clone();
        let render = $render;
        Op {
            poller: Box::new(move |cx| match it.as_mut().poll_next(cx) {
                Poll::Pending => Poll::Pending,
                Poll::Ready(None) => Poll::Ready(None),
                Poll::Ready(Some(Ok(v))) => Poll::Ready(Some(talloc::untracked(|| render(v, &h2)))),
                Poll::Ready(Some(Err(e))) => Poll::Ready(Some(talloc::untracked(|| err_str(&e)))),
            }),
            stream: true,
            held: held.fds,
            bufs: held.bufs,
        }
    }};
}

/// Catalogue entries.
#[derive(Clone, Copy, Debug, PartialEq, Eq, Hash)]
pub enum Kind {
    ReadVec,
    ReadVecPrefilled,
    WriteVec,
    WriteStatic,
    WriteString,
    WriteBoxed,
    WriteArc,
    ReadVectored2,
    WriteVectored2,
    WriteVectoredTuple,
    Recv,
    RecvVectored,
    RecvFrom,
    RecvFromVectored,
    Send,
    SendZc,
    SendTo,
    SendToZc,
    SendVectored,
    SendVectoredZc,
    ReadPool,
    RecvPool,
    MultishotRead,
    MultishotRecv,
    Accept,
    AcceptNoAddr,
    MultishotAccept,
    OpenFile,
    OpenDirect,
    Socket,
    SocketDirect,
    Connect,
    Bind,
    LocalAddr,
    SockOpt,
    SetSockOpt,
    Statx,
    CreateDir,
    Rename,
    RemoveFile,
    Fsync,
    Truncate,
    Shutdown,
    Pipe,
    PipeDirect,
    ToDirect,
    WaitId,
    ReadN,
    WriteAll,
    WriteAllVectored,
    SendAll,
    ReadLimited,
    /// `AsyncFd::close` of a descriptor handed out by another operation.
    CloseFd,
    // Second batch.
    Listen,
    PeerAddr,
    SyncData,
    FAdvise,
    Allocate,
    MemAdvise,
    SpliceTo,
    SpliceFrom,
    /// Splices with explicit offsets on both sides.
    SpliceToAt,
    SpliceFromAt,
    /// `open_temp_file` asking for a direct descriptor.
    OpenTempDirect,
    SendToVectored,
    OpenTemp,
    RecvN,
    ReadNVectored,
    SendAllVectored,
    /// `Ring::pollable` of a second ring, submitted to the first.
    Pollable,
    /// `Signals::receive` (a read of the signalfd into an inline structure).
    ReceiveSignal,
    /// `Signals::receive_signals`: an owned iterator that re-arms itself after every item.
    ReceiveSignals,
    /// The same, given up through `into_inner` instead of being dropped.
    ReceiveSignalsIntoInner,
    /// A `ReadBuf` that already holds data, passed to another read (made with `make_reread`).
    RereadHeld,
    /// `to_file_descriptor` (only meaningful when the base descriptor is direct).
    ToFd,
    /// `recv_from` into a pool buffer (recvmsg with buffer select).
    RecvFromPool,
    /// Extract variants of the path operations: the paths come back.
    OpenExtract,
    CreateDirExtract,
    RenameExtract,
    RemoveExtract,
    // Operations carrying non-default builder settings (offsets, flags): a re-issue must carry them too.
    ReadVecFrom,
    WriteVecAt,
    ReadVectoredFrom,
    WriteVectoredAt,
    RecvPeek,
    RecvPoolWaitAll,
    RecvFromPeek,
    SendMore,
    SendZcMore,
    SendToMore,
    MultishotRecvPeek,
}

#[derive(Clone, Copy, Debug, PartialEq, Eq)]
pub enum Class {
    /// One CQE, result is a count / unit.
    Plain,
    /// One CQE, data read into caller memory.
    Data,
    /// One CQE carrying a new descriptor.
    Desc,
    /// Two CQEs (zero-copy).
    TwoStep,
    /// Multishot stream of buffers.
    StreamBuf,
    /// Multishot stream of descriptors.
    StreamDesc,
    /// Multishot stream of units (readiness).
    StreamUnit,
    /// Single-shot using a pool buffer.
    PoolOne,
    /// Composite: re-issues itself.
    Composite,
    /// Owned iterator of single-shot operations on one state: every item needs a new submission.
    Rearm,
}

impl Kind {
    pub fn class(self) -> Class {
        use Kind::*;
        match self {
            ReadVec | ReadVecPrefilled | ReadVectored2 | Recv | RecvVectored | RecvFrom
            | RecvFromVectored | LocalAddr | SockOpt | Statx | WaitId | ReadLimited | PeerAddr | ReceiveSignal | RereadHeld | ReadVecFrom
            | ReadVectoredFrom | RecvPeek | RecvFromPeek => Class::Data,
            WriteVec | WriteStatic | WriteString | WriteBoxed | WriteArc | WriteVectored2
            | WriteVectoredTuple | Send | SendTo | SendVectored | Connect | Bind | SetSockOpt
            | CreateDir | Rename | RemoveFile | Fsync | Truncate | Shutdown | CloseFd | Listen | SyncData | FAdvise
            | Allocate | MemAdvise | SpliceTo | SpliceFrom | SpliceToAt | SpliceFromAt | SendToVectored | CreateDirExtract | RenameExtract | RemoveExtract | WriteVecAt | WriteVectoredAt | SendMore | SendToMore => Class::Plain,
            SendZc | SendToZc | SendVectoredZc | SendZcMore => Class::TwoStep,
            ReadPool | RecvPool | RecvFromPool | RecvPoolWaitAll => Class::PoolOne,
            MultishotRead | MultishotRecv | MultishotRecvPeek => Class::StreamBuf,
            MultishotAccept => Class::StreamDesc,
            Accept | AcceptNoAddr | OpenFile | OpenDirect | Socket | SocketDirect | Pipe
            | PipeDirect | ToDirect | OpenTemp | OpenTempDirect | ToFd | OpenExtract => Class::Desc,
            ReadN | WriteAll | WriteAllVectored | SendAll | RecvN | ReadNVectored | SendAllVectored => Class::Composite,
            Pollable => Class::StreamUnit,
            ReceiveSignals | ReceiveSignalsIntoInner => Class::Rearm,
        }
    }

    /// Result is a byte count that may legitimately be short.
    pub fn transfers_bytes(self) -> bool {
        use Kind::*;
        matches!(
            self,
            ReadVec | ReadVecPrefilled | ReadVectored2 | Recv | RecvVectored | RecvFrom | RecvFromVectored | ReadLimited
                | WriteVec | WriteStatic | WriteString | WriteBoxed | WriteArc | WriteVectored2 | WriteVectoredTuple
                | Send | SendTo | SendVectored | ReadPool | RecvPool | RecvFromPool | ReadN | WriteAll | WriteAllVectored | SendAll
                | SpliceTo | SpliceFrom | SpliceToAt | SpliceFromAt | SendToVectored | RecvN | ReadNVectored | SendAllVectored | RereadHeld | ReadVecFrom
                | WriteVecAt | ReadVectoredFrom | WriteVectoredAt | RecvPeek | RecvPoolWaitAll | RecvFromPeek | SendMore | SendToMore
        )
    }

    pub fn needs_pool(self) -> bool {
        matches!(self.class(), Class::PoolOne | Class::StreamBuf)
    }

    pub fn needs_direct_table(self) -> bool {
        matches!(self, Kind::OpenDirect | Kind::SocketDirect | Kind::PipeDirect | Kind::ToDirect | Kind::OpenTempDirect)
    }

    pub fn is_stream(self) -> bool {
        matches!(self.class(), Class::StreamBuf | Class::StreamDesc | Class::StreamUnit)
    }
}

pub struct Env<'a> {
    pub sq: &'a SubmissionQueue,
    pub fd: &'static AsyncFd,
    pub pool: Option<&'a ReadBufPool>,
    /// Distinguishes operations of the same kind in one history.
    pub nth: usize,
}

fn v4(n: usize) -> SocketAddrV4 {
    SocketAddrV4::new(std::net::Ipv4Addr::new(10, 0, 0, n as u8 + 1), 4000 + n as u16)
}

fn data(n: usize, len: usize) -> Vec<u8> {
    (0..len).map(|i| (0xA0 + n * 16 + i) as u8).collect()
}

/// Create operation `kind` (not yet polled). Runs in a tracked scope.
pub fn make(kind: Kind, env: &Env<'_>) -> Op {
    use Kind::*;
    let fd = env.fd;
    let n = env.nth;
    talloc::track(|| match kind {
        ReadVec => single(fd.read(Vec::with_capacity(8 + n)), |b: Vec<u8>, _| format!("bytes:{}", hex(&b))),
        ReadVecPrefilled => {
            let mut v = Vec::with_capacity(12);
            v.extend_from_slice(&[0xEE, 0xEF]);
            single(fd.read(v), |b: Vec<u8>, _| format!("bytes:{}", hex(&b)))
        }
        ReadLimited => {
            use a10::io::BufMut;
            single(fd.read(Vec::with_capacity(16).limit(5)), |b, _| format!("bytes:{}", hex(&b.into_inner())))
        }
        WriteVec => single(fd.write(data(n, 5 + n)), |c: usize, _| format!("n:{c}")),
        WriteStatic => single(fd.write("static hello"), |c: usize, _| format!("n:{c}")),
        WriteString => single(fd.write(String::from("string!")), |c: usize, _| format!("n:{c}")),
        WriteBoxed => single(fd.write(data(n, 6).into_boxed_slice()), |c: usize, _| format!("n:{c}")),
        WriteArc => {
            let a: std::sync::Arc<[u8]> = data(n, 9).into();
            single(fd.write(a), |c: usize, _| format!("n:{c}"))
        }
        ReadVectored2 => single(fd.read_vectored([Vec::with_capacity(3), Vec::with_capacity(4 + n)]), |b: [Vec<u8>; 2], _| {
            format!("bytes:{}|{}", hex(&b[0]), hex(&b[1]))
        }),
        WriteVectored2 => single(fd.write_vectored([data(n, 3), data(n + 1, 4)]), |c: usize, _| format!("n:{c}")),
        WriteVectoredTuple => single(fd.write_vectored((data(n, 2), String::from("abc"), data(n, 3).into_boxed_slice())), |c: usize, _| format!("n:{c}")),
        Recv => single(fd.recv(Vec::with_capacity(7 + n)), |b: Vec<u8>, _| format!("bytes:{}", hex(&b))),
        RecvVectored => single(fd.recv_vectored([Vec::with_capacity(2), Vec::with_capacity(5)]), |(b, f): ([Vec<u8>; 2], i32), _| {
            format!("bytes:{}|{}:flags:{f}", hex(&b[0]), hex(&b[1]))
        }),
        RecvFrom => single(fd.recv_from::<_, SocketAddr>(Vec::with_capacity(6)), |(b, a, f): (Vec<u8>, SocketAddr, i32), _| {
            format!("bytes:{}:from:{a}:flags:{f}", hex(&b))
        }),
        RecvFromVectored => single(
            fd.recv_from_vectored::<_, SocketAddrV4, 2>([Vec::with_capacity(2), Vec::with_capacity(3)]),
            |(b, a, f): ([Vec<u8>; 2], SocketAddrV4, i32), _| format!("bytes:{}|{}:from:{a}:flags:{f}", hex(&b[0]), hex(&b[1])),
        ),
        Send => single(fd.send(data(n, 4 + n)), |c: usize, _| format!("n:{c}")),
        SendZc => single(fd.send(data(n, 4 + n)).zc(), |c: usize, _| format!("n:{c}")),
        SendTo => single(fd.send_to(data(n, 5), v4(n)), |c: usize, _| format!("n:{c}")),
        SendToZc => single(fd.send_to(data(n, 5), v4(n)).zc(), |c: usize, _| format!("n:{c}")),
        SendVectored => single(fd.send_vectored([data(n, 2), data(n, 3)]), |c: usize, _| format!("n:{c}")),
        SendVectoredZc => single(fd.send_vectored([data(n, 2), data(n, 3)]).zc(), |c: usize, _| format!("n:{c}")),
        ReadPool => single(fd.read(env.pool.unwrap().get()), |b: a10::io::ReadBuf, h| buf_str(b, h)),
        RecvPool => single(fd.recv(env.pool.unwrap().get()), |b: a10::io::ReadBuf, h| buf_str(b, h)),
        MultishotRead => stream!(fd.multishot_read(env.pool.unwrap().clone()), |b: a10::io::ReadBuf, h: &Held| buf_str(b, h)),
        MultishotRecv => stream!(fd.multishot_recv(env.pool.unwrap().clone()), |b: a10::io::ReadBuf, h: &Held| buf_str(b, h)),
        Accept => single(fd.accept::<SocketAddr>(), |(s, a): (AsyncFd, SocketAddr), h| format!("{}:from:{a}", fd_str(s, h))),
        AcceptNoAddr => single(fd.accept::<a10::net::NoAddress>(), |(s, _): (AsyncFd, a10::net::NoAddress), h| fd_str(s, h)),
        MultishotAccept => stream!(fd.multishot_accept(), |s: AsyncFd, h: &Held| fd_str(s, h)),
        OpenFile => single(a10::fs::open_file(env.sq.clone(), PathBuf::from(format!("/verif-simk/file{n}"))), |f: AsyncFd, h| fd_str(f, h)),
        OpenDirect => single(
            a10::fs::OpenOptions::new().kind(FdKind::Direct).open(env.sq.clone(), PathBuf::from("/verif-simk/direct")),
            |f: AsyncFd, h| fd_str(f, h),
        ),
        Socket => single(
            a10::net::socket(env.sq.clone(), a10::net::Domain::IPV4, a10::net::Type::STREAM, None),
            |f: AsyncFd, h| fd_str(f, h),
        ),
        SocketDirect => single(
            a10::net::socket(env.sq.clone(), a10::net::Domain::IPV4, a10::net::Type::STREAM, None).kind(FdKind::Direct),
            |f: AsyncFd, h| fd_str(f, h),
        ),
        Connect => single(fd.connect(v4(n)), |(): (), _| "unit".to_string()),
        Bind => single(fd.bind(SocketAddr::V4(v4(n))), |(): (), _| "unit".to_string()),
        LocalAddr => single(fd.local_addr::<SocketAddr>(), |a: SocketAddr, _| format!("addr:{a}")),
        SockOpt => single(fd.socket_option::<a10::net::option::Error>(), |e: Option<std::io::Error>, _| format!("opt:{e:?}")),
        SetSockOpt => single(fd.set_socket_option::<a10::net::option::ReuseAddress>(true), |(): (), _| "unit".to_string()),
        Statx => single(fd.metadata(), |m: a10::fs::Metadata, _| format!("meta:len={}", m.len())),
        CreateDir => single(a10::fs::create_dir(env.sq.clone(), PathBuf::from("/verif-simk/dir")), |(): (), _| "unit".to_string()),
        Rename => single(
            a10::fs::rename(env.sq.clone(), PathBuf::from("/verif-simk/from"), PathBuf::from("/verif-simk/to")),
            |(): (), _| "unit".to_string(),
        ),
        RemoveFile => single(a10::fs::remove_file(env.sq.clone(), PathBuf::from("/verif-simk/gone")), |(): (), _| "unit".to_string()),
        Fsync => single(fd.sync_all(), |(): (), _| "unit".to_string()),
        Truncate => single(fd.truncate(77), |(): (), _| "unit".to_string()),
        Shutdown => single(fd.shutdown(std::net::Shutdown::Both), |(): (), _| "unit".to_string()),
        Pipe => single(a10::pipe::pipe(env.sq.clone()), |[r, w]: [AsyncFd; 2], h| format!("{}+{}", fd_str(r, h), fd_str(w, h))),
        PipeDirect => single(a10::pipe::pipe(env.sq.clone()).kind(FdKind::Direct), |[r, w]: [AsyncFd; 2], h| {
            format!("{}+{}", fd_str(r, h), fd_str(w, h))
        }),
        ToDirect => single(fd.to_direct_descriptor(), |f: AsyncFd, h| fd_str(f, h)),
        WaitId => single(
            a10::process::wait(env.sq.clone(), a10::process::WaitOn::Process(12345)),
            |i: a10::process::WaitInfo, _| format!("wait:pid={}", i.pid()),
        ),
        ReadN => single(fd.read_n(Vec::with_capacity(10), 6), |b: Vec<u8>, _| format!("bytes:{}", hex(&b))),
        WriteAll => single(fd.write_all(data(n, 6)), |(): (), _| "unit".to_string()),
        WriteAllVectored => single(fd.write_all_vectored([data(n, 2), data(n + 1, 3)]), |(): (), _| "unit".to_string()),
        SendAll => single(fd.send_all(data(n, 5)), |(): (), _| "unit".to_string()),
        CloseFd => unreachable!("CloseFd is made with make_close"),
        RereadHeld => unreachable!("RereadHeld is made with make_reread"),
        ReadVecFrom => single(fd.read(Vec::with_capacity(8 + n)).from(0x1234), |b: Vec<u8>, _| format!("bytes:{}", hex(&b))),
        WriteVecAt => single(fd.write(data(n, 5 + n)).at(0x4321), |c: usize, _| format!("n:{c}")),
        ReadVectoredFrom => single(fd.read_vectored([Vec::with_capacity(3), Vec::with_capacity(4 + n)]).from(77), |b: [Vec<u8>; 2], _| {
            format!("bytes:{}|{}", hex(&b[0]), hex(&b[1]))
        }),
        WriteVectoredAt => single(fd.write_vectored([data(n, 3), data(n + 1, 4)]).at(99), |c: usize, _| format!("n:{c}")),
        RecvPeek => single(fd.recv(Vec::with_capacity(7 + n)).flags(a10::net::RecvFlag::PEEK), |b: Vec<u8>, _| format!("bytes:{}", hex(&b))),
        RecvPoolWaitAll => single(fd.recv(env.pool.unwrap().get()).flags(a10::net::RecvFlag::WAIT_ALL), |b: a10::io::ReadBuf, h| buf_str(b, h)),
        RecvFromPeek => single(fd.recv_from::<_, SocketAddr>(Vec::with_capacity(6)).flags(a10::net::RecvFlag::PEEK), |(b, a, f): (Vec<u8>, SocketAddr, i32), _| {
            format!("bytes:{}:from:{a}:flags:{f}", hex(&b))
        }),
        SendMore => single(fd.send(data(n, 4 + n)).flags(a10::net::SendFlag::MORE), |c: usize, _| format!("n:{c}")),
        SendZcMore => single(fd.send(data(n, 4 + n)).flags(a10::net::SendFlag::MORE).zc(), |c: usize, _| format!("n:{c}")),
        SendToMore => single(fd.send_to(data(n, 5), v4(n)).flags(a10::net::SendFlag::MORE), |c: usize, _| format!("n:{c}")),
        MultishotRecvPeek => stream!(fd.multishot_recv(env.pool.unwrap().clone()).flags(a10::net::RecvFlag::PEEK), |b: a10::io::ReadBuf, h: &Held| buf_str(b, h)),
        ToFd => single(fd.to_file_descriptor(), |f: AsyncFd, h| fd_str(f, h)),
        RecvFromPool => single(fd.recv_from::<_, SocketAddr>(env.pool.unwrap().get()), |(b, a, f): (a10::io::ReadBuf, SocketAddr, i32), h| {
            format!("{}:from:{a}:flags:{f}", buf_str(b, h))
        }),
        OpenExtract => {
            use a10::Extract;
            single(a10::fs::open_file(env.sq.clone(), PathBuf::from(format!("/verif-simk/xfile{n}"))).extract(), |(f, p): (AsyncFd, PathBuf), h| {
                format!("{}:path:{}", fd_str(f, h), p.display())
            })
        }
        CreateDirExtract => {
            use a10::Extract;
            single(a10::fs::create_dir(env.sq.clone(), PathBuf::from("/verif-simk/xdir")).extract(), |p: PathBuf, _| format!("path:{}", p.display()))
        }
        RenameExtract => {
            use a10::Extract;
            single(
                a10::fs::rename(env.sq.clone(), PathBuf::from("/verif-simk/xfrom"), PathBuf::from("/verif-simk/xto")).extract(),
                |(a, b): (PathBuf, PathBuf), _| format!("paths:{}>{}", a.display(), b.display()),
            )
        }
        RemoveExtract => {
            use a10::Extract;
            single(a10::fs::remove_file(env.sq.clone(), PathBuf::from("/verif-simk/xgone")).extract(), |p: PathBuf, _| format!("path:{}", p.display()))
        }
        Listen => single(fd.listen(16 + n as u32), |(): (), _| "unit".to_string()),
        PeerAddr => single(fd.peer_addr::<SocketAddr>(), |a: SocketAddr, _| format!("addr:{a}")),
        SyncData => single(fd.sync_data(), |(): (), _| "unit".to_string()),
        FAdvise => single(fd.advise(4096, 8192, a10::fs::AdviseFlag::WILL_NEED), |(): (), _| "unit".to_string()),
        Allocate => single(fd.allocate(512, 1024), |(): (), _| "unit".to_string()),
        MemAdvise => single(
            a10::mem::advise(env.sq.clone(), 0x7000_0000usize as *mut (), 4096, a10::mem::AdviseFlag::DONT_NEED),
            |(): (), _| "unit".to_string(),
        ),
        SpliceTo => single(fd.splice_to(unsafe { std::os::fd::BorrowedFd::borrow_raw(1) }, 64 + n as u32), |c: usize, _| format!("n:{c}")),
        SpliceFrom => single(fd.splice_from(unsafe { std::os::fd::BorrowedFd::borrow_raw(0) }, 32 + n as u32), |c: usize, _| format!("n:{c}")),
        SpliceToAt => single(fd.splice_to(unsafe { std::os::fd::BorrowedFd::borrow_raw(1) }, 48 + n as u32).from(0x10).at(0x2000), |c: usize, _| format!("n:{c}")),
        SpliceFromAt => single(fd.splice_from(unsafe { std::os::fd::BorrowedFd::borrow_raw(0) }, 40 + n as u32).from(0x30).at(0x4000), |c: usize, _| format!("n:{c}")),
        SendToVectored => single(fd.send_to_vectored([data(n, 2), data(n, 4)], v4(n)), |c: usize, _| format!("n:{c}")),
        OpenTemp => single(
            a10::fs::OpenOptions::new().write().open_temp_file(env.sq.clone(), PathBuf::from("/verif-simk/tmpdir")),
            |f: AsyncFd, h| fd_str(f, h),
        ),
        OpenTempDirect => single(
            a10::fs::OpenOptions::new().write().kind(FdKind::Direct).open_temp_file(env.sq.clone(), PathBuf::from("/verif-simk/tmpdir")),
            |f: AsyncFd, h| fd_str(f, h),
        ),
        RecvN => single(fd.recv_n(Vec::with_capacity(10), 6), |b: Vec<u8>, _| format!("bytes:{}", hex(&b))),
        ReadNVectored => single(fd.read_n_vectored([Vec::with_capacity(3), Vec::with_capacity(5)], 6), |b: [Vec<u8>; 2], _| {
            format!("bytes:{}|{}", hex(&b[0]), hex(&b[1]))
        }),
        SendAllVectored => single(fd.send_all_vectored([data(n, 2), data(n + 1, 3)]), |(): (), _| "unit".to_string()),
        ReceiveSignal => {
            use a10::process::{Signal, Signals};
            // The future borrows the Signals: keep both in one holder, future first.
            struct Holder<F> {
                fut: Pin<Box<F>>,
                _sig: Box<Signals>,
            }
            let sig = Box::new(Signals::from_signals(env.sq.clone(), [Signal::USER2]).expect("signalfd"));
            let r: &'static Signals = unsafe { &*std::ptr::from_ref::<Signals>(&*sig) };
            let mut h = Holder { fut: Box::pin(r.receive()), _sig: sig };
            let held = talloc::untracked(Held::new_untracked);
            Op {
                poller: Box::new(move |cx| {
                    // Capture the whole holder (closures capture single fields otherwise).
                    let h = &mut h;
                    match h.fut.as_mut().poll(cx) {
                        Poll::Pending => Poll::Pending,
                        Poll::Ready(Ok(i)) => Poll::Ready(Some(talloc::untracked(|| format!("sig:pid={}:uid={}", i.pid(), i.real_user_id())))),
                        Poll::Ready(Err(e)) => Poll::Ready(Some(talloc::untracked(|| err_str(&e)))),
                    }
                }),
                stream: false,
                held: held.fds,
                bufs: held.bufs,
            }
        }
        ReceiveSignals | ReceiveSignalsIntoInner => {
            use a10::process::{ReceiveSignals, Signal, Signals};
            struct Holder {
                it: Option<Box<ReceiveSignals>>,
                into_inner: bool,
            }
            impl Drop for Holder {
                fn drop(&mut self) {
                    if let Some(it) = self.it.take() {
                        if self.into_inner {
                            let signals: Signals = (*it).into_inner();
                            drop(signals);
                        } else {
                            drop(it);
                        }
                    }
                }
            }
            let sig = Signals::from_signals(env.sq.clone(), [Signal::USER2]).expect("signalfd");
            let mut h = Holder { it: Some(Box::new(sig.receive_signals())), into_inner: kind == ReceiveSignalsIntoInner };
            let held = talloc::untracked(Held::new_untracked);
            Op {
                poller: Box::new(move |cx| {
                    let h = &mut h;
                    match Pin::new(&mut **h.it.as_mut().unwrap()).poll_next(cx) {
                        Poll::Pending => Poll::Pending,
                        Poll::Ready(None) => Poll::Ready(None),
                        Poll::Ready(Some(Ok(i))) => Poll::Ready(Some(talloc::untracked(|| format!("sig:pid={}:uid={}", i.pid(), i.real_user_id())))),
                        Poll::Ready(Some(Err(e))) => Poll::Ready(Some(talloc::untracked(|| err_str(&e)))),
                    }
                }),
                stream: false,
                held: held.fds,
                bufs: held.bufs,
            }
        }
        Pollable => {
            // The watched ring lives (and is torn down) with the operation.
            let other = a10::Ring::config().with_submission_queue_size(1).build().expect("second ring");
            let it = other.pollable(env.sq.clone());
            let mut it = Box::pin(it);
            let held = talloc::untracked(Held::new_untracked);
            Op {
                poller: Box::new(move |cx| {
                    let _keep = &other;
                    match it.as_mut().poll_next(cx) {
                        Poll::Pending => Poll::Pending,
                        Poll::Ready(None) => Poll::Ready(None),
                        Poll::Ready(Some(Ok(()))) => Poll::Ready(Some(talloc::untracked(|| "unit".to_string()))),
                        Poll::Ready(Some(Err(e))) => Poll::Ready(Some(talloc::untracked(|| err_str(&e)))),
                    }
                }),
                stream: true,
                held: held.fds,
                bufs: held.bufs,
            }
        }
    })
}

/// Read again into a `ReadBuf` that already owns a pool buffer: 0 read, 1 recv, 2 recv_from, 3 read_vectored, 4 recv_vectored.
pub fn make_reread(fd: &'static AsyncFd, buf: a10::io::ReadBuf, via: u8) -> Op {
    talloc::track(|| match via {
        0 => single(fd.read(buf), |b: a10::io::ReadBuf, h| buf_str(b, h)),
        1 => single(fd.recv(buf), |b: a10::io::ReadBuf, h| buf_str(b, h)),
        2 => single(fd.recv_from::<_, SocketAddr>(buf), |(b, _, _): (a10::io::ReadBuf, SocketAddr, i32), h| buf_str(b, h)),
        3 => single(fd.read_vectored([buf]), |[b]: [a10::io::ReadBuf; 1], h| buf_str(b, h)),
        _ => single(fd.recv_vectored([buf]), |([b], _): ([a10::io::ReadBuf; 1], i32), h| buf_str(b, h)),
    })
}

/// `fd.close()` as an operation.
pub fn make_close(fd: AsyncFd) -> Op {
    talloc::track(|| single(fd.close(), |(): (), _| "unit".to_string()))
}
