//! Link-time interposition of `mmap`, `munmap`, `madvise` and `close`.
//!
//! The executable defines these symbols, so every call a10 (and std) makes
//! through the libc crate lands here first. Calls that concern a simulated
//! ring's descriptor, one of its mappings, or a descriptor issued by the
//! simulated kernel are logged; everything is forwarded with `syscall(2)`.
#![allow(dead_code)]

use std::sync::Mutex;
use std::sync::atomic::{AtomicBool, AtomicI32, AtomicI64, AtomicUsize, Ordering};

use libc::{c_int, c_void, off_t, size_t};

#[derive(Clone, Debug, PartialEq, Eq)]
pub enum MapEvent {
    Mmap { fd: i32, off: i64, len: usize, addr: usize, failed: bool },
    Munmap { addr: usize, len: usize, fd: i32, off: i64, exact: bool },
    Madvise { addr: usize, len: usize, advice: i32, failed: bool },
    /// Close of a ring descriptor.
    CloseRing { fd: i32, res: i32 },
    /// Close of a descriptor issued by the simulated kernel.
    CloseIssued { fd: i32, res: i32 },
}

const NFDS: usize = 64;
static RING_FDS: [AtomicI32; NFDS] = [const { AtomicI32::new(-1) }; NFDS];
/// Descriptors >= this value (and < ISSUED_MAX) are issued by the simulated kernel.
pub static ISSUED_MIN: AtomicI32 = AtomicI32::new(i32::MAX);
pub static ISSUED_MAX: AtomicI32 = AtomicI32::new(i32::MAX);

static LIVE: AtomicBool = AtomicBool::new(false);
static CALLS: AtomicUsize = AtomicUsize::new(0);

/// Fault injection: fail the n-th (1-based) ring mmap / madvise from now, 0 = never.
pub static FAIL_MMAP_AT: AtomicI64 = AtomicI64::new(0);
/// Fault injection: the n-th (1-based) close(2) of a descriptor issued by the simulated kernel closes
/// the descriptor and then reports EINTR (as Linux may: the descriptor is gone all the same); 0 = never.
pub static CLOSE_EINTR_AT: AtomicI64 = AtomicI64::new(0);
static ISSUED_CLOSES: AtomicI64 = AtomicI64::new(0);
pub static FAIL_MADVISE_AT: AtomicI64 = AtomicI64::new(0);
static MMAP_COUNT: AtomicI64 = AtomicI64::new(0);
static MADVISE_COUNT: AtomicI64 = AtomicI64::new(0);

#[derive(Clone, Copy, Debug)]
pub struct Mapping {
    pub addr: usize,
    pub len: usize,
    pub fd: i32,
    pub off: i64,
}

pub struct State {
    pub events: Vec<MapEvent>,
    pub mappings: Vec<Mapping>,
}

static STATE: Mutex<State> = Mutex::new(State {
    events: Vec::new(),
    mappings: Vec::new(),
});
static N_MAPPINGS: AtomicUsize = AtomicUsize::new(0);

fn state() -> std::sync::MutexGuard<'static, State> {
    STATE.lock().unwrap_or_else(|e| e.into_inner())
}

pub fn register_ring_fd(fd: i32) {
    for slot in &RING_FDS {
        if slot
            .compare_exchange(-1, fd, Ordering::SeqCst, Ordering::SeqCst)
            .is_ok()
        {
            return;
        }
    }
    panic!("mapwatch: too many ring fds");
}

fn is_ring_fd(fd: i32) -> bool {
    fd >= 0 && RING_FDS.iter().any(|s| s.load(Ordering::Relaxed) == fd)
}

fn unregister_ring_fd(fd: i32) {
    for slot in &RING_FDS {
        let _ = slot.compare_exchange(fd, -1, Ordering::SeqCst, Ordering::SeqCst);
    }
}

pub fn reset() {
    for slot in &RING_FDS {
        slot.store(-1, Ordering::SeqCst);
    }
    let mut s = state();
    s.events.clear();
    s.mappings.clear();
    N_MAPPINGS.store(0, Ordering::SeqCst);
    FAIL_MMAP_AT.store(0, Ordering::SeqCst);
    CLOSE_EINTR_AT.store(0, Ordering::SeqCst);
    ISSUED_CLOSES.store(0, Ordering::SeqCst);
    FAIL_MADVISE_AT.store(0, Ordering::SeqCst);
    MMAP_COUNT.store(0, Ordering::SeqCst);
    MADVISE_COUNT.store(0, Ordering::SeqCst);
}

/// Unmap ring mappings a leaked (forgotten) world left behind, so that many
/// violating executions don't exhaust the process's mapping limit.
pub fn unmap_leftovers() {
    let left: Vec<Mapping> = crate::talloc::untracked(|| std::mem::take(&mut state().mappings));
    N_MAPPINGS.store(0, Ordering::SeqCst);
    for m in left {
        unsafe { libc::syscall(libc::SYS_munmap, m.addr, m.len) };
    }
}

pub fn mmap_count() -> i64 {
    MMAP_COUNT.load(Ordering::SeqCst)
}

pub fn madvise_count() -> i64 {
    MADVISE_COUNT.load(Ordering::SeqCst)
}

pub fn take_events() -> Vec<MapEvent> {
    crate::talloc::untracked(|| std::mem::take(&mut state().events))
}

pub fn events() -> Vec<MapEvent> {
    crate::talloc::untracked(|| state().events.clone())
}

pub fn mappings() -> Vec<Mapping> {
    crate::talloc::untracked(|| state().mappings.clone())
}

pub fn open_ring_fds() -> Vec<i32> {
    RING_FDS
        .iter()
        .map(|s| s.load(Ordering::Relaxed))
        .filter(|fd| *fd >= 0)
        .collect()
}

/// Prove the interposer is live.
pub fn selftest() -> bool {
    LIVE.store(false, Ordering::SeqCst);
    let before = CALLS.load(Ordering::SeqCst);
    unsafe {
        let p = libc::mmap(
            std::ptr::null_mut(),
            4096,
            libc::PROT_READ,
            libc::MAP_PRIVATE | libc::MAP_ANONYMOUS,
            -1,
            0,
        );
        if p == libc::MAP_FAILED {
            return false;
        }
        libc::madvise(p, 4096, libc::MADV_NORMAL);
        libc::munmap(p, 4096);
        let fd = libc::dup(0);
        if fd >= 0 {
            libc::close(fd);
        }
    }
    CALLS.load(Ordering::SeqCst) >= before + 4
}

#[unsafe(no_mangle)]
pub unsafe extern "C" fn mmap(
    addr: *mut c_void,
    len: size_t,
    prot: c_int,
    flags: c_int,
    fd: c_int,
    off: off_t,
) -> *mut c_void {
    CALLS.fetch_add(1, Ordering::Relaxed);
    let ring = is_ring_fd(fd);
    if ring {
        let n = MMAP_COUNT.fetch_add(1, Ordering::SeqCst) + 1;
        if FAIL_MMAP_AT.load(Ordering::SeqCst) == n {
            crate::talloc::untracked(|| {
                state().events.push(MapEvent::Mmap {
                    fd,
                    off,
                    len,
                    addr: 0,
                    failed: true,
                })
            });
            unsafe { *libc::__errno_location() = libc::ENOMEM };
            return libc::MAP_FAILED;
        }
    }
    let res = unsafe { libc::syscall(libc::SYS_mmap, addr, len, prot, flags, fd, off) };
    if ring {
        crate::talloc::untracked(|| {
            let mut s = state();
            s.events.push(MapEvent::Mmap {
                fd,
                off,
                len,
                addr: res as usize,
                failed: res == -1,
            });
            if res != -1 {
                s.mappings.push(Mapping {
                    addr: res as usize,
                    len,
                    fd,
                    off,
                });
                N_MAPPINGS.fetch_add(1, Ordering::SeqCst);
            }
        });
    }
    res as *mut c_void
}

#[unsafe(no_mangle)]
pub unsafe extern "C" fn munmap(addr: *mut c_void, len: size_t) -> c_int {
    CALLS.fetch_add(1, Ordering::Relaxed);
    if N_MAPPINGS.load(Ordering::SeqCst) > 0 {
        crate::talloc::untracked(|| {
            let mut s = state();
            let a = addr as usize;
            if let Some(i) = s
                .mappings
                .iter()
                .position(|m| a < m.addr + round_up(m.len) && m.addr < a + len.max(1))
            {
                let m = s.mappings[i];
                let exact = m.addr == a && m.len == len;
                s.events.push(MapEvent::Munmap {
                    addr: a,
                    len,
                    fd: m.fd,
                    off: m.off,
                    exact,
                });
                s.mappings.remove(i);
                N_MAPPINGS.fetch_sub(1, Ordering::SeqCst);
            }
        });
    }
    unsafe { libc::syscall(libc::SYS_munmap, addr, len) as c_int }
}

fn round_up(len: usize) -> usize {
    (len + 4095) & !4095
}

#[unsafe(no_mangle)]
pub unsafe extern "C" fn madvise(addr: *mut c_void, len: size_t, advice: c_int) -> c_int {
    CALLS.fetch_add(1, Ordering::Relaxed);
    let mut ours = false;
    if N_MAPPINGS.load(Ordering::SeqCst) > 0 {
        let a = addr as usize;
        ours = crate::talloc::untracked(|| state().mappings.iter().any(|m| m.addr == a));
    }
    if ours {
        let n = MADVISE_COUNT.fetch_add(1, Ordering::SeqCst) + 1;
        if FAIL_MADVISE_AT.load(Ordering::SeqCst) == n {
            crate::talloc::untracked(|| {
                state().events.push(MapEvent::Madvise {
                    addr: addr as usize,
                    len,
                    advice,
                    failed: true,
                })
            });
            unsafe { *libc::__errno_location() = libc::ENOMEM };
            return -1;
        }
    }
    let res = unsafe { libc::syscall(libc::SYS_madvise, addr, len, advice) as c_int };
    if ours {
        crate::talloc::untracked(|| {
            state().events.push(MapEvent::Madvise {
                addr: addr as usize,
                len,
                advice,
                failed: res != 0,
            })
        });
    }
    res
}

#[unsafe(no_mangle)]
pub unsafe extern "C" fn close(fd: c_int) -> c_int {
    CALLS.fetch_add(1, Ordering::Relaxed);
    let ring = is_ring_fd(fd);
    let issued = (fd >= ISSUED_MIN.load(Ordering::Relaxed) && fd < ISSUED_MAX.load(Ordering::Relaxed)) || WATCHED_FD.load(Ordering::Relaxed) == fd;
    let res = unsafe { libc::syscall(libc::SYS_close, fd) as c_int };
    if ring {
        unregister_ring_fd(fd);
        crate::talloc::untracked(|| state().events.push(MapEvent::CloseRing { fd, res }));
    } else if issued {
        crate::talloc::untracked(|| state().events.push(MapEvent::CloseIssued { fd, res }));
        let n = ISSUED_CLOSES.fetch_add(1, Ordering::SeqCst) + 1;
        if res == 0 && CLOSE_EINTR_AT.load(Ordering::SeqCst) == n {
            unsafe { *libc::__errno_location() = libc::EINTR };
            return -1;
        }
    }
    res
}

/// One further descriptor (outside the issued range) whose close(2) is logged: a duplicate made by `try_clone`.
static WATCHED_FD: AtomicI32 = AtomicI32::new(-1);

pub fn watch_fd(fd: i32) {
    WATCHED_FD.store(fd, Ordering::Relaxed);
}

/// Close bypassing the interposer's log (used by the simulated kernel).
pub fn raw_close(fd: i32) -> i32 {
    unsafe { libc::syscall(libc::SYS_close, fd) as i32 }
}

// ------------------------------------------------------------------ inotify
//
// With `fake_inotify(true)` an inotify instance is a duplicate of /dev/null and
// watch descriptors are handed out 1, 2, ... per instance, as Linux does. The
// reads of the instance are served by the simulated kernel anyway; only the
// (slow: every close waits for an fsnotify work item) kernel object is left out.

static FAKE_INOTIFY: std::sync::atomic::AtomicBool = std::sync::atomic::AtomicBool::new(false);
static FAKE_INOTIFY_FDS: Mutex<Vec<(c_int, c_int)>> = Mutex::new(Vec::new());
/// (instance, device, inode, watch descriptor): watching the same inode again gives the same descriptor.
static FAKE_INOTIFY_WATCHES: Mutex<Vec<(c_int, u64, u64, c_int)>> = Mutex::new(Vec::new());

pub fn fake_inotify(on: bool) {
    FAKE_INOTIFY.store(on, Ordering::SeqCst);
    if !on {
        crate::talloc::untracked(|| {
            FAKE_INOTIFY_FDS.lock().unwrap_or_else(|e| e.into_inner()).clear();
            FAKE_INOTIFY_WATCHES.lock().unwrap_or_else(|e| e.into_inner()).clear();
        });
    }
}

#[unsafe(no_mangle)]
pub unsafe extern "C" fn inotify_init1(flags: c_int) -> c_int {
    CALLS.fetch_add(1, Ordering::Relaxed);
    if !FAKE_INOTIFY.load(Ordering::SeqCst) {
        return unsafe { libc::syscall(libc::SYS_inotify_init1, flags) as c_int };
    }
    let fd = unsafe {
        let null = libc::open(c"/dev/null".as_ptr(), libc::O_RDONLY | libc::O_CLOEXEC);
        if null < 0 {
            return -1;
        }
        null
    };
    crate::talloc::untracked(|| {
        let mut g = FAKE_INOTIFY_FDS.lock().unwrap_or_else(|e| e.into_inner());
        // Descriptor numbers are reused: forget the instance that had this one before.
        g.retain(|(f, _)| *f != fd);
        g.push((fd, 0));
        FAKE_INOTIFY_WATCHES.lock().unwrap_or_else(|e| e.into_inner()).retain(|w| w.0 != fd);
    });
    fd
}

#[unsafe(no_mangle)]
pub unsafe extern "C" fn inotify_add_watch(fd: c_int, path: *const libc::c_char, mask: u32) -> c_int {
    CALLS.fetch_add(1, Ordering::Relaxed);
    if FAKE_INOTIFY.load(Ordering::SeqCst) {
        let mut st: libc::stat = unsafe { std::mem::zeroed() };
        let have_stat = unsafe { libc::lstat(path, &mut st) } == 0;
        let wd = crate::talloc::untracked(|| {
            let mut g = FAKE_INOTIFY_FDS.lock().unwrap_or_else(|e| e.into_inner());
            let mut w = FAKE_INOTIFY_WATCHES.lock().unwrap_or_else(|e| e.into_inner());
            let inst = g.iter_mut().find(|(f, _)| *f == fd)?;
            if have_stat {
                if let Some(old) = w.iter().find(|x| x.0 == fd && x.1 == st.st_dev as u64 && x.2 == st.st_ino as u64) {
                    return Some(old.3);
                }
            }
            inst.1 += 1;
            if have_stat {
                w.push((fd, st.st_dev as u64, st.st_ino as u64, inst.1));
            }
            Some(inst.1)
        });
        if let Some(wd) = wd {
            return wd;
        }
    }
    unsafe { libc::syscall(libc::SYS_inotify_add_watch, fd, path, mask) as c_int }
}
