//! simk: an in-process simulated io_uring kernel.
//!
//! a10 reaches it through the `a10::verif::Kernel` table. The rings live in a
//! memfd that a10 maps itself, exactly like it maps the real ring descriptor.
//! Nothing happens spontaneously: submissions are consumed by `enter` (or by
//! the explorer playing the sq-thread) and a request stays in flight until the
//! explorer completes it.
#![allow(dead_code)]

use std::collections::{HashMap, VecDeque};
use std::ffi::c_void;
use std::sync::atomic::{AtomicU16, AtomicU32, Ordering};
use std::sync::{Mutex, MutexGuard};

use crate::abi::*;
use crate::{mapwatch, talloc};

pub const ISSUED_FD_BASE: i32 = 600;
pub const ISSUED_FD_LIMIT: i32 = 4000;

// Ring layout (byte offsets inside the SQ and CQ regions). Deliberately not
// the real kernel's: a10 must use what `io_uring_params` tells it.
pub const SQ_HEAD: u32 = 0;
pub const SQ_TAIL: u32 = 64;
pub const SQ_MASK: u32 = 256;
pub const SQ_ENTRIES: u32 = 264;
pub const SQ_DROPPED: u32 = 272;
pub const SQ_FLAGS: u32 = 276;
pub const CQ_HEAD: u32 = 128;
pub const CQ_TAIL: u32 = 192;
pub const CQ_MASK: u32 = 260;
pub const CQ_ENTRIES: u32 = 268;
pub const CQ_FLAGS: u32 = 280;
pub const CQ_OVERFLOW: u32 = 284;
pub const CQ_CQES: u32 = 320;

#[derive(Clone, Debug)]
pub struct SetupPlan {
    /// Fail `io_uring_setup` with this errno.
    pub err: Option<i32>,
    pub features: u32,
    /// Granted sizes override (otherwise the kernel's rounding rules).
    pub sq_grant: Option<u32>,
    pub cq_grant: Option<u32>,
    /// Initial value of the SQ and CQ head/tail counters.
    pub c0_sq: u32,
    pub c0_cq: u32,
    /// Return a descriptor that can't be mapped.
    pub unmappable: bool,
    /// Maximum entries (IORING_MAX_ENTRIES).
    pub max_entries: u32,
}

impl Default for SetupPlan {
    fn default() -> SetupPlan {
        SetupPlan {
            err: None,
            features: FEAT_ALL,
            sq_grant: None,
            cq_grant: None,
            c0_sq: 0,
            c0_cq: 0,
            unmappable: false,
            max_entries: 32768,
        }
    }
}

#[derive(Clone, Copy, Debug, PartialEq, Eq)]
pub enum CancelMode {
    /// Cancellation wins: the target completes with -ECANCELED.
    Win,
    /// Cancellation loses: -EALREADY, target completes normally later.
    Lose,
}

#[derive(Clone, Copy, Debug, PartialEq, Eq)]
pub enum SyncCancelMode {
    /// Everything in flight is cancelled.
    All,
    /// The register call fails.
    Fail(i32),
    /// Nothing is cancelled (requests stay in flight), returns 0.
    Nothing,
}

#[derive(Clone, Copy, Debug, PartialEq, Eq)]
pub enum Out {
    /// The opcode's natural full success.
    Default,
    /// Final completion with this result (byte count or -errno).
    Res(i32),
    /// Non-final completion (F_MORE) of a multishot request with this result;
    /// `Default`-like if the value is `i32::MIN`.
    More(i32),
    /// The notification CQE of a zero-copy send.
    Notif,
    /// Final completion with result 0 without selecting a buffer.
    ZeroNoBuf,
}

#[derive(Clone, Debug)]
pub struct Range {
    pub addr: usize,
    pub len: usize,
    pub write: bool,
    pub what: &'static str,
    /// talloc block at submission: (serial, base).
    pub block: Option<(u32, usize)>,
    /// Content at consumption (read ranges only).
    pub snapshot: Vec<u8>,
}

#[derive(Clone, Debug)]
pub struct Req {
    pub serial: u32,
    pub ring: usize,
    pub sqe: Sqe,
    pub user_data: u64,
    pub opcode: u8,
    pub foot: Vec<Range>,
    pub multishot: bool,
    pub zc: bool,
    pub pool: bool,
    /// Zero-copy: first CQE posted, notification outstanding.
    pub awaiting_notif: bool,
    pub done: bool,
    pub cqes: u32,
    /// Bytes accepted by write-like completions (in order).
    pub accepted: Vec<u8>,
    /// One record per completion produced for this request.
    pub outs: Vec<OutRec>,
}

/// What the kernel did for one completion of a request.
#[derive(Clone, Debug, Default)]
pub struct OutRec {
    pub res: i32,
    pub flags: u32,
    /// Bytes written into the data ranges (reads) or descriptor numbers.
    pub data: Vec<u8>,
    /// Socket address written (raw sockaddr bytes).
    pub addr: Vec<u8>,
    /// CQE was suppressed (CQE_SKIP_SUCCESS).
    pub skipped: bool,
}

/// A CQE written into a completion ring.
#[derive(Clone, Copy, Debug)]
pub struct Written {
    pub ring: usize,
    pub pos: u32,
    pub cqe: Cqe,
    pub serial: Option<u32>,
}

#[derive(Clone, Debug, PartialEq, Eq)]
pub enum DescKind {
    Regular(i32),
    Fixed { ring: usize, slot: u32 },
}

#[derive(Clone, Debug)]
pub struct Desc {
    pub id: u32,
    pub kind: DescKind,
    pub origin: u32,
    pub open: bool,
    pub closes: Vec<&'static str>,
}

#[derive(Clone, Debug)]
pub enum Event {
    Setup { entries: u32, params_in: Params, result: i32, ring: Option<usize> },
    Enter { ring: usize, to_submit: u32, min_complete: u32, flags: u32, ret: i32, timeout: Option<(i64, i64)> },
    Consumed { ring: usize, serial: u32, index: u32, head: u32, sqe: Sqe },
    Posted { ring: usize, cqe: Cqe, serial: Option<u32>, overflowed: bool },
    Skipped { ring: usize, serial: u32, res: i32 },
    Register { ring: i64, opcode: u32, ret: i32 },
    CancelSeen { ring: usize, target_ud: u64, found: Option<u32>, res: i32, sqe: Sqe },
    Close { ring: usize, desc: Option<u32>, fd: i32, fixed: bool, res: i32, via: &'static str },
    RingClosed { ring: usize },
    Note(String),
}

pub struct PbufRing {
    pub addr: usize,
    pub entries: u32,
    pub bgid: u16,
    pub head: u16,
}

pub struct RingState {
    pub id: usize,
    pub fd: i32,
    pub closed: bool,
    pub flags: u32,
    pub sq_entries: u32,
    pub cq_entries: u32,
    sq_ptr: *mut u8,
    sq_len: usize,
    cq_ptr: *mut u8,
    cq_len: usize,
    sqes_ptr: *mut u8,
    sqes_len: usize,
    pub enabled: bool,
    pub submitter: Option<usize>,
    pub overflow: VecDeque<(Cqe, Option<u32>)>,
    pub deferred: VecDeque<Cqe>,
    pub fixed: Option<Vec<Option<u32>>>, // slot -> desc id
    pub fixed_hint: u32,
    pub pbufs: Vec<PbufRing>,
    pub sq_thread_idle: bool,
    /// Number of CQEs posted (incl. overflowed) in total.
    pub posted: u64,
}

unsafe impl Send for RingState {}

impl RingState {
    fn sq_word(&self, off: u32) -> &AtomicU32 {
        unsafe { &*(self.sq_ptr.add(off as usize) as *const AtomicU32) }
    }
    fn cq_word(&self, off: u32) -> &AtomicU32 {
        unsafe { &*(self.cq_ptr.add(off as usize) as *const AtomicU32) }
    }
    pub fn sq_head(&self) -> u32 {
        self.sq_word(SQ_HEAD).load(Ordering::SeqCst)
    }
    pub fn sq_tail(&self) -> u32 {
        self.sq_word(SQ_TAIL).load(Ordering::SeqCst)
    }
    pub fn cq_head(&self) -> u32 {
        self.cq_word(CQ_HEAD).load(Ordering::SeqCst)
    }
    pub fn cq_tail(&self) -> u32 {
        self.cq_word(CQ_TAIL).load(Ordering::SeqCst)
    }
    pub fn sq_pending(&self) -> u32 {
        self.sq_tail().wrapping_sub(self.sq_head())
    }
    pub fn cq_ready(&self) -> u32 {
        self.cq_tail().wrapping_sub(self.cq_head())
    }
    pub fn sq_flags(&self) -> u32 {
        self.sq_word(SQ_FLAGS).load(Ordering::SeqCst)
    }
    pub fn set_sq_flag(&self, flag: u32, on: bool) {
        if on {
            self.sq_word(SQ_FLAGS).fetch_or(flag, Ordering::SeqCst);
        } else {
            self.sq_word(SQ_FLAGS).fetch_and(!flag, Ordering::SeqCst);
        }
    }
    pub fn cqe_slot(&self, index: u32) -> *mut Cqe {
        unsafe {
            self.cq_ptr
                .add(CQ_CQES as usize + (index & (self.cq_entries - 1)) as usize * 16)
                .cast()
        }
    }
    pub fn sqe_slot(&self, index: u32) -> *mut Sqe {
        unsafe {
            self.sqes_ptr
                .add((index & (self.sq_entries - 1)) as usize * 64)
                .cast()
        }
    }
    pub fn sq_tail_addr(&self) -> usize {
        self.sq_ptr as usize + SQ_TAIL as usize
    }
    pub fn cq_head_addr(&self) -> usize {
        self.cq_ptr as usize + CQ_HEAD as usize
    }
}

pub struct Simk {
    pub plan: SetupPlan,
    pub rings: Vec<RingState>,
    pub reqs: Vec<Req>,
    pub descs: Vec<Desc>,
    pub log: Vec<Event>,
    /// Every CQE written into a ring, in order.
    pub written: Vec<Written>,
    /// Scratch for the completion being built.
    pending_out: OutRec,
    map_pos: usize,
    /// Integrity violations noticed by the kernel side: (signature class, message).
    pub violations: Vec<(String, String)>,
    pub next_serial: u32,
    pub next_fd: i32,
    pub devnull: i32,
    pub cancel_default: CancelMode,
    pub cancel_policy: HashMap<u64, CancelMode>,
    pub sync_cancel: SyncCancelMode,
    /// Register opcodes that fail: opcode -> errno.
    pub fail_register: HashMap<u32, i32>,
    /// If set, all requests (also CLOSE etc.) are held until the explorer completes them.
    pub hold_all: bool,
    /// Explicit closes (`AsyncFd::close`, user_data of an operation) stay in flight until completed
    /// (Linux punts the close of some file types to a worker; it can then be cancelled).
    pub hold_user_close: bool,
    /// Opcodes answered with -EINVAL at issue (old kernel).
    pub unsupported: Vec<u8>,
    /// Automatically consume submissions in `enter` (false: only via `consume`).
    pub sqpoll_manual: bool,
    /// What `enter` returns instead of waiting when nothing can wake it up.
    pub would_block: u32,
    /// Check consumed entries are not all-zero / torn (C04).
    pub sqe_expect: HashMap<u64, Sqe>,
    /// Count of enter calls that had to report "would block".
    pub pattern_salt: u8,
    /// Fail the next `enter` with this errno (after submitting).
    pub enter_fault: Option<i32>,
    /// How often the sq-thread may go idle.
    pub idle_budget: u32,
    /// (thread, logical time, waited for events) of every return from `enter`.
    pub enter_returns: Vec<(usize, u64, bool)>,
    /// Zero-copy sends that fail (or are cancelled) still post a notification:
    /// the failing CQE carries F_MORE (as Linux 6.x does once the notification
    /// was allocated). false: a single CQE without F_MORE.
    pub zc_error_notif: bool,
    /// The notification of a cancelled zero-copy send follows at once (nothing was sent).
    pub zc_cancel_notif_immediate: bool,
}

static SIMK: Mutex<Option<Simk>> = Mutex::new(None);

pub static KERNEL: a10::verif::Kernel = a10::verif::Kernel {
    setup: k_setup,
    enter: k_enter,
    register: k_register,
};

/// Hook used by the schedule explorer to block inside `enter`.
/// Arguments: ring id, predicate data. Returns true if the predicate became
/// true, false if the wait ended by timeout / forced wake-up.
pub type BlockHook = fn(ring: usize, min_complete: u32, has_timeout: bool) -> bool;
static BLOCK_HOOK: Mutex<Option<BlockHook>> = Mutex::new(None);

pub fn set_block_hook(h: Option<BlockHook>) {
    *BLOCK_HOOK.lock().unwrap() = h;
}

pub fn install() {
    a10::verif::install_kernel(Some(&KERNEL));
}

pub fn lock() -> MutexGuard<'static, Option<Simk>> {
    SIMK.lock().unwrap_or_else(|e| e.into_inner())
}

/// Run `f` on the simulated kernel (untracked allocations).
pub fn with<T>(f: impl FnOnce(&mut Simk) -> T) -> T {
    talloc::untracked(|| {
        let mut g = lock();
        f(g.as_mut().expect("simk not reset"))
    })
}

/// Start a new execution: forget everything, close leftovers.
pub fn reset(plan: SetupPlan) {
    talloc::untracked(|| {
        let mut g = lock();
        if let Some(old) = g.take() {
            old.teardown();
        }
        mapwatch::reset();
        mapwatch::ISSUED_MIN.store(ISSUED_FD_BASE, Ordering::SeqCst);
        mapwatch::ISSUED_MAX.store(ISSUED_FD_LIMIT, Ordering::SeqCst);
        let devnull = unsafe {
            libc::open(c"/dev/null".as_ptr(), libc::O_RDWR | libc::O_CLOEXEC)
        };
        assert!(devnull >= 0 && devnull < ISSUED_FD_BASE);
        *g = Some(Simk {
            plan,
            rings: Vec::new(),
            reqs: Vec::new(),
            descs: Vec::new(),
            log: Vec::new(),
            written: Vec::new(),
            pending_out: OutRec::default(),
            map_pos: 0,
            violations: Vec::new(),
            next_serial: 1,
            next_fd: ISSUED_FD_BASE,
            devnull,
            cancel_default: CancelMode::Win,
            cancel_policy: HashMap::new(),
            sync_cancel: SyncCancelMode::All,
            fail_register: HashMap::new(),
            hold_all: false,
            hold_user_close: false,
            unsupported: Vec::new(),
            sqpoll_manual: false,
            would_block: 0,
            sqe_expect: HashMap::new(),
            pattern_salt: 0,
            enter_fault: None,
            idle_budget: 1,
            enter_returns: Vec::new(),
            zc_error_notif: true,
            zc_cancel_notif_immediate: false,
        });
    })
}

static LAST_LOG: Mutex<Vec<String>> = Mutex::new(Vec::new());

pub fn take_last_log() -> Vec<String> {
    std::mem::take(&mut *LAST_LOG.lock().unwrap())
}

/// End of execution: release everything simk holds.
pub fn shutdown() {
    talloc::untracked(|| {
        let mut g = lock();
        if let Some(old) = g.take() {
            if std::env::var_os("A10MC_DUMP").is_some() {
                *LAST_LOG.lock().unwrap() = old.log.iter().map(|e| format!("{e:?}")).collect();
            }
            old.teardown();
        }
        mapwatch::unmap_leftovers();
    })
}

fn set_errno(e: i32) -> i32 {
    unsafe { *libc::__errno_location() = e };
    -1
}

fn ret(res: i32) -> i32 {
    if res < 0 { set_errno(-res) } else { res }
}

fn raw_mmap(len: usize, fd: i32, off: i64) -> *mut u8 {
    let res = unsafe {
        libc::syscall(
            libc::SYS_mmap,
            0usize,
            len,
            libc::PROT_READ | libc::PROT_WRITE,
            libc::MAP_SHARED,
            fd,
            off,
        )
    };
    assert!(res != -1, "simk: mmap failed");
    res as *mut u8
}

fn raw_munmap(ptr: *mut u8, len: usize) {
    unsafe { libc::syscall(libc::SYS_munmap, ptr, len) };
}

fn page_round(len: usize) -> usize {
    (len + 4095) & !4095
}

fn thread_id() -> usize {
    unsafe { libc::pthread_self() as usize }
}

impl Simk {
    fn teardown(mut self) {
        for r in &mut self.rings {
            raw_munmap(r.sq_ptr, r.sq_len);
            raw_munmap(r.cq_ptr, r.cq_len);
            raw_munmap(r.sqes_ptr, r.sqes_len);
            if !r.closed {
                // a10 leaked the ring fd; close it so fd numbers stay stable.
                mapwatch::raw_close(r.fd);
            }
        }
        for d in &self.descs {
            if let (DescKind::Regular(fd), true) = (&d.kind, d.open) {
                mapwatch::raw_close(*fd);
            }
        }
        mapwatch::raw_close(self.devnull);
    }

    pub fn note(&mut self, s: String) {
        self.log.push(Event::Note(s));
    }

    pub fn violation(&mut self, class: &str, msg: String) {
        self.violations.push((class.to_string(), msg));
    }

    /// Retire rings whose descriptor a10 closed (seen by mapwatch).
    pub fn sync_closed_rings(&mut self) {
        let open = mapwatch::open_ring_fds();
        for r in &mut self.rings {
            if !r.closed && !open.contains(&r.fd) {
                r.closed = true;
                self.log.push(Event::RingClosed { ring: r.id });
            }
        }
    }

    /// Ring 0 exists and its descriptor is still open (once a10 has closed it the kernel thread is
    /// gone and whatever it had not consumed is discarded).
    pub fn ring0_open(&mut self) -> bool {
        self.sync_closed_rings();
        !self.rings.is_empty() && !self.rings[0].closed
    }

    pub fn ring_by_fd(&mut self, fd: i32) -> Option<usize> {
        self.sync_closed_rings();
        self.rings.iter().position(|r| r.fd == fd && !r.closed)
    }

    // ---------------------------------------------------------------- setup

    fn setup(&mut self, entries: u32, p: &mut Params) -> i32 {
        let params_in = *p;
        let res = self.setup_inner(entries, p);
        let ring = if res >= 0 { Some(self.rings.len() - 1) } else { None };
        self.log.push(Event::Setup { entries, params_in, result: res, ring });
        res
    }

    fn setup_inner(&mut self, entries: u32, p: &mut Params) -> i32 {
        let plan = self.plan.clone();
        if let Some(err) = plan.err {
            return -err;
        }
        let known = SETUP_IOPOLL | SETUP_SQPOLL | SETUP_SQ_AFF | SETUP_CQSIZE | SETUP_CLAMP
            | SETUP_ATTACH_WQ | SETUP_R_DISABLED | SETUP_SUBMIT_ALL | SETUP_COOP_TASKRUN
            | SETUP_TASKRUN_FLAG | SETUP_SINGLE_ISSUER | SETUP_DEFER_TASKRUN | SETUP_NO_SQARRAY;
        if p.flags & !known != 0 || p.resv != [0; 3] {
            return -libc::EINVAL;
        }
        let f = p.flags;
        if f & SETUP_SQPOLL != 0 && f & (SETUP_COOP_TASKRUN | SETUP_DEFER_TASKRUN | SETUP_TASKRUN_FLAG) != 0 {
            return -libc::EINVAL;
        }
        if f & SETUP_TASKRUN_FLAG != 0 && f & (SETUP_COOP_TASKRUN | SETUP_DEFER_TASKRUN) == 0 {
            return -libc::EINVAL;
        }
        if f & SETUP_DEFER_TASKRUN != 0 && f & SETUP_SINGLE_ISSUER == 0 {
            return -libc::EINVAL;
        }
        if f & SETUP_SQ_AFF != 0 && f & SETUP_SQPOLL == 0 {
            return -libc::EINVAL;
        }
        if f & SETUP_SQ_AFF != 0 && p.sq_thread_cpu >= 1024 {
            return -libc::EINVAL;
        }
        if f & SETUP_ATTACH_WQ != 0 {
            let wq = p.wq_fd as i32;
            if !self.rings.iter().any(|r| r.fd == wq && !r.closed) {
                return -libc::EBADF;
            }
        }
        let max = plan.max_entries;
        let mut sq = entries;
        if sq == 0 {
            return -libc::EINVAL;
        }
        if sq > max {
            if f & SETUP_CLAMP == 0 {
                return -libc::EINVAL;
            }
            sq = max;
        }
        sq = sq.next_power_of_two();
        let mut cq;
        if f & SETUP_CQSIZE != 0 {
            cq = p.cq_entries;
            if cq == 0 {
                return -libc::EINVAL;
            }
            if cq > 2 * max {
                if f & SETUP_CLAMP == 0 {
                    return -libc::EINVAL;
                }
                cq = 2 * max;
            }
            cq = cq.next_power_of_two();
            if cq < sq {
                return -libc::EINVAL;
            }
        } else {
            cq = 2 * sq;
        }
        if let Some(g) = plan.sq_grant {
            sq = g;
        }
        if let Some(g) = plan.cq_grant {
            cq = g;
        }

        // The ring "file".
        let fd = if plan.unmappable {
            unsafe { libc::fcntl(self.devnull, libc::F_DUPFD_CLOEXEC, 3) }
        } else {
            unsafe { libc::memfd_create(c"simk-ring".as_ptr(), libc::MFD_CLOEXEC) }
        };
        if fd < 0 {
            return -libc::ENOMEM;
        }
        assert!(fd < ISSUED_FD_BASE, "simk: ring fd {fd} collides with issued range");
        // (Room for the submission index array at offset 512 when the ring has one.)
        let sq_len = page_round(((SQ_FLAGS + 8) as usize).max(if f & SETUP_NO_SQARRAY == 0 { 512 + sq as usize * 4 } else { 0 }));
        let cq_len = page_round(CQ_CQES as usize + cq as usize * 16);
        let sqes_len = page_round(sq as usize * 64);
        let (sq_ptr, cq_ptr, sqes_ptr);
        if plan.unmappable {
            // Keep private anonymous memory so the rest of simk works.
            let anon = |len: usize| unsafe {
                libc::syscall(libc::SYS_mmap, 0usize, len, libc::PROT_READ | libc::PROT_WRITE,
                    libc::MAP_PRIVATE | libc::MAP_ANONYMOUS, -1, 0) as *mut u8
            };
            sq_ptr = anon(sq_len);
            cq_ptr = anon(cq_len);
            sqes_ptr = anon(sqes_len);
        } else {
            let total = OFF_SQES as usize + sqes_len;
            assert!(unsafe { libc::ftruncate(fd, total as i64) } == 0);
            sq_ptr = raw_mmap(sq_len, fd, OFF_SQ_RING);
            cq_ptr = raw_mmap(cq_len, fd, OFF_CQ_RING);
            sqes_ptr = raw_mmap(sqes_len, fd, OFF_SQES);
        }
        mapwatch::register_ring_fd(fd);

        let ring = RingState {
            id: self.rings.len(),
            fd,
            closed: false,
            flags: f,
            sq_entries: sq,
            cq_entries: cq,
            sq_ptr,
            sq_len,
            cq_ptr,
            cq_len,
            sqes_ptr,
            sqes_len,
            enabled: f & SETUP_R_DISABLED == 0,
            submitter: if f & SETUP_SINGLE_ISSUER != 0 && f & SETUP_R_DISABLED == 0 {
                Some(thread_id())
            } else {
                None
            },
            overflow: VecDeque::new(),
            deferred: VecDeque::new(),
            fixed: None,
            fixed_hint: 0,
            pbufs: Vec::new(),
            sq_thread_idle: false,
            posted: 0,
        };
        ring.sq_word(SQ_HEAD).store(plan.c0_sq, Ordering::SeqCst);
        ring.sq_word(SQ_TAIL).store(plan.c0_sq, Ordering::SeqCst);
        ring.sq_word(SQ_MASK).store(sq - 1, Ordering::SeqCst);
        ring.sq_word(SQ_ENTRIES).store(sq, Ordering::SeqCst);
        ring.cq_word(CQ_HEAD).store(plan.c0_cq, Ordering::SeqCst);
        ring.cq_word(CQ_TAIL).store(plan.c0_cq, Ordering::SeqCst);
        ring.cq_word(CQ_MASK).store(cq - 1, Ordering::SeqCst);
        ring.cq_word(CQ_ENTRIES).store(cq, Ordering::SeqCst);
        self.rings.push(ring);

        p.sq_entries = sq;
        p.cq_entries = cq;
        p.features = plan.features;
        p.sq_off = SqOffsets {
            head: SQ_HEAD,
            tail: SQ_TAIL,
            ring_mask: SQ_MASK,
            ring_entries: SQ_ENTRIES,
            flags: SQ_FLAGS,
            dropped: SQ_DROPPED,
            array: if f & SETUP_NO_SQARRAY != 0 { 0 } else { 512 },
            resv1: 0,
            user_addr: 0,
        };
        p.cq_off = CqOffsets {
            head: CQ_HEAD,
            tail: CQ_TAIL,
            ring_mask: CQ_MASK,
            ring_entries: CQ_ENTRIES,
            overflow: CQ_OVERFLOW,
            cqes: CQ_CQES,
            flags: CQ_FLAGS,
            resv1: 0,
            user_addr: 0,
        };
        fd
    }

    // ------------------------------------------------------------ descriptors

    /// A regular descriptor for the harness to wrap in an `AsyncFd`.
    pub fn new_regular_pub(&mut self) -> i32 {
        self.new_regular(0).1
    }

    /// Take a descriptor made outside the simulated kernel (a `dup`) into the table.
    pub fn adopt_regular(&mut self, fd: i32) -> u32 {
        let id = self.descs.len() as u32;
        self.descs.push(Desc { id, kind: DescKind::Regular(fd), origin: u32::MAX, open: true, closes: Vec::new() });
        id
    }

    fn new_regular(&mut self, origin: u32) -> (u32, i32) {
        let fd = unsafe { libc::fcntl(self.devnull, libc::F_DUPFD_CLOEXEC, self.next_fd) };
        assert!(fd >= self.next_fd && fd < ISSUED_FD_LIMIT, "simk: fd allocation failed ({fd})");
        self.next_fd = fd + 1;
        let id = self.descs.len() as u32;
        self.descs.push(Desc { id, kind: DescKind::Regular(fd), origin, open: true, closes: Vec::new() });
        (id, fd)
    }

    fn new_fixed(&mut self, ring: usize, origin: u32) -> Result<(u32, u32), i32> {
        let r = &mut self.rings[ring];
        // Linux: no file table means no allocation bitmap, and that is -ENFILE (K-conf: direct-alloc).
        let Some(table) = r.fixed.as_mut() else {
            return Err(-libc::ENFILE);
        };
        let n = table.len() as u32;
        let mut slot = None;
        for i in 0..n {
            let s = (r.fixed_hint + i) % n;
            if table[s as usize].is_none() {
                slot = Some(s);
                break;
            }
        }
        let Some(slot) = slot else {
            return Err(-libc::ENFILE);
        };
        r.fixed_hint = (slot + 1) % n;
        let id = self.descs.len() as u32;
        table[slot as usize] = Some(id);
        self.descs.push(Desc { id, kind: DescKind::Fixed { ring, slot }, origin, open: true, closes: Vec::new() });
        Ok((id, slot))
    }

    /// Allocate the descriptor a request asked for (`file_index` semantic).
    fn new_desc_for(&mut self, ring: usize, file_index: u32, origin: u32) -> i32 {
        if file_index == 0 {
            self.new_regular(origin).1
        } else if file_index == FILE_INDEX_ALLOC {
            match self.new_fixed(ring, origin) {
                Ok((_, slot)) => slot as i32,
                Err(e) => e,
            }
        } else {
            // Specific slot (file_index - 1); a10 never asks for this.
            -libc::EINVAL
        }
    }

    fn close_fixed(&mut self, ring: usize, slot: u32, via: &'static str) -> i32 {
        let r = &mut self.rings[ring];
        let Some(table) = r.fixed.as_mut() else {
            self.log.push(Event::Close { ring, desc: None, fd: slot as i32, fixed: true, res: -libc::ENXIO, via });
            return -libc::ENXIO;
        };
        if slot as usize >= table.len() {
            self.log.push(Event::Close { ring, desc: None, fd: slot as i32, fixed: true, res: -libc::EINVAL, via });
            return -libc::EINVAL;
        }
        match table[slot as usize].take() {
            Some(id) => {
                // Linux restarts the allocation search at a freed slot.
                r.fixed_hint = slot;
                let d = &mut self.descs[id as usize];
                d.open = false;
                d.closes.push(via);
                self.log.push(Event::Close { ring, desc: Some(id), fd: slot as i32, fixed: true, res: 0, via });
                0
            }
            None => {
                self.log.push(Event::Close { ring, desc: None, fd: slot as i32, fixed: true, res: -libc::EBADF, via });
                -libc::EBADF
            }
        }
    }

    fn close_regular(&mut self, ring: usize, fd: i32, via: &'static str) -> i32 {
        if (0..=2).contains(&fd) {
            self.violation("close-stdio", format!("CLOSE of standard stream descriptor {fd} via {via}"));
            self.log.push(Event::Close { ring, desc: None, fd, fixed: false, res: 0, via });
            return 0;
        }
        if let Some(d) = self.descs.iter_mut().find(|d| d.kind == DescKind::Regular(fd)) {
            let id = d.id;
            d.closes.push(via);
            if d.open {
                d.open = false;
                mapwatch::raw_close(fd);
                self.log.push(Event::Close { ring, desc: Some(id), fd, fixed: false, res: 0, via });
                0
            } else {
                self.log.push(Event::Close { ring, desc: Some(id), fd, fixed: false, res: -libc::EBADF, via });
                -libc::EBADF
            }
        } else {
            // A descriptor created by the harness itself.
            let res = mapwatch::raw_close(fd);
            let res = if res < 0 { -unsafe { *libc::__errno_location() } } else { 0 };
            self.log.push(Event::Close { ring, desc: None, fd, fixed: false, res, via });
            res
        }
    }

    /// Record a `close(2)` on an issued descriptor seen by mapwatch.
    pub fn sync_closes(&mut self) {
        let events = mapwatch::events();
        for ev in events.iter().skip(self.map_pos) {
            if let mapwatch::MapEvent::CloseIssued { fd, res } = ev {
                if let Some(d) = self.descs.iter_mut().find(|d| d.kind == DescKind::Regular(*fd)) {
                    let id = d.id;
                    if d.open {
                        d.open = false;
                        d.closes.push("close(2)");
                    } else {
                        d.closes.push("close(2)-again");
                    }
                    self.log.push(Event::Close { ring: usize::MAX, desc: Some(id), fd: *fd, fixed: false, res: *res, via: "close(2)" });
                }
            }
        }
        self.map_pos = events.len();
    }

    // ---------------------------------------------------------------- enter

    /// The calling thread becomes the task that owns a SINGLE_ISSUER ring (the harness builds rings
    /// on the explorer thread and hands them to the thread that plays the owner).
    pub fn adopt_submitter(&mut self, ring: usize) {
        if self.rings[ring].submitter.is_some() {
            self.rings[ring].submitter = Some(thread_id());
        }
    }

    fn check_submitter(&mut self, ring: usize) -> Result<(), i32> {
        let r = &mut self.rings[ring];
        if r.flags & SETUP_SINGLE_ISSUER != 0 {
            match r.submitter {
                Some(t) if t != thread_id() => return Err(-libc::EEXIST),
                Some(_) => {}
                None => {}
            }
        }
        Ok(())
    }

    /// Consume up to `n` submissions from ring `ring`.
    pub fn consume(&mut self, ring: usize, n: u32) -> u32 {
        let mut consumed = 0;
        while consumed < n {
            let r = &self.rings[ring];
            let head = r.sq_head();
            let tail = r.sq_tail();
            let pending = tail.wrapping_sub(head);
            if pending == 0 {
                break;
            }
            if pending > r.sq_entries {
                let msg = format!(
                    "submission queue overrun: tail-head={} > entries={} (head={head:#x} tail={tail:#x})",
                    pending, r.sq_entries
                );
                self.violations.push(("sq-overrun".to_string(), msg));
            }
            let r = &self.rings[ring];
            let mut index = head & (r.sq_entries - 1);
            if r.flags & SETUP_NO_SQARRAY == 0 {
                // Without IORING_SETUP_NO_SQARRAY the kernel goes through the index array in the SQ ring
                // (offset `sq_off.array`, 512 here): entry `head & mask` names the submission entry.
                let arr = unsafe { (r.sq_ptr as *const u8).add(512 + 4 * index as usize) as *const u32 };
                let named = unsafe { std::ptr::read_volatile(arr) };
                if named >= r.sq_entries {
                    // The kernel drops such an entry (and counts it in `dropped`); nothing is issued.
                    r.sq_word(SQ_HEAD).store(head.wrapping_add(1), Ordering::SeqCst);
                    self.violations.push(("sq-bad-index".to_string(), format!("the submission index array names entry {named} of {}", r.sq_entries)));
                    consumed += 1;
                    continue;
                }
                index = named;
            }
            let sqe = unsafe { std::ptr::read_volatile(r.sqe_slot(index)) };
            r.sq_word(SQ_HEAD).store(head.wrapping_add(1), Ordering::SeqCst);
            let serial = self.next_serial;
            self.next_serial += 1;
            self.log.push(Event::Consumed { ring, serial, index, head, sqe });
            self.issue(ring, serial, sqe);
            consumed += 1;
        }
        consumed
    }

    fn flush_overflow(&mut self, ring: usize) {
        loop {
            let r = &mut self.rings[ring];
            if r.overflow.is_empty() {
                r.set_sq_flag(SQ_CQ_OVERFLOW, false);
                break;
            }
            if r.cq_ready() >= r.cq_entries {
                break;
            }
            let (cqe, serial) = r.overflow.pop_front().unwrap();
            let pos = Self::write_cqe(r, cqe);
            self.written.push(Written { ring, pos, cqe, serial });
        }
    }

    /// Condition a blocked `enter(GETEVENTS)` waits for.
    pub fn enter_wait_ready(&mut self, ring: usize, min_complete: u32) -> bool {
        if ring >= self.rings.len() || self.rings[ring].closed {
            return true;
        }
        self.run_deferred(ring);
        self.flush_overflow(ring);
        let r = &self.rings[ring];
        r.cq_ready() >= min_complete.min(r.cq_entries)
    }

    fn run_deferred(&mut self, ring: usize) {
        while let Some(cqe) = self.rings[ring].deferred.pop_front() {
            self.post_now(ring, cqe, None);
        }
    }

    fn write_cqe(r: &mut RingState, cqe: Cqe) -> u32 {
        let tail = r.cq_tail();
        unsafe { std::ptr::write_volatile(r.cqe_slot(tail), cqe) };
        r.cq_word(CQ_TAIL).store(tail.wrapping_add(1), Ordering::SeqCst);
        tail
    }

    fn post_now(&mut self, ring: usize, cqe: Cqe, serial: Option<u32>) {
        let r = &mut self.rings[ring];
        r.posted += 1;
        let full = r.cq_ready() >= r.cq_entries || !r.overflow.is_empty();
        if full {
            r.overflow.push_back((cqe, serial));
            r.set_sq_flag(SQ_CQ_OVERFLOW, true);
        } else {
            let pos = Self::write_cqe(r, cqe);
            self.written.push(Written { ring, pos, cqe, serial });
        }
        self.log.push(Event::Posted { ring, cqe, serial, overflowed: full });
    }

    /// Post a CQE on `ring` (through the deferred list for DEFER_TASKRUN rings).
    pub fn post(&mut self, ring: usize, cqe: Cqe, serial: Option<u32>) {
        if self.rings[ring].closed {
            return;
        }
        self.post_now(ring, cqe, serial);
    }

    /// Post an arbitrary CQE (bookkeeping, padding, ...).
    pub fn post_raw(&mut self, ring: usize, user_data: u64, res: i32, flags: u32) {
        self.post(ring, Cqe { user_data, res, flags }, None);
    }

    // ------------------------------------------------------------- requests

    fn range(&self, addr: u64, len: usize, write: bool, what: &'static str) -> Range {
        let addr = addr as usize;
        let block = talloc::block_of(addr).filter(|b| b.live).map(|b| (b.serial, b.addr));
        Range { addr, len, write, what, block, snapshot: Vec::new() }
    }

    /// Decode the memory footprint of a request from the ABI.
    fn footprint(&mut self, sqe: &Sqe) -> Vec<Range> {
        let mut f = Vec::new();
        let op = sqe.opcode();
        let select = sqe.flags() & SQE_BUFFER_SELECT != 0;
        match op {
            OP_READ | OP_RECV => {
                if !select {
                    f.push(self.range(sqe.addr(), sqe.len() as usize, true, "buffer"));
                }
            }
            OP_WRITE | OP_SEND | OP_SEND_ZC => {
                f.push(self.range(sqe.addr(), sqe.len() as usize, false, "buffer"));
                if op != OP_WRITE && sqe.off() != 0 {
                    let alen = sqe.u16_at(44) as usize;
                    f.push(self.range(sqe.off(), alen, false, "address"));
                }
            }
            OP_READV | OP_WRITEV => {
                let nr = sqe.len() as usize;
                f.push(self.range(sqe.addr(), nr * 16, false, "iovec-array"));
                for i in 0..nr {
                    let (base, len) = unsafe { read_iovec(sqe.addr() as usize + i * 16) };
                    if len > 0 {
                        f.push(self.range(base as u64, len, op == OP_READV, "iovec-target"));
                    }
                }
            }
            OP_SENDMSG | OP_SENDMSG_ZC | OP_RECVMSG => {
                let write = op == OP_RECVMSG;
                let hdr = sqe.addr() as usize;
                f.push(self.range(hdr as u64, 56, write, "msghdr"));
                let m = unsafe { read_msghdr(hdr) };
                if m.name != 0 && m.namelen > 0 {
                    f.push(self.range(m.name as u64, m.namelen as usize, write, "msg-name"));
                }
                if m.iov != 0 {
                    f.push(self.range(m.iov as u64, m.iovlen * 16, false, "iovec-array"));
                    for i in 0..m.iovlen {
                        let (base, len) = unsafe { read_iovec(m.iov + i * 16) };
                        if len > 0 {
                            f.push(self.range(base as u64, len, write, "iovec-target"));
                        }
                    }
                }
                if m.control != 0 && m.controllen > 0 {
                    f.push(self.range(m.control as u64, m.controllen, write, "msg-control"));
                }
            }
            OP_ACCEPT => {
                if sqe.addr() != 0 {
                    let lenp = sqe.off() as usize;
                    f.push(self.range(lenp as u64, 4, true, "addr-len"));
                    let alen = unsafe { (lenp as *const u32).read_unaligned() } as usize;
                    f.push(self.range(sqe.addr(), alen, true, "address"));
                }
            }
            OP_CONNECT => {
                f.push(self.range(sqe.addr(), sqe.off() as usize, false, "address"));
            }
            OP_BIND => {
                f.push(self.range(sqe.addr(), sqe.off() as usize, false, "address"));
            }
            OP_OPENAT | OP_MKDIRAT | OP_UNLINKAT => {
                let len = unsafe { cstr_len(sqe.addr() as usize) };
                f.push(self.range(sqe.addr(), len + 1, false, "path"));
            }
            OP_RENAMEAT => {
                let len = unsafe { cstr_len(sqe.addr() as usize) };
                f.push(self.range(sqe.addr(), len + 1, false, "old-path"));
                let len = unsafe { cstr_len(sqe.off() as usize) };
                f.push(self.range(sqe.off(), len + 1, false, "new-path"));
            }
            OP_STATX => {
                let len = unsafe { cstr_len(sqe.addr() as usize) };
                f.push(self.range(sqe.addr(), len + 1, false, "path"));
                f.push(self.range(sqe.off(), 256, true, "statx"));
            }
            OP_FILES_UPDATE => {
                f.push(self.range(sqe.addr(), sqe.len() as usize * 4, true, "fd-array"));
            }
            OP_PIPE => {
                f.push(self.range(sqe.addr(), 8, true, "fd-pair"));
            }
            OP_WAITID => {
                if sqe.off() != 0 {
                    f.push(self.range(sqe.off(), 128, true, "siginfo"));
                }
            }
            OP_URING_CMD => {
                let cmd = sqe.u32_at(8);
                match cmd {
                    SOCKET_URING_OP_GETSOCKOPT => {
                        f.push(self.range(sqe.addr3(), sqe.u32_at(44) as usize, true, "optval"));
                    }
                    SOCKET_URING_OP_SETSOCKOPT => {
                        f.push(self.range(sqe.addr3(), sqe.u32_at(44) as usize, false, "optval"));
                    }
                    SOCKET_URING_OP_GETSOCKNAME => {
                        let lenp = sqe.addr3() as usize;
                        f.push(self.range(lenp as u64, 4, true, "addr-len"));
                        let alen = unsafe { (lenp as *const u32).read_unaligned() } as usize;
                        f.push(self.range(sqe.addr(), alen, true, "address"));
                    }
                    _ => {}
                }
            }
            _ => {}
        }
        for r in &mut f {
            if !r.write && r.len > 0 {
                r.snapshot = unsafe { std::slice::from_raw_parts(r.addr as *const u8, r.len) }.to_vec();
            }
        }
        f
    }

    fn issue(&mut self, ring: usize, serial: u32, sqe: Sqe) {
        let op = sqe.opcode();
        let user_data = sqe.user_data();
        if op == OP_NOP && sqe.0.iter().all(|b| *b == 0) {
            self.violation("sq-torn", format!("kernel consumed an all-zero submission entry (serial {serial})"));
        }
        let multishot = match op {
            OP_READ_MULTISHOT => true,
            OP_RECV | OP_RECVMSG => sqe.ioprio() & RECV_MULTISHOT != 0,
            OP_ACCEPT => sqe.ioprio() & ACCEPT_MULTISHOT != 0,
            OP_POLL_ADD => sqe.len() & POLL_ADD_MULTI != 0,
            _ => false,
        };
        let foot = self.footprint(&sqe);
        for r in &foot {
            if r.len > 0 {
                if let Some(b) = talloc::block_of(r.addr) {
                    if !b.live {
                        self.violations.push((
                            format!("use-after-free/{}/{}", opcode_name(op), r.what),
                            format!(
                                "{} {} range {:#x}+{} of request #{serial} was already freed when the kernel consumed the submission",
                                opcode_name(op), r.what, r.addr, r.len
                            ),
                        ));
                    }
                }
            }
        }
        if user_data > 3 {
            if let Some(b) = talloc::block_of((user_data & !1) as usize) {
                if !b.live {
                    self.violations.push((
                        format!("state-freed/{}", opcode_name(op)),
                        format!("operation state {:#x} of request #{serial} was already freed when the kernel consumed the submission", user_data & !1),
                    ));
                }
            }
        }
        let req = Req {
            serial,
            ring,
            sqe,
            user_data,
            opcode: op,
            foot,
            multishot,
            zc: matches!(op, OP_SEND_ZC | OP_SENDMSG_ZC),
            pool: sqe.flags() & SQE_BUFFER_SELECT != 0,
            awaiting_notif: false,
            done: false,
            cqes: 0,
            accepted: Vec::new(),
            outs: Vec::new(),
        };
        self.reqs.push(req);
        if self.unsupported.contains(&op) {
            self.finish(serial, -libc::EINVAL, 0);
            return;
        }
        // Requests the kernel completes inline.
        match op {
            OP_ASYNC_CANCEL => self.do_cancel(ring, serial, &sqe),
            OP_MSG_RING => self.do_msg_ring(ring, serial, &sqe),
            OP_CLOSE if !self.hold_all && !(self.hold_user_close && user_data > 3) => {
                self.complete(serial, Out::Default);
            }
            OP_NOP => self.finish(serial, 0, 0),
            _ => {}
        }
    }

    fn req_mut(&mut self, serial: u32) -> &mut Req {
        let i = self.reqs.iter().position(|r| r.serial == serial).expect("simk: unknown request serial");
        &mut self.reqs[i]
    }

    pub fn req(&self, serial: u32) -> &Req {
        self.reqs.iter().find(|r| r.serial == serial).expect("simk: unknown request serial")
    }

    /// Requests in flight (issued, final CQE not yet posted), oldest first.
    pub fn inflight(&self) -> Vec<u32> {
        self.reqs.iter().filter(|r| !r.done).map(|r| r.serial).collect()
    }

    pub fn inflight_by_ud(&self, user_data: u64) -> Option<u32> {
        self.reqs.iter().find(|r| !r.done && r.user_data == user_data).map(|r| r.serial)
    }

    /// All requests ever issued for `user_data`, in order.
    pub fn reqs_by_ud(&self, user_data: u64) -> Vec<u32> {
        self.reqs.iter().filter(|r| r.user_data == user_data).map(|r| r.serial).collect()
    }

    /// Post a CQE for request `serial`; `flags & F_MORE == 0` finishes it.
    fn finish(&mut self, serial: u32, res: i32, flags: u32) {
        let mut out = std::mem::take(&mut self.pending_out);
        out.res = res;
        out.flags = flags;
        let (ring, user_data, skip) = {
            let r = self.req_mut(serial);
            r.cqes += 1;
            if flags & CQE_F_MORE == 0 {
                r.done = true;
            }
            (r.ring, r.user_data, r.sqe.flags() & SQE_CQE_SKIP_SUCCESS != 0)
        };
        out.skipped = skip && res >= 0;
        self.req_mut(serial).outs.push(out);
        if skip && res >= 0 {
            self.log.push(Event::Skipped { ring, serial, res });
            return;
        }
        self.post(ring, Cqe { user_data, res, flags }, Some(serial));
    }

    /// Fail request `serial` with `res` (< 0). Zero-copy sends may still owe a notification.
    fn fail(&mut self, serial: u32, res: i32) {
        let zc = self.req(serial).zc;
        if zc && self.zc_error_notif {
            self.req_mut(serial).awaiting_notif = true;
            self.finish(serial, res, CQE_F_MORE);
        } else {
            self.finish(serial, res, 0);
        }
    }

    fn do_cancel(&mut self, ring: usize, serial: u32, sqe: &Sqe) {
        let target_ud = sqe.addr();
        let cancel_flags = sqe.op_flags();
        let target = if cancel_flags == 0 {
            self.reqs
                .iter()
                .find(|r| !r.done && r.ring == ring && r.user_data == target_ud && r.serial != serial)
                .map(|r| r.serial)
        } else {
            None
        };
        let res = match target {
            None => -libc::ENOENT,
            Some(t) => {
                let mode = self.cancel_policy.get(&target_ud).copied().unwrap_or(self.cancel_default);
                let awaiting = self.req(t).awaiting_notif;
                if mode == CancelMode::Lose || awaiting {
                    -libc::EALREADY
                } else {
                    self.fail(t, -libc::ECANCELED);
                    if self.zc_cancel_notif_immediate && self.req(t).awaiting_notif {
                        self.req_mut(t).awaiting_notif = false;
                        self.finish(t, 0, CQE_F_NOTIF);
                    }
                    0
                }
            }
        };
        self.log.push(Event::CancelSeen { ring, target_ud, found: target, res, sqe: *sqe });
        self.finish(serial, res, 0);
    }

    fn do_msg_ring(&mut self, ring: usize, serial: u32, sqe: &Sqe) {
        let target_fd = sqe.fd();
        let res = match self.rings.iter().position(|r| r.fd == target_fd && !r.closed) {
            None => -libc::EBADFD,
            Some(target) => {
                if sqe.addr() != MSG_DATA {
                    -libc::EINVAL
                } else {
                    let cqe = Cqe { user_data: sqe.off(), res: sqe.len() as i32, flags: 0 };
                    self.post(target, cqe, None);
                    0
                }
            }
        };
        let _ = ring;
        self.finish(serial, res, 0);
    }

    fn pattern(&self, serial: u32, i: usize) -> u8 {
        (serial as usize * 37 + i * 11 + 1 + self.pattern_salt as usize) as u8 | 1
    }

    /// Check the request's memory is still what was handed to the kernel (C01).
    fn check_foot(&mut self, serial: u32, writing: bool) {
        let req = self.req(serial).clone();
        for r in &req.foot {
            if r.len == 0 {
                continue;
            }
            let now = talloc::block_of(r.addr);
            let desc = format!(
                "{} {} range {:#x}+{} of request #{} ({})",
                opcode_name(req.opcode),
                r.what,
                r.addr,
                r.len,
                serial,
                if r.write { "kernel writes" } else { "kernel reads" }
            );
            match (r.block, now) {
                (Some((s, _)), Some(b)) if b.serial == s && b.live => {
                    if r.addr + r.len > b.addr + b.size {
                        self.violation("footprint-oob", format!("{desc} extends past its allocation"));
                    }
                }
                (Some(_), Some(b)) if !b.live => {
                    self.violation(
                        &format!("use-after-free/{}/{}", opcode_name(req.opcode), r.what),
                        format!("{desc} was freed before the final completion"),
                    );
                }
                (Some(_), _) => {
                    self.violation(
                        &format!("use-after-free/{}/{}", opcode_name(req.opcode), r.what),
                        format!("{desc} is no longer the allocation it was at submission"),
                    );
                }
                (None, Some(b)) if !b.live => {
                    self.violation(
                        &format!("use-after-free/{}/{}", opcode_name(req.opcode), r.what),
                        format!("{desc} lies in freed memory"),
                    );
                }
                (None, _) => {
                    // Untracked memory (static data, harness memory): allowed to read.
                    if r.write && writing && !is_mapped_rw(r.addr, r.len) {
                        self.violation(
                            &format!("bad-target/{}/{}", opcode_name(req.opcode), r.what),
                            format!("{desc} is not writable memory"),
                        );
                    }
                }
            }
            if !r.write {
                let cur = unsafe { std::slice::from_raw_parts(r.addr as *const u8, r.len) };
                if cur != &r.snapshot[..] {
                    self.violation(
                        &format!("input-changed/{}/{}", opcode_name(req.opcode), r.what),
                        format!("{desc} changed between submission and completion"),
                    );
                }
            }
        }
    }

    fn select_buffer(&mut self, ring: usize, bgid: u16) -> Result<(usize, u32, u16), i32> {
        let r = &mut self.rings[ring];
        let Some(pb) = r.pbufs.iter_mut().find(|p| p.bgid == bgid) else {
            return Err(-libc::ENOBUFS);
        };
        let tail = unsafe { &*((pb.addr + 14) as *const AtomicU16) }.load(Ordering::SeqCst);
        if tail == pb.head {
            return Err(-libc::ENOBUFS);
        }
        let idx = (pb.head as u32 & (pb.entries - 1)) as usize;
        let e = unsafe { std::ptr::read_volatile((pb.addr + idx * 16) as *const BufRingEntry) };
        pb.head = pb.head.wrapping_add(1);
        Ok((e.addr as usize, e.len, e.bid))
    }

    /// Fill `n` bytes front to back into the write ranges named `what`.
    fn fill(&mut self, serial: u32, what: &'static str, n: usize) {
        let req = self.req(serial).clone();
        let mut left = n;
        let mut i = 0;
        for r in req.foot.iter().filter(|r| r.write && r.what == what) {
            let take = left.min(r.len);
            for j in 0..take {
                let b = self.pattern(serial, i);
                unsafe { (r.addr as *mut u8).add(j).write_volatile(b) };
                self.pending_out.data.push(b);
                i += 1;
            }
            left -= take;
            if left == 0 {
                break;
            }
        }
    }

    /// Bytes the kernel would have written for request `serial` (its pattern).
    pub fn expected_bytes(&self, serial: u32, n: usize) -> Vec<u8> {
        (0..n).map(|i| self.pattern(serial, i)).collect()
    }

    fn capacity(&self, serial: u32, what: &'static str, write: bool) -> usize {
        self.req(serial).foot.iter().filter(|r| r.write == write && r.what == what).map(|r| r.len).sum()
    }

    /// Complete a (non-pool) READ/RECV with exactly `bytes`, followed in the
    /// caller's buffer (beyond the returned count) by `after`.
    pub fn complete_data(&mut self, serial: u32, bytes: &[u8], after: &[u8]) {
        let req = self.req(serial).clone();
        assert!(!req.done && matches!(req.opcode, OP_READ | OP_RECV) && !req.pool);
        self.check_foot(serial, true);
        let Some(r) = req.foot.iter().find(|r| r.write && r.what == "buffer") else {
            self.finish(serial, 0, 0);
            return;
        };
        let n = bytes.len().min(r.len);
        unsafe { std::ptr::copy_nonoverlapping(bytes.as_ptr(), r.addr as *mut u8, n) };
        let m = after.len().min(r.len - n);
        unsafe { std::ptr::copy_nonoverlapping(after.as_ptr(), (r.addr + n) as *mut u8, m) };
        self.pending_out.data = bytes[..n].to_vec();
        self.finish(serial, n as i32, 0);
    }

    /// Complete request `serial` with outcome `out`.
    pub fn complete(&mut self, serial: u32, out: Out) {
        let req = self.req(serial).clone();
        assert!(!req.done, "simk: request #{serial} already completed");
        let ring = req.ring;
        if self.rings[ring].closed {
            self.req_mut(serial).done = true;
            return;
        }
        let sqe = req.sqe;
        let op = req.opcode;
        if out == Out::Notif {
            assert!(req.awaiting_notif);
            self.check_foot(serial, false);
            self.req_mut(serial).awaiting_notif = false;
            self.finish(serial, 0, CQE_F_NOTIF);
            return;
        }
        let (explicit, more) = match out {
            Out::Default => (None, false),
            Out::Res(r) => (Some(r), false),
            Out::More(r) if r == i32::MIN => (None, true),
            Out::More(r) => (Some(r), true),
            Out::ZeroNoBuf => (Some(0), false),
            Out::Notif => unreachable!(),
        };
        let more_flag = if more { CQE_F_MORE } else { 0 };
        if let Some(e) = explicit {
            if e < 0 {
                // Errors touch no memory (but the kernel may have read inputs).
                self.check_foot(serial, false);
                if req.zc {
                    self.fail(serial, e);
                } else {
                    self.finish(serial, e, more_flag);
                }
                return;
            }
        }
        self.check_foot(serial, true);
        match op {
            OP_READ | OP_RECV | OP_READ_MULTISHOT => {
                if req.pool {
                    if out == Out::ZeroNoBuf {
                        self.finish(serial, 0, more_flag);
                        return;
                    }
                    match self.select_buffer(ring, sqe.buf_group()) {
                        Err(e) => self.finish(serial, e, 0),
                        Ok((addr, len, bid)) => {
                            let n = explicit.map_or(len as usize, |e| (e as usize).min(len as usize));
                            if !is_mapped_rw(addr, len as usize) {
                                self.violation("pool-bad-buffer", format!("buffer ring entry bid={bid} addr={addr:#x} len={len} is not writable memory"));
                            } else {
                                for j in 0..n {
                                    let b = self.pattern(serial.wrapping_add(req.cqes * 101), j);
                                    unsafe { (addr as *mut u8).add(j).write_volatile(b) };
                                    self.pending_out.data.push(b);
                                }
                            }
                            let flags = CQE_F_BUFFER | ((bid as u32) << CQE_BUFFER_SHIFT) | more_flag;
                            self.finish(serial, n as i32, flags);
                        }
                    }
                } else {
                    let cap = self.capacity(serial, "buffer", true);
                    let n = explicit.map_or(cap, |e| (e as usize).min(cap));
                    self.fill(serial, "buffer", n);
                    self.finish(serial, n as i32, more_flag);
                }
            }
            OP_READV => {
                let cap = self.capacity(serial, "iovec-target", true);
                let n = explicit.map_or(cap, |e| (e as usize).min(cap));
                self.fill(serial, "iovec-target", n);
                self.finish(serial, n as i32, 0);
            }
            OP_RECVMSG if req.pool => {
                // Buffer select on recvmsg: at most one iovec, replaced by the selected buffer
                // (its whole length when the iovec's length is 0).
                let hdr = sqe.addr() as usize;
                let m = unsafe { read_msghdr(hdr) };
                if m.iovlen > 1 {
                    self.finish(serial, -libc::EINVAL, 0);
                    return;
                }
                let want_len = if m.iovlen == 1 && m.iov != 0 { unsafe { read_iovec(m.iov) }.1 } else { 0 };
                match self.select_buffer(ring, sqe.buf_group()) {
                    Err(e) => self.finish(serial, e, 0),
                    Ok((addr, len, bid)) => {
                        let len = if want_len == 0 { len as usize } else { want_len.min(len as usize) };
                        let n = explicit.map_or(len, |e| (e as usize).min(len));
                        if !is_mapped_rw(addr, len) {
                            self.violation("pool-bad-buffer", format!("buffer ring entry bid={bid} addr={addr:#x} len={len} is not writable memory"));
                        } else {
                            for j in 0..n {
                                let b = self.pattern(serial.wrapping_add(req.cqes * 101), j);
                                unsafe { (addr as *mut u8).add(j).write_volatile(b) };
                                self.pending_out.data.push(b);
                            }
                        }
                        if m.name != 0 && m.namelen >= 16 {
                            let sa = sockaddr_in_bytes(serial);
                            unsafe { std::ptr::copy_nonoverlapping(sa.as_ptr(), m.name as *mut u8, 16) };
                            unsafe { ((hdr + 8) as *mut u32).write_unaligned(16) };
                            self.pending_out.addr = sa.to_vec();
                        }
                        unsafe { ((hdr + 48) as *mut i32).write_unaligned(0) };
                        let flags = CQE_F_BUFFER | ((bid as u32) << CQE_BUFFER_SHIFT) | more_flag;
                        self.finish(serial, n as i32, flags);
                    }
                }
            }
            OP_RECVMSG => {
                let cap = self.capacity(serial, "iovec-target", true);
                let n = explicit.map_or(cap, |e| (e as usize).min(cap));
                self.fill(serial, "iovec-target", n);
                // Address: an IPv4 sockaddr if there's room.
                let hdr = sqe.addr() as usize;
                let m = unsafe { read_msghdr(hdr) };
                if m.name != 0 && m.namelen >= 16 {
                    let sa = sockaddr_in_bytes(serial);
                    unsafe { std::ptr::copy_nonoverlapping(sa.as_ptr(), m.name as *mut u8, 16) };
                    unsafe { ((hdr + 8) as *mut u32).write_unaligned(16) };
                    self.pending_out.addr = sa.to_vec();
                }
                unsafe { ((hdr + 48) as *mut i32).write_unaligned(0) };
                self.finish(serial, n as i32, more_flag);
            }
            OP_WRITE | OP_SEND | OP_SEND_ZC | OP_WRITEV | OP_SENDMSG | OP_SENDMSG_ZC => {
                let what = if matches!(op, OP_WRITE | OP_SEND | OP_SEND_ZC) { "buffer" } else { "iovec-target" };
                let cap = self.capacity(serial, what, false);
                let n = explicit.map_or(cap, |e| (e as usize).min(cap));
                let mut bytes = Vec::new();
                for r in req.foot.iter().filter(|r| !r.write && r.what == what) {
                    bytes.extend_from_slice(&r.snapshot);
                }
                bytes.truncate(n);
                self.req_mut(serial).accepted = bytes;
                if req.zc {
                    self.req_mut(serial).awaiting_notif = true;
                    self.finish(serial, n as i32, CQE_F_MORE);
                } else {
                    self.finish(serial, n as i32, 0);
                }
            }
            OP_ACCEPT => {
                let res = self.new_desc_for(ring, sqe.file_index(), serial);
                if res >= 0 && sqe.addr() != 0 {
                    let lenp = sqe.off() as usize;
                    let alen = unsafe { (lenp as *const u32).read_unaligned() } as usize;
                    let sa = sockaddr_in_bytes(serial.wrapping_add(req.cqes));
                    let n = alen.min(16);
                    unsafe { std::ptr::copy_nonoverlapping(sa.as_ptr(), sqe.addr() as *mut u8, n) };
                    unsafe { (lenp as *mut u32).write_unaligned(16) };
                    self.pending_out.addr = sa[..n].to_vec();
                }
                self.finish(serial, res, if res >= 0 { more_flag } else { 0 });
            }
            OP_OPENAT | OP_SOCKET => {
                let res = self.new_desc_for(ring, sqe.file_index(), serial);
                self.finish(serial, res, 0);
            }
            OP_FIXED_FD_INSTALL => {
                let slot = sqe.fd() as u32;
                let ok = sqe.flags() & SQE_FIXED_FILE != 0
                    && self.rings[ring].fixed.as_ref().is_some_and(|t| t.get(slot as usize).is_some_and(|s| s.is_some()));
                let res = if ok { self.new_regular(serial).1 } else { -libc::EBADF };
                self.finish(serial, res, 0);
            }
            OP_FILES_UPDATE => {
                let nr = sqe.len() as usize;
                let arr = sqe.addr() as usize;
                let mut res = 0;
                if sqe.off() as u32 == FILE_INDEX_ALLOC {
                    for i in 0..nr {
                        match self.new_fixed(ring, serial) {
                            Ok((_, slot)) => {
                                unsafe { ((arr + i * 4) as *mut i32).write_unaligned(slot as i32) };
                                self.pending_out.data.extend_from_slice(&(slot as i32).to_ne_bytes());
                                res += 1;
                            }
                            Err(e) => {
                                if res == 0 {
                                    res = e;
                                }
                                break;
                            }
                        }
                    }
                } else {
                    for i in 0..nr {
                        let fd = unsafe { ((arr + i * 4) as *const i32).read_unaligned() };
                        if fd == -1 {
                            let r = self.close_fixed(ring, sqe.off() as u32 + i as u32, "files-update-sqe");
                            if r < 0 && res == 0 {
                                res = r;
                                break;
                            }
                        }
                        res += 1;
                    }
                }
                self.finish(serial, res, 0);
            }
            OP_PIPE => {
                let a = self.new_desc_for(ring, sqe.file_index(), serial);
                let b = self.new_desc_for(ring, sqe.file_index(), serial);
                if a < 0 || b < 0 {
                    // Linux takes back the end it had installed (K-conf: pipe-direct).
                    if a >= 0 {
                        if sqe.file_index() != 0 {
                            self.close_fixed(ring, a as u32, "pipe-undo");
                        } else {
                            self.close_regular(ring, a, "pipe-undo");
                        }
                    }
                    self.finish(serial, a.min(b), 0);
                } else {
                    let arr = sqe.addr() as usize;
                    unsafe {
                        (arr as *mut i32).write_unaligned(a);
                        ((arr + 4) as *mut i32).write_unaligned(b);
                    }
                    self.pending_out.data.extend_from_slice(&a.to_ne_bytes());
                    self.pending_out.data.extend_from_slice(&b.to_ne_bytes());
                    self.finish(serial, 0, 0);
                }
            }
            OP_CLOSE => {
                let res = if sqe.file_index() != 0 {
                    self.close_fixed(ring, sqe.file_index() - 1, "close-sqe")
                } else {
                    self.close_regular(ring, sqe.fd(), "close-sqe")
                };
                self.finish(serial, res, 0);
            }
            OP_STATX => {
                self.fill(serial, "statx", 256);
                self.finish(serial, 0, 0);
            }
            OP_WAITID => {
                self.fill(serial, "siginfo", 128);
                self.finish(serial, 0, 0);
            }
            OP_URING_CMD => {
                let cmd = sqe.u32_at(8);
                match cmd {
                    SOCKET_URING_OP_GETSOCKOPT => {
                        let cap = self.capacity(serial, "optval", true);
                        let n = explicit.map_or(cap, |e| (e as usize).min(cap));
                        self.fill(serial, "optval", n);
                        self.finish(serial, n as i32, 0);
                    }
                    SOCKET_URING_OP_GETSOCKNAME => {
                        let lenp = sqe.addr3() as usize;
                        let alen = unsafe { (lenp as *const u32).read_unaligned() } as usize;
                        let sa = sockaddr_in_bytes(serial);
                        let n = alen.min(16);
                        unsafe { std::ptr::copy_nonoverlapping(sa.as_ptr(), sqe.addr() as *mut u8, n) };
                        unsafe { (lenp as *mut u32).write_unaligned(16) };
                        self.pending_out.addr = sa[..n].to_vec();
                        self.finish(serial, 0, 0);
                    }
                    _ => self.finish(serial, explicit.unwrap_or(0), 0),
                }
            }
            OP_POLL_ADD => {
                self.finish(serial, explicit.unwrap_or(1), more_flag);
            }
            OP_SPLICE => {
                let n = explicit.unwrap_or(sqe.len() as i32);
                self.finish(serial, n, 0);
            }
            _ => {
                self.finish(serial, explicit.unwrap_or(0), more_flag);
            }
        }
    }

    // -------------------------------------------------------------- register

    fn register(&mut self, fd: i32, opcode: u32, arg: *const c_void, nr_args: u32) -> i32 {
        if opcode == REGISTER_SEND_MSG_RING && fd == -1 {
            let sqe = unsafe { std::ptr::read_unaligned(arg.cast::<Sqe>()) };
            let res = if sqe.opcode() != OP_MSG_RING || nr_args != 1 {
                -libc::EINVAL
            } else {
                match self.rings.iter().position(|r| r.fd == sqe.fd() && !r.closed) {
                    None => -libc::EBADFD,
                    Some(target) => {
                        let cqe = Cqe { user_data: sqe.off(), res: sqe.len() as i32, flags: 0 };
                        self.post(target, cqe, None);
                        0
                    }
                }
            };
            self.log.push(Event::Register { ring: -1, opcode, ret: res });
            return res;
        }
        let Some(ring) = self.ring_by_fd(fd) else {
            self.log.push(Event::Register { ring: -2, opcode, ret: -libc::EBADF });
            return -libc::EBADF;
        };
        let res = self.register_inner(ring, opcode, arg, nr_args);
        self.log.push(Event::Register { ring: ring as i64, opcode, ret: res });
        res
    }

    fn register_inner(&mut self, ring: usize, opcode: u32, arg: *const c_void, nr_args: u32) -> i32 {
        if let Some(e) = self.fail_register.get(&opcode) {
            return -*e;
        }
        {
            let r = &self.rings[ring];
            if r.flags & SETUP_SINGLE_ISSUER != 0 {
                if let Some(t) = r.submitter {
                    if t != thread_id() {
                        return -libc::EEXIST;
                    }
                }
            }
        }
        match opcode {
            REGISTER_ENABLE_RINGS => {
                let r = &mut self.rings[ring];
                if r.enabled {
                    return -libc::EBADFD;
                }
                r.enabled = true;
                if r.flags & SETUP_SINGLE_ISSUER != 0 {
                    r.submitter = Some(thread_id());
                }
                0
            }
            REGISTER_FILES2 => {
                let reg = unsafe { std::ptr::read_unaligned(arg.cast::<RsrcRegister>()) };
                if nr_args as usize != size_of::<RsrcRegister>() {
                    return -libc::EINVAL;
                }
                let r = &mut self.rings[ring];
                if r.fixed.is_some() {
                    return -libc::EBUSY;
                }
                if reg.flags & RSRC_REGISTER_SPARSE == 0 || reg.data != 0 || reg.tags != 0 {
                    return -libc::EINVAL;
                }
                if reg.nr == 0 {
                    return -libc::EINVAL;
                }
                if reg.nr > 1 << 20 {
                    return -libc::EMFILE;
                }
                r.fixed = Some(vec![None; reg.nr as usize]);
                0
            }
            REGISTER_FILES_UPDATE => {
                let up = unsafe { std::ptr::read_unaligned(arg.cast::<FilesUpdate>()) };
                let mut done = 0;
                for i in 0..nr_args {
                    let fd = unsafe { ((up.fds as usize + i as usize * 4) as *const i32).read_unaligned() };
                    if fd == -1 {
                        let r = self.close_fixed(ring, up.offset + i, "files-update-register");
                        // Clearing a slot that is already empty is not an error
                        // (K-conf: the real kernel returns the count).
                        if r < 0 && r != -libc::EBADF {
                            return if done > 0 { done } else { r };
                        }
                    }
                    done += 1;
                }
                done
            }
            REGISTER_PBUF_RING => {
                let reg = unsafe { std::ptr::read_unaligned(arg.cast::<BufReg>()) };
                if nr_args != 1 || reg.resv != [0; 3] || reg.flags != 0 {
                    return -libc::EINVAL;
                }
                if reg.ring_addr == 0 || reg.ring_addr & 4095 != 0 {
                    return -libc::EFAULT;
                }
                if !reg.ring_entries.is_power_of_two() || reg.ring_entries >= 65536 {
                    return -libc::EINVAL;
                }
                let r = &mut self.rings[ring];
                if r.pbufs.iter().any(|p| p.bgid == reg.bgid) {
                    return -libc::EEXIST;
                }
                r.pbufs.push(PbufRing { addr: reg.ring_addr as usize, entries: reg.ring_entries, bgid: reg.bgid, head: 0 });
                0
            }
            UNREGISTER_PBUF_RING => {
                let reg = unsafe { std::ptr::read_unaligned(arg.cast::<BufReg>()) };
                let r = &mut self.rings[ring];
                match r.pbufs.iter().position(|p| p.bgid == reg.bgid) {
                    Some(i) => {
                        r.pbufs.remove(i);
                        0
                    }
                    None => -libc::ENOENT,
                }
            }
            REGISTER_SYNC_CANCEL => match self.sync_cancel {
                SyncCancelMode::Fail(e) => -e,
                SyncCancelMode::Nothing => 0,
                SyncCancelMode::All => {
                    let targets: Vec<u32> = self
                        .reqs
                        .iter()
                        .filter(|r| !r.done && r.ring == ring && !r.awaiting_notif)
                        .map(|r| r.serial)
                        .collect();
                    let n = targets.len() as i32;
                    for t in targets {
                        self.fail(t, -libc::ECANCELED);
                        if self.req(t).awaiting_notif {
                            // Nothing was sent: the notification follows at once.
                            self.req_mut(t).awaiting_notif = false;
                            self.finish(t, 0, CQE_F_NOTIF);
                        }
                    }
                    n
                }
            },
            _ => -libc::EINVAL,
        }
    }
}

struct MsgHdr {
    name: usize,
    namelen: u32,
    iov: usize,
    iovlen: usize,
    control: usize,
    controllen: usize,
}

unsafe fn read_msghdr(addr: usize) -> MsgHdr {
    unsafe {
        MsgHdr {
            name: (addr as *const usize).read_unaligned(),
            namelen: ((addr + 8) as *const u32).read_unaligned(),
            iov: ((addr + 16) as *const usize).read_unaligned(),
            iovlen: ((addr + 24) as *const usize).read_unaligned(),
            control: ((addr + 32) as *const usize).read_unaligned(),
            controllen: ((addr + 40) as *const usize).read_unaligned(),
        }
    }
}

unsafe fn read_iovec(addr: usize) -> (usize, usize) {
    unsafe { ((addr as *const usize).read_unaligned(), ((addr + 8) as *const usize).read_unaligned()) }
}

unsafe fn cstr_len(addr: usize) -> usize {
    if addr == 0 {
        return 0;
    }
    unsafe { libc::strlen(addr as *const libc::c_char) }
}

pub fn sockaddr_in_bytes(seed: u32) -> [u8; 16] {
    let mut b = [0u8; 16];
    b[0..2].copy_from_slice(&(libc::AF_INET as u16).to_ne_bytes());
    b[2..4].copy_from_slice(&((1000 + seed as u16) as u16).to_be_bytes());
    b[4..8].copy_from_slice(&[127, 0, (seed >> 8) as u8, seed as u8]);
    b
}

/// Is `[addr, addr+len)` mapped readable+writable? Uses `mincore`-free probing
/// through `process_vm_readv` on ourselves (never faults).
pub fn is_mapped_rw(addr: usize, len: usize) -> bool {
    if len == 0 {
        return true;
    }
    if addr == 0 {
        return false;
    }
    // Probe with a write of the same bytes through /proc-less syscall:
    // process_vm_writev to self validates write permission without faulting.
    let mut buf = vec![0u8; len.min(4096)];
    let mut off = 0;
    while off < len {
        let n = (len - off).min(buf.len());
        let local = libc::iovec { iov_base: buf.as_mut_ptr().cast(), iov_len: n };
        let remote = libc::iovec { iov_base: (addr + off) as *mut c_void, iov_len: n };
        let pid = unsafe { libc::getpid() };
        let r = unsafe { libc::process_vm_readv(pid, &local, 1, &remote, 1, 0) };
        if r != n as isize {
            return false;
        }
        let r = unsafe { libc::process_vm_writev(pid, &local, 1, &remote, 1, 0) };
        if r != n as isize {
            return false;
        }
        off += n;
    }
    true
}

/// talloc callback: a tracked block is being freed.
pub fn on_free(b: talloc::Block) {
    let Ok(mut g) = SIMK.try_lock() else { return };
    let Some(k) = g.as_mut() else { return };
    let overlaps = |addr: usize, len: usize| addr < b.addr + b.size && b.addr < addr + len.max(1);
    let mut found = Vec::new();
    for r in k.reqs.iter().filter(|r| !r.done && !k.rings[r.ring].closed) {
        if r.user_data > 3 && overlaps((r.user_data & !1) as usize, 1) {
            found.push((
                format!("state-freed/{}", opcode_name(r.opcode)),
                format!("operation state {:#x} of in-flight request #{} ({}) freed before its final completion", r.user_data & !1, r.serial, opcode_name(r.opcode)),
            ));
        }
        for f in &r.foot {
            if f.len > 0 && overlaps(f.addr, f.len) {
                found.push((
                    format!("freed-in-flight/{}/{}", opcode_name(r.opcode), f.what),
                    format!("{} {} range {:#x}+{} of in-flight request #{} freed (block #{} {:#x}+{}) before its final completion",
                        opcode_name(r.opcode), f.what, f.addr, f.len, r.serial, b.serial, b.addr, b.size),
                ));
            }
        }
    }
    // Submissions published but not yet consumed.
    for ri in 0..k.rings.len() {
        if k.rings[ri].closed {
            continue;
        }
        let (head, tail, entries) = (k.rings[ri].sq_head(), k.rings[ri].sq_tail(), k.rings[ri].sq_entries);
        let pending = tail.wrapping_sub(head).min(entries);
        for i in 0..pending {
            let sqe = unsafe { std::ptr::read_volatile(k.rings[ri].sqe_slot(head.wrapping_add(i))) };
            let ud = sqe.user_data();
            if ud > 3 && overlaps((ud & !1) as usize, 1) {
                found.push((
                    format!("state-freed/{}", opcode_name(sqe.opcode())),
                    format!("operation state {:#x} of a queued {} submission freed before the kernel consumed it", ud & !1, opcode_name(sqe.opcode())),
                ));
            }
            let a = sqe.addr() as usize;
            if matches!(sqe.opcode(), OP_READ | OP_WRITE | OP_SEND | OP_RECV | OP_SEND_ZC) && sqe.flags() & SQE_BUFFER_SELECT == 0 && overlaps(a, sqe.len() as usize) {
                found.push((
                    format!("freed-in-flight/{}/buffer", opcode_name(sqe.opcode())),
                    format!("buffer {:#x}+{} of a queued {} submission freed before the kernel consumed it", a, sqe.len(), opcode_name(sqe.opcode())),
                ));
            }
        }
    }
    k.violations.extend(found);
}

// ---------------------------------------------------------------- entry points

unsafe fn k_setup(entries: u32, params: *mut c_void) -> i32 {
    talloc::untracked(|| {
        let mut g = lock();
        let k = g.as_mut().expect("simk not reset");
        let p = unsafe { &mut *params.cast::<Params>() };
        ret(k.setup(entries, p))
    })
}

unsafe fn k_register(fd: i32, opcode: u32, arg: *const c_void, nr_args: u32) -> i32 {
    talloc::untracked(|| {
        crate::schx::syscall_point("register");
        let mut g = lock();
        let k = g.as_mut().expect("simk not reset");
        ret(k.register(fd, opcode, arg, nr_args))
    })
}

unsafe fn k_enter(
    fd: i32,
    to_submit: u32,
    min_complete: u32,
    flags: u32,
    arg: *const c_void,
    size: usize,
) -> i32 {
    talloc::untracked(|| {
        crate::schx::syscall_point("enter");
        let timeout = if flags & ENTER_EXT_ARG != 0 && !arg.is_null() && size == size_of::<GeteventsArg>() {
            let a = unsafe { std::ptr::read_unaligned(arg.cast::<GeteventsArg>()) };
            if a.ts != 0 {
                let ts = unsafe { std::ptr::read_unaligned(a.ts as *const KernelTimespec) };
                Some((ts.tv_sec, ts.tv_nsec))
            } else {
                None
            }
        } else {
            None
        };
        let (ring, submitted) = {
            let mut g = lock();
            let k = g.as_mut().expect("simk not reset");
            let Some(ring) = k.ring_by_fd(fd) else {
                return set_errno(libc::EBADF);
            };
            // The kernel only checks the submitter when there is something to
            // submit, or when waiting on a DEFER_TASKRUN ring (K-conf).
            let defer_wait = flags & ENTER_GETEVENTS != 0 && k.rings[ring].flags & SETUP_DEFER_TASKRUN != 0;
            if to_submit > 0 || defer_wait {
                if let Err(e) = k.check_submitter(ring) {
                    k.log.push(Event::Enter { ring, to_submit, min_complete, flags, ret: e, timeout });
                    return ret(e);
                }
            }
            if !k.rings[ring].enabled {
                k.log.push(Event::Enter { ring, to_submit, min_complete, flags, ret: -libc::EBADFD, timeout });
                return set_errno(libc::EBADFD);
            }
            let mut submitted = 0;
            if k.rings[ring].flags & SETUP_SQPOLL != 0 {
                if flags & ENTER_SQ_WAKEUP != 0 {
                    k.rings[ring].sq_thread_idle = false;
                    k.rings[ring].set_sq_flag(SQ_NEED_WAKEUP, false);
                }
                // Under the schedule explorer the sq-thread is an actor; for callers outside it (the
                // sequential explorer, the judges' epilogues) the thread catches up at every enter.
                let by_actor = k.sqpoll_manual && crate::schx::managed();
                if !by_actor && !k.rings[ring].sq_thread_idle {
                    let n = k.rings[ring].sq_pending();
                    k.consume(ring, n);
                }
                submitted = to_submit;
            } else if to_submit > 0 {
                submitted = k.consume(ring, to_submit);
            }
            if let Some(e) = k.enter_fault.take() {
                k.log.push(Event::Enter { ring, to_submit, min_complete, flags, ret: -e, timeout });
                return set_errno(e);
            }
            (ring, submitted)
        };
        let mut wait_ret = 0;
        if flags & ENTER_GETEVENTS != 0 {
            let hook = *BLOCK_HOOK.lock().unwrap();
            loop {
                let ready = {
                    let mut g = lock();
                    let k = g.as_mut().unwrap();
                    k.run_deferred(ring);
                    k.flush_overflow(ring);
                    let r = &k.rings[ring];
                    let want = min_complete.min(r.cq_entries);
                    r.cq_ready() >= want
                };
                if ready {
                    break;
                }
                let zero_timeout = timeout == Some((0, 0));
                if zero_timeout {
                    wait_ret = -libc::ETIME;
                    break;
                }
                match hook {
                    Some(h) => {
                        // Returns true once the condition may hold, false on timeout.
                        if !h(ring, min_complete, timeout.is_some()) {
                            wait_ret = if timeout.is_some() { -libc::ETIME } else { -libc::EINTR };
                            if timeout.is_none() {
                                // Nothing could end this wait: it is ended from outside so that the execution can be judged.
                                let mut g = lock();
                                g.as_mut().unwrap().would_block += 1;
                            }
                            break;
                        }
                    }
                    None => {
                        // Sequential world: nobody can wake us.
                        let mut g = lock();
                        let k = g.as_mut().unwrap();
                        if timeout.is_some() {
                            wait_ret = -libc::ETIME;
                        } else {
                            k.would_block += 1;
                            wait_ret = -libc::EINTR;
                        }
                        break;
                    }
                }
            }
        }
        let result = if submitted > 0 { submitted as i32 } else { wait_ret };
        {
            let mut g = lock();
            let k = g.as_mut().unwrap();
            k.log.push(Event::Enter { ring, to_submit, min_complete, flags, ret: result, timeout });
        }
        {
            let mut g = lock();
            let k = g.as_mut().unwrap();
            k.enter_returns.push((thread_id(), crate::waker::tick(), flags & ENTER_GETEVENTS != 0 && min_complete > 0));
        }
        crate::schx::syscall_point("enter-return");
        ret(result)
    })
}
