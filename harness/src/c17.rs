//! C17: filesystem-watch event streams are decoded exactly.
//!
//! A real `Watcher` (real inotify descriptor, two real watch descriptors) whose
//! reads are served by the simulated kernel with scripted record batches.
#![allow(dead_code)]

use std::path::PathBuf;
use std::pin::Pin;
use std::task::{Context, Poll};
use std::time::Duration;

use a10::Ring;
use a10::fs::notify::{Interest, Recursive, Watcher};

use crate::abi::*;
use crate::report::Violation;
use crate::simk::{self, Out};
use crate::talloc;
use crate::waker::HWaker;

#[derive(Clone, Debug, PartialEq, Eq)]
pub struct Rec {
    /// 0 = first watch, 1 = second watch, 2 = unknown descriptor, 3 = -1.
    pub wd: u8,
    pub mask: u32,
    pub cookie: u32,
    pub name_len: usize,
    /// Length field: None = the kernel's rule (name + NUL, rounded up to 16).
    pub len_field: Option<usize>,
}

#[derive(Clone, Copy, Debug, PartialEq, Eq)]
pub enum Ending {
    /// Leave the last read pending.
    Pending,
    /// A read returning 0 bytes.
    End,
    Error,
}

#[derive(Clone, Debug)]
pub struct Case {
    pub recs: Vec<Rec>,
    /// Bit i set: a new read starts before record i+1.
    pub cuts: u32,
    pub ending: Ending,
    /// Answer the k-th read with EINTR first.
    pub eintr_at: Option<usize>,
    /// Keep every event reference until the end (instead of dropping each
    /// before the next poll).
    pub retain: bool,
    /// How the two watches were added: 0 watch_directory + watch_file on the Watcher;
    /// 1 one recursive `watch` of a directory tree (records refer to the sub-directory and to the top);
    /// 2 through the `Events` handle before the first poll;
    /// 3 the directory registered twice under two spellings of its path (same watch descriptor: the later path counts).
    pub setup: u8,
}

fn v(sig: &str, msg: String) -> Violation {
    Violation::new("C17", sig, &msg)
}

fn name_of(n: usize, seed: usize) -> Vec<u8> {
    (0..n).map(|i| b'a' + ((i + seed) % 26) as u8).collect()
}

impl Rec {
    fn len_field(&self) -> usize {
        match self.len_field {
            Some(l) => l,
            None => {
                if self.name_len == 0 {
                    0
                } else {
                    (self.name_len + 1).div_ceil(16) * 16
                }
            }
        }
    }

    fn size(&self) -> usize {
        16 + self.len_field()
    }

    fn encode(&self, wds: &[i32; 2], seed: usize) -> Vec<u8> {
        let wd = match self.wd {
            0 => wds[0],
            1 => wds[1],
            2 => 9999,
            _ => -1,
        };
        let mut b = Vec::new();
        b.extend_from_slice(&wd.to_ne_bytes());
        b.extend_from_slice(&self.mask.to_ne_bytes());
        b.extend_from_slice(&self.cookie.to_ne_bytes());
        b.extend_from_slice(&(self.len_field() as u32).to_ne_bytes());
        let name = name_of(self.name_len, seed);
        b.extend_from_slice(&name);
        b.resize(16 + self.len_field(), 0);
        b
    }
}

struct Expected {
    mask: u32,
    wd: i32,
    name: Vec<u8>,
    path: PathBuf,
}

pub fn run(case: &Case) -> Vec<Violation> {
    let mut out = Vec::new();
    simk::reset(simk::SetupPlan::default());
    RETAINED.with(|r| r.borrow_mut().clear());
    FREED_HIT.with(|f| *f.borrow_mut() = None);
    talloc::set_on_free(Some(on_free_events));
    let dir = PathBuf::from(format!("{}/scratch/c17-{}", crate::report::root(), std::process::id()));
    let _ = std::fs::create_dir_all(dir.join("watched_dir"));
    let _ = std::fs::write(dir.join("watched_file"), b"x");
    let paths = [dir.join("watched_dir"), dir.join("watched_file")];
    let mut ring = talloc::track(|| Ring::config().with_submission_queue_size(4).build().expect("ring"));
    let sq = ring.sq();
    crate::mapwatch::fake_inotify(true);
    let mut watcher = talloc::track(|| Watcher::new(sq.clone()).expect("watcher"));
    // The watch descriptors: inotify hands out 1, 2, ... per instance, in the order of the calls.
    let (paths, wds) = match case.setup {
        1 => {
            // top/sub/deeper: sub-directories are added before their parent.
            let top = dir.join("watched_dir");
            let _ = std::fs::create_dir_all(top.join("sub").join("deeper"));
            talloc::track(|| watcher.watch(top.clone(), Interest::ALL, Recursive::All).expect("recursive watch"));
            ([top.join("sub"), top], [2i32, 3i32])
        }
        2 => (paths, [1i32, 2i32]),
        3 => {
            // The directory is renamed after it was registered and registered again under its new name.
            let (old, new) = (dir.join("before_rename"), dir.join("after_rename"));
            let _ = std::fs::remove_dir_all(&old);
            let _ = std::fs::remove_dir_all(&new);
            std::fs::create_dir_all(&old).expect("mkdir");
            talloc::track(|| {
                watcher.watch_directory(old.clone(), Interest::ALL, Recursive::No).expect("watch dir");
                watcher.watch_file(paths[1].clone(), Interest::ALL).expect("watch file");
            });
            std::fs::rename(&old, &new).expect("rename");
            talloc::track(|| watcher.watch_directory(new.clone(), Interest::MODIFY, Recursive::No).expect("watch dir again"));
            ([new, paths[1].clone()], [1i32, 2i32])
        }
        4 => {
            // The watched directory is moved away and a new one created under the same name, which is
            // registered too: two watch descriptors (two inodes) recorded under one path.
            let (here, away) = (dir.join("rotated"), dir.join("rotated.old"));
            let _ = std::fs::remove_dir_all(&here);
            let _ = std::fs::remove_dir_all(&away);
            std::fs::create_dir_all(&here).expect("mkdir");
            talloc::track(|| watcher.watch_directory(here.clone(), Interest::ALL, Recursive::No).expect("watch dir"));
            std::fs::rename(&here, &away).expect("rename");
            std::fs::create_dir_all(&here).expect("mkdir again");
            talloc::track(|| watcher.watch_directory(here.clone(), Interest::ALL, Recursive::No).expect("watch the new dir"));
            ([here.clone(), here], [1i32, 2i32])
        }
        _ => {
            talloc::track(|| {
                watcher.watch_directory(paths[0].clone(), Interest::ALL, Recursive::No).expect("watch dir");
                watcher.watch_file(paths[1].clone(), Interest::ALL).expect("watch file");
            });
            (paths, [1i32, 2i32])
        }
    };

    // Chunks.
    let mut chunks: Vec<Vec<usize>> = vec![Vec::new()];
    for i in 0..case.recs.len() {
        if i > 0 && case.cuts & (1 << (i - 1)) != 0 {
            chunks.push(Vec::new());
        }
        chunks.last_mut().unwrap().push(i);
    }
    // Expected user-visible events (reference model).
    let mut watching = [true, true];
    let mut expected: Vec<Expected> = Vec::new();
    for (i, r) in case.recs.iter().enumerate() {
        if r.mask & libc::IN_IGNORED != 0 {
            if (r.wd as usize) < 2 {
                watching[r.wd as usize] = false;
            }
            continue;
        }
        if r.mask & libc::IN_Q_OVERFLOW != 0 {
            continue;
        }
        let name = name_of(r.name_len, i);
        use std::os::unix::ffi::OsStrExt;
        let name_os = std::ffi::OsStr::from_bytes(&name);
        let path = if (r.wd as usize) < 2 && watching[r.wd as usize] {
            if name.is_empty() { paths[r.wd as usize].clone() } else { paths[r.wd as usize].join(name_os) }
        } else {
            PathBuf::from(name_os)
        };
        let wd = match r.wd {
            0 => wds[0],
            1 => wds[1],
            2 => 9999,
            _ => -1,
        };
        expected.push(Expected { mask: r.mask, wd, name, path });
    }

    let w = HWaker::new(1);
    let mut cx = Context::from_waker(&w.waker);
    // Observations: (debug string, name bytes, path_for) and the memory each event occupies.
    let mut seen: Vec<(String, Vec<u8>, PathBuf)> = Vec::new();
    let mut handed: Vec<(usize, usize)> = Vec::new();
    let mut retained: Vec<&a10::fs::notify::Event> = Vec::new();
    let mut stream_end: Option<String> = None;
    let mut reads = 0usize;
    let mut retention: Vec<Violation> = Vec::new();
    {
        let mut events = talloc::track(|| watcher.events());
        if case.setup == 2 {
            talloc::track(|| {
                events.watch_directory(paths[0].clone(), Interest::ALL, Recursive::No).expect("watch dir");
                events.watch_file(paths[1].clone(), Interest::ALL).expect("watch file");
            });
        }
        let mut chunk_idx = 0;
        let mut finished_script = false;
        'outer: loop {
            // Poll until Pending.
            loop {
                let r = talloc::track(|| Pin::new(&mut events).poll_next(&mut cx));
                match r {
                    Poll::Pending => break,
                    Poll::Ready(None) => {
                        stream_end = Some("end".into());
                        break 'outer;
                    }
                    Poll::Ready(Some(Err(e))) => {
                        stream_end = Some(format!("err:{}", e.raw_os_error().unwrap_or(0)));
                        // The stream must be over now.
                        match talloc::track(|| Pin::new(&mut events).poll_next(&mut cx)) {
                            Poll::Ready(None) => {}
                            other => {
                                let what = match other {
                                    Poll::Pending => "Pending".to_string(),
                                    Poll::Ready(Some(Ok(e))) => format!("{e:?}"),
                                    Poll::Ready(Some(Err(e))) => format!("another error: {e}"),
                                    Poll::Ready(None) => unreachable!(),
                                };
                                out.push(v("after-error", format!("after a read error the stream yields {what}")));
                            }
                        }
                        break 'outer;
                    }
                    Poll::Ready(Some(Ok(ev))) => {
                        let dbg = format!("{ev:?}");
                        #[allow(deprecated)]
                        let name = {
                            use std::os::unix::ffi::OsStrExt;
                            ev.file_path().as_os_str().as_bytes().to_vec()
                        };
                        let path = events.path_for(ev).to_path_buf();
                        seen.push((dbg, name, path));
                        handed.push((std::ptr::from_ref(ev).cast::<u8>() as usize, size_of_val(ev)));
                        if case.retain {
                            retained.push(ev);
                            RETAINED.with(|r| r.borrow_mut().push(*handed.last().unwrap()));
                        }
                    }
                }
            }
            talloc::track(|| {
                let _ = ring.poll(Some(Duration::ZERO));
            });
            // The outstanding read.
            let Some(serial) = simk::with(|k| k.reqs.iter().find(|r| !r.done && r.opcode == OP_READ).map(|r| r.serial)) else {
                out.push(v("no-read", "the stream is pending without a read in flight".into()));
                break;
            };
            reads += 1;
            let (addr, len, fd_ok) = simk::with(|k| {
                let r = k.req(serial);
                (r.sqe.addr() as usize, r.sqe.len() as usize, r.sqe.off() == u64::MAX)
            });
            if len < 272 || !fd_ok {
                out.push(v("read-shape", format!("read #{reads} asks for {len} bytes at offset {:#x}", simk::with(|k| k.req(serial).sqe.off()))));
            }
            // Retention: the new read's target overlaps events handed out earlier
            // that safe code can still hold.
            if case.retain {
                if let Some((a, l)) = handed.iter().find(|(a, l)| *a < addr + len && addr < *a + *l) {
                    retention.push(v("retained-event/invalidated-by:next-read", format!("an event handed out earlier ({a:#x}+{l}) lies in the buffer {addr:#x}+{len} that is given to the kernel for the next read while the reference is still usable")));
                }
            }
            if finished_script {
                break;
            }
            if case.eintr_at == Some(reads) {
                simk::with(|k| k.complete(serial, Out::Res(-libc::EINTR)));
                talloc::track(|| {
                    let _ = ring.poll(Some(Duration::ZERO));
                });
                // Don't count this read as a chunk.
                continue;
            }
            if chunk_idx < chunks.len() {
                let mut bytes = Vec::new();
                for i in &chunks[chunk_idx] {
                    bytes.extend_from_slice(&case.recs[*i].encode(&wds, *i));
                }
                chunk_idx += 1;
                // Beyond the written bytes: a well-formed looking record that
                // must never be decoded.
                let poison = Rec { wd: 0, mask: libc::IN_CREATE | libc::IN_ISDIR, cookie: 0xBAD, name_len: 6, len_field: None }.encode(&wds, 77);
                simk::with(|k| k.complete_data(serial, &bytes, &poison));
            } else {
                finished_script = true;
                match case.ending {
                    Ending::Pending => break,
                    Ending::End => simk::with(|k| k.complete(serial, Out::Res(0))),
                    Ending::Error => simk::with(|k| k.complete(serial, Out::Res(-libc::EIO))),
                }
            }
            talloc::track(|| {
                let _ = ring.poll(Some(Duration::ZERO));
            });
        }
        // Retention up to here (the buffer is freed when the stream ends) ...
        if let Some((a, l)) = FREED_HIT.with(|f| f.borrow_mut().take()) {
            retention.push(v("retained-event/freed-at-stream-end", format!("the memory of an event handed out earlier ({a:#x}+{l}) is freed when the stream ends while the reference is still usable")));
        }
        // ... and across dropping the iterator.
        talloc::track(|| drop(events));
        RETAINED.with(|r| r.borrow_mut().clear());
        if let Some((a, l)) = FREED_HIT.with(|f| f.borrow_mut().take()) {
            retention.push(v("retained-event/freed-with-iterator", format!("the memory of an event handed out earlier ({a:#x}+{l}) is freed when the Events iterator is dropped while the reference is still usable")));
        }
        talloc::set_on_free(Some(simk::on_free));
    }
    drop(retained);

    // Judge decoding.
    for (class, msg) in simk::with(|k| std::mem::take(&mut k.violations)) {
        out.push(v(&format!("memory/{class}"), msg));
    }
    let n = seen.len().min(expected.len());
    for i in 0..n {
        let (dbg, name, path) = &seen[i];
        let e = &expected[i];
        let want_dbg_mask = format!("mask: {},", e.mask);
        let want_dbg_wd = format!("wd: {},", e.wd);
        if !dbg.contains(&want_dbg_mask) || !dbg.contains(&want_dbg_wd) {
            out.push(v("wrong-event", format!("event {i} is {dbg}, expected wd {} mask {:#x}", e.wd, e.mask)));
            break;
        }
        if *name != e.name {
            out.push(v("wrong-name", format!("event {i}: file name {:?} ({} bytes), expected {:?} ({} bytes)", String::from_utf8_lossy(name), name.len(), String::from_utf8_lossy(&e.name), e.name.len())));
            break;
        }
        // (Byte-wise: `Path` equality ignores a trailing separator, the file system does not.)
        if path.as_os_str().as_encoded_bytes() != e.path.as_os_str().as_encoded_bytes() {
            out.push(v("wrong-path", format!("event {i}: path_for gives {path:?}, expected {:?}", e.path)));
            break;
        }
    }
    // All scripted chunks delivered?
    let delivered_all = reads > chunks.len() || (case.ending == Ending::Pending && reads >= chunks.len());
    if seen.len() > expected.len() {
        out.push(v("extra-event", format!("{} events yielded, the kernel delivered {} user-visible records (first extra: {})", seen.len(), expected.len(), seen[expected.len()].0)));
    } else if seen.len() < expected.len() && delivered_all && stream_end.as_deref() != Some("err:5") {
        out.push(v("missing-event", format!("{} events yielded, the kernel delivered {} user-visible records", seen.len(), expected.len())));
    }
    match (case.ending, stream_end.as_deref()) {
        (Ending::End, Some("end")) | (Ending::Error, Some("err:5")) | (Ending::Pending, None) => {}
        (e, s) => out.push(v("wrong-ending", format!("the kernel ended the stream with {e:?}, the iterator reported {s:?}"))),
    }
    out.extend(retention);

    // Tear down.
    talloc::track(|| {
        drop(watcher);
        let _ = ring.poll(Some(Duration::ZERO));
        drop(sq);
        drop(ring);
    });
    let _ = std::fs::remove_dir_all(&dir);
    out
}

thread_local! {
    static RETAINED: std::cell::RefCell<Vec<(usize, usize)>> = const { std::cell::RefCell::new(Vec::new()) };
    static FREED_HIT: std::cell::RefCell<Option<(usize, usize)>> = const { std::cell::RefCell::new(None) };
}

fn on_free_events(b: talloc::Block) {
    RETAINED.with(|r| {
        for (a, l) in r.borrow().iter() {
            if *a < b.addr + b.size && b.addr < *a + *l {
                FREED_HIT.with(|f| {
                    if f.borrow().is_none() {
                        *f.borrow_mut() = Some((*a, *l));
                    }
                });
            }
        }
    });
    simk::on_free(b);
}

pub fn alphabet() -> Vec<Rec> {
    let r = |wd: u8, mask: u32, name_len: usize| Rec { wd, mask, cookie: 0, name_len, len_field: None };
    vec![
        r(0, libc::IN_CREATE, 1),
        r(0, libc::IN_MODIFY | libc::IN_ISDIR, 15),
        r(1, libc::IN_DELETE_SELF, 0),
        Rec { cookie: 0x1234, ..r(0, libc::IN_MOVED_FROM, 16) },
        r(1, libc::IN_ACCESS, 17),
        r(2, libc::IN_OPEN, 2),
        r(0, libc::IN_IGNORED, 0),
        r(3, libc::IN_Q_OVERFLOW, 0),
        r(1, libc::IN_UNMOUNT, 0),
        Rec { len_field: Some(2), ..r(0, libc::IN_ATTRIB, 1) },
        r(1, libc::IN_IGNORED, 0),
        r(0, libc::IN_CLOSE_WRITE, 48),
    ]
}

pub fn cases(quick: bool) -> Vec<Case> {
    let alpha = alphabet();
    let mut v = Vec::new();
    let max_len = if quick { 3 } else { 4 };
    // Every record sequence, every cutting, every ending.
    let mut seqs: Vec<Vec<usize>> = vec![vec![]];
    let mut all: Vec<Vec<usize>> = Vec::new();
    for _ in 0..max_len {
        seqs = seqs.into_iter().flat_map(|s| (0..alpha.len()).map(move |a| { let mut t = s.clone(); t.push(a); t })).collect();
        all.extend(seqs.iter().cloned());
    }
    for s in all {
        let recs: Vec<Rec> = s.iter().map(|i| alpha[*i].clone()).collect();
        let n = recs.len();
        for cuts in 0..(1u32 << (n - 1)) {
            // Every chunk must fit the 272 byte buffer.
            let mut ok = true;
            let mut size = 0;
            for (i, r) in recs.iter().enumerate() {
                if i > 0 && cuts & (1 << (i - 1)) != 0 {
                    size = 0;
                }
                size += r.size();
                if size > 272 {
                    ok = false;
                }
            }
            if !ok {
                continue;
            }
            for ending in [Ending::End, Ending::Error, Ending::Pending] {
                if quick && n == 3 && ending == Ending::Pending {
                    continue;
                }
                v.push(Case { recs: recs.clone(), cuts, ending, eintr_at: None, retain: false, setup: 0 });
            }
            if n <= 2 {
                v.push(Case { recs: recs.clone(), cuts, ending: Ending::End, eintr_at: Some(1), retain: false, setup: 0 });
                v.push(Case { recs: recs.clone(), cuts, ending: Ending::End, eintr_at: Some(2), retain: true, setup: 0 });
                v.push(Case { recs: recs.clone(), cuts, ending: Ending::Pending, eintr_at: None, retain: true, setup: 0 });
            }
        }
    }
    // Every name length with the kernel's padding, and every mask bit.
    for name_len in 0..=255usize {
        for (wd, mask) in [(0u8, libc::IN_CREATE), (1, libc::IN_MODIFY | libc::IN_ISDIR)] {
            if quick && wd == 1 && name_len % 16 > 1 {
                continue;
            }
            v.push(Case { recs: vec![Rec { wd, mask, cookie: 7, name_len, len_field: None }, alpha[0].clone()], cuts: if 16 + (name_len + 1).div_ceil(16) * 16 + 32 > 272 { 1 } else { 0 }, ending: Ending::End, eintr_at: None, retain: false, setup: 0 });
        }
        // Minimal padding (name + one NUL) and none at all.
        if name_len > 0 && (!quick || name_len % 5 == 0 || name_len < 20) {
            v.push(Case { recs: vec![Rec { wd: 0, mask: libc::IN_DELETE, cookie: 0, name_len, len_field: Some(name_len + 1) }], cuts: 0, ending: Ending::End, eintr_at: None, retain: false, setup: 0 });
        }
    }
    // The other ways of adding the watches, over a sample of the cases above (all of the short ones).
    let extra: Vec<Case> = v.iter().filter(|c| c.recs.len() <= if quick { 1 } else { 2 } && c.recs.iter().all(|r| r.name_len < 40)).cloned().collect();
    for setup in [1u8, 2, 3, 4] {
        for c in &extra {
            v.push(Case { setup, ..c.clone() });
        }
    }
    let bits = [
        libc::IN_ACCESS, libc::IN_MODIFY, libc::IN_ATTRIB, libc::IN_CLOSE_WRITE, libc::IN_CLOSE_NOWRITE, libc::IN_OPEN, libc::IN_MOVED_FROM,
        libc::IN_MOVED_TO, libc::IN_CREATE, libc::IN_DELETE, libc::IN_DELETE_SELF, libc::IN_MOVE_SELF, libc::IN_UNMOUNT,
    ];
    for bit in bits {
        for isdir in [0, libc::IN_ISDIR] {
            for wd in 0..4u8 {
                v.push(Case { recs: vec![Rec { wd, mask: bit | isdir, cookie: 1, name_len: 3, len_field: None }], cuts: 0, ending: Ending::Pending, eintr_at: None, retain: false, setup: 0 });
            }
        }
    }
    v
}
