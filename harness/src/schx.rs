//! Schedule explorer (stub for now).
#![allow(dead_code)]

pub fn syscall_point(_what: &'static str) {}

pub fn on_wake(_id: u32) {}
