//! schx: schedule explorer.
//!
//! Harness threads are real OS threads, but only the one holding the baton
//! runs. The baton changes hands only at scheduling points: a10's lock /
//! try_lock helpers, its accesses to kernel-shared and cross-thread words
//! (hooks H2/H3), the simulated kernel's system call entry and exit, and
//! harness-level yields. Kernel-side actors (completion poster, sq-thread) are
//! scheduled like threads. The explorer enumerates the choices made at those
//! points, depth first, up to a preemption bound.
#![allow(dead_code)]

use std::cell::Cell;
use std::sync::{Arc, Condvar, Mutex, MutexGuard};

pub const MAX_POINTS: usize = 4000;

struct Parker {
    m: Mutex<bool>,
    cv: Condvar,
}

impl Parker {
    fn new() -> Parker {
        Parker { m: Mutex::new(false), cv: Condvar::new() }
    }
    fn park(&self) {
        let mut g = self.m.lock().unwrap_or_else(|e| e.into_inner());
        while !*g {
            g = self.cv.wait(g).unwrap_or_else(|e| e.into_inner());
        }
        *g = false;
    }
    fn unpark(&self) {
        *self.m.lock().unwrap_or_else(|e| e.into_inner()) = true;
        self.cv.notify_one();
    }
}

enum Status {
    Runnable,
    /// Wants a mutex: (address, probe).
    WantLock(usize, unsafe fn(*const ()) -> bool),
    /// Waits for a condition; `timeout`: a timer may end the wait.
    Blocked { cond: Box<dyn FnMut() -> bool + Send>, timeout: bool, what: String },
    Finished,
}

struct ThreadState {
    status: Status,
    parker: Arc<Parker>,
    /// Set when a blocked thread was resumed without its condition (timer or forced).
    resumed_without_cond: bool,
    name: String,
}

pub struct Actor {
    pub name: String,
    pub enabled: Box<dyn FnMut() -> bool + Send>,
    pub step: Box<dyn FnMut() + Send>,
}

#[derive(Clone, Debug)]
pub struct PointRec {
    /// Number of alternatives at this point.
    pub enabled: usize,
    pub chosen: usize,
    /// The running thread could have continued (switching away is a preemption).
    pub cur_enabled: bool,
    pub thread: usize,
    pub what: &'static str,
}

#[derive(Clone, Debug, Default)]
pub struct Exec {
    pub points: Vec<PointRec>,
    pub deadlocks: Vec<String>,
    pub panics: Vec<String>,
    pub aborted: bool,
    pub too_long: bool,
    pub bad_choice: bool,
    pub choices: Vec<usize>,
    pub trace: Vec<String>,
}

#[derive(Clone, Copy, PartialEq, Eq, Debug)]
enum Alt {
    Thread(usize),
    Actor(usize),
    /// Timer fires for a blocked thread.
    Timer(usize),
}

struct Sched {
    threads: Vec<ThreadState>,
    actors: Vec<Actor>,
    prefix: Vec<usize>,
    exec: Exec,
    done: Arc<Parker>,
    finished: bool,
    record_trace: bool,
}

static SCHED: Mutex<Option<Sched>> = Mutex::new(None);

thread_local! {
    static TID: Cell<Option<usize>> = const { Cell::new(None) };
    static SPIN_FORCED: Cell<bool> = const { Cell::new(false) };
}

fn sched() -> MutexGuard<'static, Option<Sched>> {
    SCHED.lock().unwrap_or_else(|e| e.into_inner())
}

pub fn managed() -> bool {
    TID.with(|t| t.get()).is_some()
}

pub fn current() -> Option<usize> {
    TID.with(|t| t.get())
}

enum Decision {
    Continue,
    Switch(Arc<Parker>, Arc<Parker>),
    Actor(usize),
    /// Execution is over for this thread (abort): park forever.
    Halt,
    /// All threads finished.
    Done,
}

impl Sched {
    /// Alternatives in canonical order: the running thread first if enabled,
    /// then the other threads ascending, then actors, then timers.
    fn alternatives(&mut self, cur: usize) -> (Vec<Alt>, bool) {
        let mut alts = Vec::new();
        let n = self.threads.len();
        let mut enabled = vec![false; n];
        for i in 0..n {
            enabled[i] = match &mut self.threads[i].status {
                Status::Runnable => true,
                Status::WantLock(addr, probe) => unsafe { probe(*addr as *const ()) },
                Status::Blocked { cond, .. } => crate::talloc::untracked(|| cond()),
                Status::Finished => false,
            };
        }
        let cur_enabled = enabled[cur];
        if cur_enabled {
            alts.push(Alt::Thread(cur));
        }
        for i in 0..n {
            if i != cur && enabled[i] {
                alts.push(Alt::Thread(i));
            }
        }
        for (i, a) in self.actors.iter_mut().enumerate() {
            if crate::talloc::untracked(|| (a.enabled)()) {
                alts.push(Alt::Actor(i));
            }
        }
        for i in 0..n {
            if !enabled[i] {
                if let Status::Blocked { timeout: true, .. } = self.threads[i].status {
                    alts.push(Alt::Timer(i));
                }
            }
        }
        (alts, cur_enabled)
    }

    fn decide(&mut self, cur: usize, what: &'static str) -> Decision {
        loop {
            if self.exec.aborted {
                return Decision::Halt;
            }
            let (alts, cur_enabled) = self.alternatives(cur);
            if alts.is_empty() {
                if self.threads.iter().all(|t| matches!(t.status, Status::Finished)) {
                    self.finished = true;
                    return Decision::Done;
                }
                // Deadlock. Describe it, then force a blocked thread awake if possible.
                let desc: Vec<String> = self
                    .threads
                    .iter()
                    .enumerate()
                    .filter_map(|(i, t)| match &t.status {
                        Status::Blocked { what, .. } => Some(format!("thread {i} ({}) blocked in {what}", t.name)),
                        Status::WantLock(a, _) => Some(format!("thread {i} ({}) waits for mutex {a:#x}", t.name)),
                        _ => None,
                    })
                    .collect();
                self.exec.deadlocks.push(desc.join("; "));
                let forced = self.threads.iter().position(|t| matches!(t.status, Status::Blocked { .. }));
                match forced {
                    Some(i) => {
                        self.threads[i].status = Status::Runnable;
                        self.threads[i].resumed_without_cond = true;
                        continue;
                    }
                    None => {
                        self.exec.aborted = true;
                        self.finished = true;
                        self.done.unpark();
                        return Decision::Halt;
                    }
                }
            }
            if self.exec.points.len() >= MAX_POINTS {
                self.exec.too_long = true;
                self.exec.aborted = true;
                self.finished = true;
                self.done.unpark();
                return Decision::Halt;
            }
            let step = self.exec.points.len();
            let idx = if step < self.prefix.len() { self.prefix[step] } else { 0 };
            if idx >= alts.len() {
                self.exec.bad_choice = true;
                self.exec.aborted = true;
                self.finished = true;
                self.done.unpark();
                return Decision::Halt;
            }
            self.exec.points.push(PointRec { enabled: alts.len(), chosen: idx, cur_enabled, thread: cur, what });
            self.exec.choices.push(idx);
            if self.record_trace {
                self.exec.trace.push(format!("t{cur}@{what} -> {:?}", alts[idx]));
            }
            match alts[idx] {
                Alt::Actor(a) => return Decision::Actor(a),
                Alt::Timer(t) => {
                    self.threads[t].status = Status::Runnable;
                    self.threads[t].resumed_without_cond = true;
                    // The timer firing is an event; decide again who runs.
                    continue;
                }
                Alt::Thread(t) => {
                    if let Status::Blocked { .. } | Status::WantLock(..) = self.threads[t].status {
                        self.threads[t].status = Status::Runnable;
                    }
                    if t == cur {
                        return Decision::Continue;
                    }
                    return Decision::Switch(self.threads[t].parker.clone(), self.threads[cur].parker.clone());
                }
            }
        }
    }
}

fn halt() -> ! {
    // Execution aborted: this thread (and whatever it holds) is leaked.
    loop {
        std::thread::park();
    }
}

/// A scheduling point of the calling (managed) thread.
fn point(what: &'static str) {
    // Whatever the scheduler allocates is not a10's.
    crate::talloc::untracked(|| point_inner(what))
}

fn point_inner(what: &'static str) {
    let Some(tid) = current() else { return };
    loop {
        let d = {
            let mut g = sched();
            let Some(s) = g.as_mut() else { return };
            s.decide(tid, what)
        };
        match d {
            Decision::Continue => return,
            Decision::Actor(a) => {
                // Run the actor step outside the scheduler lock.
                let mut step = {
                    let mut g = sched();
                    let s = g.as_mut().unwrap();
                    std::mem::replace(&mut s.actors[a].step, Box::new(|| {}))
                };
                crate::talloc::untracked(|| step());
                let mut g = sched();
                let s = g.as_mut().unwrap();
                s.actors[a].step = step;
            }
            Decision::Switch(to, me) => {
                to.unpark();
                me.park();
                let g = sched();
                if g.as_ref().is_some_and(|s| s.exec.aborted) {
                    drop(g);
                    halt();
                }
                return;
            }
            Decision::Halt => halt(),
            Decision::Done => return,
        }
    }
}

// ------------------------------------------------------------------ hooks

fn hook_before_lock(mutex: *const (), probe: unsafe fn(*const ()) -> bool) {
    let Some(tid) = current() else { return };
    {
        let mut g = sched();
        let Some(s) = g.as_mut() else { return };
        s.threads[tid].status = Status::WantLock(mutex as usize, probe);
    }
    point("lock");
}

fn hook_sync_point(kind: u32, addr: *const ()) {
    if current().is_none() {
        return;
    }
    if kind & 0xff == a10::verif::SYNC_LOAD_SHARED && SPIN_FORCED.with(|f| f.get()) {
        // (The loads of the waiting loop itself, see below.)
        return;
    }
    if kind & 0xff != a10::verif::SYNC_SPIN_WAIT && kind & 0xff != a10::verif::SYNC_LOAD_SHARED {
        SPIN_FORCED.with(|f| f.set(false));
    }
    if kind & 0xff == a10::verif::SYNC_SPIN_WAIT {
        // a10 waits in a loop for the kernel to change this word: the thread is disabled until it
        // does (a spinning thread must not be the default choice forever). If nobody can change it
        // the wait is forced to end and the loop runs once more (a10 bounds it by time).
        // Once such a wait has been forced to end (nothing in the execution can change the word: the
        // deadlock is on record) the loop is left to a10's own real-time bound, without further
        // scheduling points -- otherwise it would spin through the point limit and never be judged.
        if SPIN_FORCED.with(|f| f.get()) {
            return;
        }
        let word = addr as usize;
        let v0 = unsafe { (*(word as *const std::sync::atomic::AtomicU32)).load(std::sync::atomic::Ordering::SeqCst) };
        let changed = block_until(Box::new(move || unsafe { (*(word as *const std::sync::atomic::AtomicU32)).load(std::sync::atomic::Ordering::SeqCst) } != v0), false, "waiting for the kernel thread to consume submissions");
        if !changed {
            SPIN_FORCED.with(|f| f.set(true));
        }
        return;
    }
    let what = match kind & 0xff {
        a10::verif::SYNC_LOAD_SHARED => "load-shared",
        a10::verif::SYNC_STORE_SQ_TAIL => {
            if kind & a10::verif::SYNC_AFTER != 0 { "sq-tail-stored" } else { "store-sq-tail" }
        }
        a10::verif::SYNC_STORE_CQ_HEAD => {
            if kind & a10::verif::SYNC_AFTER != 0 { "cq-head-stored" } else { "store-cq-head" }
        }
        a10::verif::SYNC_LOAD_BUF_TAIL => "load-buf-tail",
        a10::verif::SYNC_STORE_BUF_TAIL => {
            if kind & a10::verif::SYNC_AFTER != 0 { "buf-tail-stored" } else { "store-buf-tail" }
        }
        a10::verif::SYNC_SET_POLLING => "set-polling",
        a10::verif::SYNC_WAKE_POLLING => "wake-polling",
        a10::verif::SYNC_TRY_LOCK => "try-lock",
        a10::verif::SYNC_READ_CQE => "read-cqe",
        _ => "sync",
    };
    point(what);
}

static SCHEDULER: a10::verif::Scheduler = a10::verif::Scheduler { before_lock: hook_before_lock, sync_point: hook_sync_point };

pub fn install() {
    a10::verif::install_scheduler(Some(&SCHEDULER));
    crate::simk::set_block_hook(Some(enter_block_hook));
}

/// Scheduling point at a simulated system call boundary.
pub fn syscall_point(what: &'static str) {
    SPIN_FORCED.with(|f| f.set(false));
    point(what);
}

/// Harness-level scheduling point.
pub fn yield_point(what: &'static str) {
    point(what);
}

pub fn on_wake(_id: u32) {}

/// Block the calling thread until `cond` holds. Returns true if it holds,
/// false if the wait was ended by a timer or forced (deadlock).
pub fn block_until(cond: Box<dyn FnMut() -> bool + Send>, timeout: bool, what: &str) -> bool {
    let Some(tid) = current() else {
        return false;
    };
    {
        let mut g = sched();
        let Some(s) = g.as_mut() else { return false };
        s.threads[tid].resumed_without_cond = false;
        s.threads[tid].status = Status::Blocked { cond, timeout, what: what.to_string() };
    }
    point("block");
    let mut g = sched();
    let s = g.as_mut().unwrap();
    let without = std::mem::replace(&mut s.threads[tid].resumed_without_cond, false);
    !without
}

/// Blocking `io_uring_enter` inside the simulated kernel.
fn enter_block_hook(ring: usize, min_complete: u32, has_timeout: bool) -> bool {
    if current().is_none() {
        return false;
    }
    block_until(
        Box::new(move || {
            let mut g = crate::simk::lock();
            let Some(k) = g.as_mut() else { return true };
            k.enter_wait_ready(ring, min_complete)
        }),
        has_timeout,
        "io_uring_enter(GETEVENTS)",
    )
}

// -------------------------------------------------------------- execution

pub type Body = Box<dyn FnOnce() + Send + 'static>;

/// Run one execution: `bodies` on managed threads, following `prefix`, then defaults.
pub fn run(bodies: Vec<(String, Body)>, actors: Vec<Actor>, prefix: &[usize], trace: bool) -> Exec {
    let done = Arc::new(Parker::new());
    let n = bodies.len();
    let threads: Vec<ThreadState> = bodies
        .iter()
        .map(|(name, _)| ThreadState { status: Status::Runnable, parker: Arc::new(Parker::new()), resumed_without_cond: false, name: name.clone() })
        .collect();
    let parkers: Vec<Arc<Parker>> = threads.iter().map(|t| t.parker.clone()).collect();
    *sched() = Some(Sched {
        threads,
        actors,
        prefix: prefix.to_vec(),
        exec: Exec::default(),
        done: done.clone(),
        finished: false,
        record_trace: trace,
    });
    let mut handles = Vec::new();
    for (i, (name, body)) in bodies.into_iter().enumerate() {
        let parker = parkers[i].clone();
        let done = done.clone();
        let h = std::thread::Builder::new()
            .name(name)
            .stack_size(512 * 1024)
            .spawn(move || {
                TID.with(|t| t.set(Some(i)));
                parker.park();
                let aborted = sched().as_ref().is_some_and(|s| s.exec.aborted);
                if aborted {
                    halt();
                }
                point("thread-start");
                let r = std::panic::catch_unwind(std::panic::AssertUnwindSafe(body));
                let panic_msg = if r.is_err() { Some(crate::seqx::take_panic()) } else { None };
                // Thread end: mark finished and pass the baton on.
                let d = {
                    let mut g = sched();
                    let s = g.as_mut().unwrap();
                    s.threads[i].status = Status::Finished;
                    if let Some(m) = panic_msg {
                        s.exec.panics.push(format!("thread {i}: {m}"));
                    }
                    s.decide_after_finish(i)
                };
                match d {
                    Decision::Switch(to, _) => to.unpark(),
                    Decision::Done | Decision::Halt | Decision::Continue | Decision::Actor(_) => {}
                }
                let all_done = sched().as_ref().is_some_and(|s| s.finished);
                if all_done {
                    done.unpark();
                }
                TID.with(|t| t.set(None));
            })
            .expect("spawning harness thread");
        handles.push(h);
    }
    let _ = n;
    // Start thread 0.
    parkers[0].unpark();
    done.park();
    let (exec, aborted) = {
        let mut g = sched();
        let s = g.take().unwrap();
        let a = s.exec.aborted;
        (s.exec, a)
    };
    if !aborted {
        for h in handles {
            let _ = h.join();
        }
    }
    exec
}

impl Sched {
    /// A thread finished: choose who runs next (actors may run on the
    /// finishing thread first).
    fn decide_after_finish(&mut self, cur: usize) -> Decision {
        loop {
            match self.decide(cur, "thread-end") {
                Decision::Actor(a) => {
                    let mut step = std::mem::replace(&mut self.actors[a].step, Box::new(|| {}));
                    // NOTE: runs under the scheduler lock; actor steps must not
                    // reach scheduling points (they don't: they are kernel code).
                    crate::talloc::untracked(|| step());
                    self.actors[a].step = step;
                }
                d => return d,
            }
        }
    }
}

// ------------------------------------------------------------- exploration

#[derive(Default)]
pub struct Stats {
    pub executions: u64,
    pub points: u64,
    pub max_points: usize,
    pub capped: bool,
    /// Highest preemption bound explored completely; -1 if none.
    pub bound_completed: i64,
    /// Schedules cut off at the point limit (a loop the scheduler cannot get out of): not judged.
    pub too_long: u64,
}

/// Preemption-bounded DFS. `run_one(prefix)` runs an execution and returns it;
/// it is also responsible for judging it. Returns false to stop exploring.
/// `free_bound` (0 = unlimited) bounds the non-default choices taken where the
/// running thread could not continue (blocked or finished); those are not
/// preemptions and cost nothing against `bound`.
pub fn explore(bound: u32, free_bound: u32, shard: (usize, usize), cap_s: u64, run_one: &mut dyn FnMut(&[usize]) -> Exec, stats: &mut Stats) {
    let t0 = std::time::Instant::now();
    let fb = if free_bound == 0 { u32::MAX } else { free_bound };
    stats.bound_completed = -1;
    // Under a wall cap the bound is iterated (0, 1, .. bound) so that what was
    // covered when the cap hits is a completed bound, not a DFS fragment.
    let first = if cap_s > 0 { 0 } else { bound };
    for b in first..=bound {
        let mut item = 0usize;
        rec(&[], (0, 0), (b, fb), shard, cap_s, t0, run_one, stats, &mut item, true);
        if stats.capped {
            break;
        }
        stats.bound_completed = b as i64;
    }
}

#[allow(clippy::too_many_arguments)]
fn rec(
    prefix: &[usize],
    used: (u32, u32),
    bound: (u32, u32),
    shard: (usize, usize),
    cap_s: u64,
    t0: std::time::Instant,
    run_one: &mut dyn FnMut(&[usize]) -> Exec,
    stats: &mut Stats,
    item: &mut usize,
    top: bool,
) {
    if cap_s > 0 && t0.elapsed().as_secs() >= cap_s {
        stats.capped = true;
        return;
    }
    crate::breadcrumb::set_tagged("schx", prefix);
    let x = run_one(prefix);
    assert!(!x.bad_choice, "schx: choice out of range while replaying a prefix (nondeterministic harness?)");
    let counted = !top || shard.0 == 0;
    if counted {
        stats.executions += 1;
        stats.points += x.points.len() as u64;
        stats.max_points = stats.max_points.max(x.points.len());
    }
    if x.aborted && x.too_long {
        if counted {
            stats.too_long += 1;
        }
        return;
    }
    // Branch at every point after the prefix. Default choices cost nothing;
    // switching away from a thread that could continue is a preemption.
    for i in prefix.len()..x.points.len() {
        let p = &x.points[i];
        let c = if p.cur_enabled { (used.0 + 1, used.1) } else { (used.0, used.1 + 1) };
        if c.0 > bound.0 || c.1 > bound.1 {
            continue;
        }
        for alt in 1..p.enabled {
            if top {
                // Shard the top-level alternatives.
                let mine = *item % shard.1 == shard.0;
                *item += 1;
                if !mine {
                    continue;
                }
            }
            let mut np = x.choices[..i].to_vec();
            np.push(alt);
            rec(&np, c, bound, shard, cap_s, t0, run_one, stats, item, false);
        }
    }
}
