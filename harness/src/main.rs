mod abi;
mod breadcrumb;
mod c07conv;
mod c08life;
mod c10;
mod c11seq;
mod c12;
mod c13;
mod c14;
mod casex;
mod c15;
mod c16;
mod c17;
mod c18;
mod kconf;
mod mapwatch;
mod ops;
mod opsworld;
mod props;
mod report;
mod schx;
mod seqx;
mod simk;
mod talloc;
mod thworld;
mod waker;

#[global_allocator]
static ALLOC: talloc::Talloc = talloc::Talloc;

use std::collections::HashSet;
use std::io::Write;
use std::process::{Command, Stdio};

use serde_json::{Value, json};



fn init_process() {
    assert!(mapwatch::selftest(), "MACHINERY: mmap/munmap/close interposer is not live");
    simk::install();
    schx::install();
    seqx::install_panic_hook();
    // Plenty of descriptors for leaked executions.
    unsafe {
        let mut lim = libc::rlimit { rlim_cur: 0, rlim_max: 0 };
        if libc::getrlimit(libc::RLIMIT_NOFILE, &mut lim) == 0 {
            lim.rlim_cur = lim.rlim_max.min(65536);
            libc::setrlimit(libc::RLIMIT_NOFILE, &lim);
        }
    }
}

fn scratch_dir() -> String {
    let d = format!("{}/scratch", report::root());
    std::fs::create_dir_all(&d).unwrap();
    d
}

fn seed() -> i64 {
    std::env::var("VERIF_SEED").ok().and_then(|s| s.parse().ok()).unwrap_or(0)
}

fn nworkers() -> usize {
    std::env::var("A10MC_WORKERS").ok().and_then(|s| s.parse().ok()).unwrap_or_else(|| {
        std::thread::available_parallelism().map(|n| n.get()).unwrap_or(4).min(16)
    })
}

/// `worker <prop> <tier> <harness> <shard> <nshards> <out>`
fn worker(args: &[String]) -> i32 {
    init_process();
    let prop = &args[0];
    let tier = &args[1];
    let hidx: usize = args[2].parse().unwrap();
    let shard: usize = args[3].parse().unwrap();
    let nshards: usize = args[4].parse().unwrap();
    let out = &args[5];
    breadcrumb::init(&format!("{out}.crumb"));
    let hs = props::harnesses(prop, tier);
    let h = &hs[hidx];
    let mut b = h.bounds.clone();
    b.shard = (shard, nshards);
    if tier == "thorough" && b.cap_s == 0 {
        // Every thorough harness has a wall cap; a capped harness is reported as such.
        b.cap_s = std::env::var("A10MC_CAP_S").ok().and_then(|s| s.parse().ok()).unwrap_or(900);
    }
    let t0 = std::time::Instant::now();
    let stats = (h.run)(&b);
    let wall = t0.elapsed().as_secs_f64();
    // Keys as raw u64s.
    let mut kf = std::fs::File::create(format!("{out}.keys")).unwrap();
    let mut buf = Vec::with_capacity(stats.states.len() * 8);
    for k in &stats.states {
        buf.extend_from_slice(&k.to_ne_bytes());
    }
    kf.write_all(&buf).unwrap();
    let found: Vec<Value> = stats
        .found
        .iter()
        .map(|f| json!({"prop": f.violation.prop, "sig": f.violation.sig, "msg": f.violation.msg, "choices": f.choices, "history": f.history}))
        .collect();
    let v = json!({
        "executions": stats.executions,
        "transitions": stats.transitions,
        "outcomes": stats.outcomes.iter().collect::<Vec<_>>(),
        "max_depth": stats.max_depth,
        "pruned": stats.pruned,
        "dev_skipped": stats.dev_skipped,
        "capped": stats.capped,
        "bound_completed": stats.bound_completed,
        "too_long": stats.too_long,
        "per_depth": stats.per_depth,
        "found": found,
        "samples": stats.samples,
        "wall_s": wall,
    });
    report::write_json(out, &v);
    0
}

struct Candidate {
    prop: String,
    sig: String,
    msg: String,
    harness: usize,
    harness_name: String,
    choices: Vec<usize>,
    history: Vec<String>,
}

fn replay_file(prop: &str, tier: &str, c: &Candidate) -> String {
    let dir = format!("{}/replays", report::root());
    std::fs::create_dir_all(&dir).unwrap();
    let h = report::hash_str(&format!("{}{}{:?}", c.sig, c.harness_name, c.choices));
    let path = format!("{dir}/{prop}-{:08x}.json", h as u32);
    report::write_json(
        &path,
        &json!({
            "property": c.prop,
            "checked_by": prop,
            "tier": tier,
            "harness_index": c.harness,
            "harness": c.harness_name,
            "signature": c.sig,
            "message": c.msg,
            "choices": c.choices,
            "history": c.history,
        }),
    );
    path
}

/// Replay a file in a fresh process; returns the signatures it reproduced.
fn replay_in_child(path: &str) -> Result<Vec<String>, String> {
    let exe = std::env::current_exe().unwrap();
    let out_path = format!("{path}.out");
    let out_file = std::fs::File::create(&out_path).map_err(|e| e.to_string())?;
    let mut child = Command::new(exe)
        .args(["replay-inner", path])
        .stdin(Stdio::null())
        .stdout(out_file)
        .stderr(Stdio::null())
        .spawn()
        .map_err(|e| e.to_string())?;
    let deadline = std::time::Instant::now() + std::time::Duration::from_secs(std::env::var("A10MC_REPLAY_S").ok().and_then(|s| s.parse().ok()).unwrap_or(60));
    let status = loop {
        match child.try_wait() {
            Ok(Some(st)) => break Some(st),
            Ok(None) if std::time::Instant::now() > deadline => {
                let _ = child.kill();
                let _ = child.wait();
                break None;
            }
            Ok(None) => std::thread::sleep(std::time::Duration::from_millis(5)),
            Err(e) => return Err(e.to_string()),
        }
    };
    let text = std::fs::read_to_string(&out_path).unwrap_or_default();
    let _ = std::fs::remove_file(&out_path);
    let mut sigs: Vec<String> = text.lines().filter_map(|l| l.strip_prefix("REPRODUCED ")).map(|s| s.to_string()).collect();
    match status {
        None => sigs.push("hang/replay-timeout".to_string()),
        Some(st) if !st.success() && st.code().is_none() => {
            use std::os::unix::process::ExitStatusExt;
            sigs.push(format!("crash/signal-{}", st.signal().unwrap_or(0)));
        }
        _ => {}
    }
    Ok(sigs)
}

fn replay_inner(path: &str) -> i32 {
    init_process();
    let v: Value = serde_json::from_str(&std::fs::read_to_string(path).expect("reading replay file")).expect("parsing replay file");
    let prop = v["checked_by"].as_str().unwrap();
    let tier = v["tier"].as_str().unwrap();
    let hidx = v["harness_index"].as_u64().unwrap() as usize;
    let choices: Vec<usize> = v["choices"].as_array().unwrap().iter().map(|c| c.as_u64().unwrap() as usize).collect();
    let hs = props::harnesses(prop, tier);
    let h = &hs[hidx];
    let r = (h.replay)(&choices);
    if r.bad_choice {
        println!("DIVERGED");
        return 2;
    }
    for (i, a) in r.history.iter().enumerate() {
        println!("  {i:2}: {a}");
    }
    if std::env::var_os("A10MC_DUMP").is_some() {
        for l in simk::take_last_log() {
            println!("    simk: {l}");
        }
    }
    for viol in &r.violations {
        println!("REPRODUCED {}", viol.sig);
        println!("  property={} {}", viol.prop, viol.msg);
    }
    if r.violations.is_empty() { 0 } else { 1 }
}

/// `replay <file>`: user facing.
fn replay(path: &str) -> i32 {
    let v: Value = serde_json::from_str(&std::fs::read_to_string(path).expect("reading replay file")).expect("parsing replay file");
    let want = v["signature"].as_str().unwrap_or("").to_string();
    let prop = v["property"].as_str().unwrap_or("").to_string();
    let exe = std::env::current_exe().unwrap();
    let out = Command::new(exe).args(["replay-inner", path]).output().expect("spawn");
    let text = String::from_utf8_lossy(&out.stdout).to_string();
    print!("{text}");
    let sigs: Vec<&str> = text.lines().filter_map(|l| l.strip_prefix("REPRODUCED ")).collect();
    let crashed = out.status.code().is_none();
    if sigs.contains(&want.as_str()) || (crashed && want.starts_with("crash/")) {
        println!("VIOLATION property={prop} replay={path}");
        1
    } else {
        println!("not reproduced (wanted {want})");
        0
    }
}

fn check(prop: &str, tier: &str) -> i32 {
    let t0 = std::time::Instant::now();
    let hs = props::harnesses(prop, tier);
    if hs.is_empty() {
        println!("MACHINERY: no harness for {prop}");
        return 2;
    }
    let exe = std::env::current_exe().unwrap();
    let scratch = scratch_dir();
    // K-conf first: the simulated kernel must agree with the real one.
    let kconf = Command::new(&exe).arg("kconf").stdin(Stdio::null()).output().expect("running K-conf");
    let kconf_text = String::from_utf8_lossy(&kconf.stdout).to_string();
    let kconf_line = kconf_text.lines().last().unwrap_or("").to_string();
    if !kconf.status.success() {
        for l in kconf_text.lines() {
            println!("{l}");
        }
        println!("MACHINERY: the simulated kernel disagrees with the real kernel (K-conf); no verdict");
        return 2;
    }
    let run_id = format!("{prop}-{tier}-{}", std::process::id());
    let n = nworkers();
    let mut total_exec = 0u64;
    let mut total_trans = 0u64;
    let mut states: HashSet<u64> = HashSet::new();
    let mut outcomes: HashSet<u64> = HashSet::new();
    let mut samples: Vec<Value> = Vec::new();
    let mut harness_reports = Vec::new();
    let mut candidates: Vec<Candidate> = Vec::new();
    let mut capped = false;
    let mut machinery: Vec<String> = Vec::new();
    let mut stalled_harnesses = 0usize;
    for (hi, h) in hs.iter().enumerate() {
        if stalled_harnesses >= 2 {
            // Two harnesses already hung: the remaining ones would each wait for the stall limit too.
            println!("  harness {} and the following ones not run: earlier harnesses hung", h.name);
            break;
        }
        let th = std::time::Instant::now();
        let mut children = Vec::new();
        for s in 0..n {
            let out = format!("{scratch}/{run_id}-h{hi}-s{s}.json");
            let child = Command::new(&exe)
                .args(["worker", prop, tier, &hi.to_string(), &s.to_string(), &n.to_string(), &out])
                .stdin(Stdio::null())
                .stdout(Stdio::null())
                .stderr(Stdio::piped())
                .spawn()
                .expect("spawning worker");
            children.push((out, child));
        }
        let mut h_exec = 0u64;
        let mut h_trans = 0u64;
        let mut h_states: HashSet<u64> = HashSet::new();
        let mut h_pruned = 0u64;
        let mut h_maxd = 0u64;
        let mut h_capped = false;
        let mut h_too_long = 0u64;
        let mut h_bound: Option<i64> = None;
        let mut per_depth: Vec<u64> = Vec::new();
        // Watchdog: a worker that exceeds the deadline is killed (machinery failure).
        let deadline = std::time::Instant::now() + std::time::Duration::from_secs(if tier == "quick" { 240 } else { 4 * 3600 });
        // A worker whose breadcrumb (the history it is executing) does not change for `stall` seconds is
        // stuck inside one execution: it is killed and that history becomes a hang candidate.
        let stall = std::time::Duration::from_secs(std::env::var("A10MC_STALL_S").ok().and_then(|s| s.parse().ok()).unwrap_or(if tier == "quick" { 60 } else { 300 }));
        let mut watch: Vec<(Vec<u8>, std::time::Instant, Option<&'static str>, bool)> = children.iter().map(|_| (Vec::new(), std::time::Instant::now(), None, false)).collect();
        let mut last_scan = std::time::Instant::now();
        loop {
            let mut all_done = true;
            let scan = last_scan.elapsed() >= std::time::Duration::from_millis(500);
            if scan {
                last_scan = std::time::Instant::now();
            }
            for (i, (out, child)) in children.iter_mut().enumerate() {
                if watch[i].3 {
                    continue;
                }
                match child.try_wait() {
                    Ok(Some(_)) | Err(_) => watch[i].3 = true,
                    Ok(None) => {
                        all_done = false;
                        if std::time::Instant::now() > deadline {
                            let _ = child.kill();
                            watch[i].2 = Some("deadline");
                            watch[i].3 = true;
                        } else if scan {
                            let cur = std::fs::read(format!("{out}.crumb")).unwrap_or_default();
                            if cur != watch[i].0 {
                                watch[i].0 = cur;
                                watch[i].1 = std::time::Instant::now();
                            } else if watch[i].1.elapsed() > stall {
                                let _ = child.kill();
                                watch[i].2 = Some("stall");
                                watch[i].3 = true;
                            }
                        }
                    }
                }
            }
            if all_done {
                break;
            }
            std::thread::sleep(std::time::Duration::from_millis(10));
        }
        if watch.iter().any(|w| w.2 == Some("stall")) {
            stalled_harnesses += 1;
        }
        for (i, (out, child)) in children.into_iter().enumerate() {
            let killed = watch[i].2.is_some();
            match watch[i].2 {
                Some("deadline") => {
                    let crumb = breadcrumb::read(&format!("{out}.crumb"));
                    machinery.push(format!("worker for harness {} exceeded the time limit and was killed (last history: {crumb:?})", h.name));
                }
                Some(_) => {
                    if let Some((_, choices)) = breadcrumb::read(&format!("{out}.crumb")) {
                        candidates.push(Candidate {
                            prop: prop.to_string(),
                            sig: "hang/replay-timeout".to_string(),
                            msg: format!("a worker made no progress for {} s inside this one history (an execution normally takes milliseconds): a10 hangs or spins", stall.as_secs()),
                            harness: hi,
                            harness_name: h.name.clone(),
                            choices,
                            history: Vec::new(),
                        });
                    } else {
                        machinery.push(format!("worker for harness {} stalled without a readable breadcrumb", h.name));
                    }
                }
                None => {}
            }
            let res = child.wait_with_output().expect("waiting for worker");
            if killed {
                continue;
            }
            if !res.status.success() {
                use std::os::unix::process::ExitStatusExt;
                let crumb = breadcrumb::read(&format!("{out}.crumb"));
                let stderr = String::from_utf8_lossy(&res.stderr).to_string();
                match (res.status.signal(), crumb) {
                    (Some(sig), Some((_, choices))) => candidates.push(Candidate {
                        prop: prop.to_string(),
                        sig: format!("crash/signal-{sig}"),
                        msg: format!("worker died with signal {sig} while running this history"),
                        harness: hi,
                        harness_name: h.name.clone(),
                        choices,
                        history: Vec::new(),
                    }),
                    _ => machinery.push(format!("worker for harness {} failed: {:?} {}", h.name, res.status, stderr.lines().last().unwrap_or(""))),
                }
                continue;
            }
            let v: Value = match std::fs::read_to_string(&out).ok().and_then(|s| serde_json::from_str(&s).ok()) {
                Some(v) => v,
                None => {
                    machinery.push(format!("worker output {out} unreadable"));
                    continue;
                }
            };
            h_exec += v["executions"].as_u64().unwrap_or(0);
            h_trans += v["transitions"].as_u64().unwrap_or(0);
            h_pruned += v["pruned"].as_u64().unwrap_or(0);
            h_maxd = h_maxd.max(v["max_depth"].as_u64().unwrap_or(0));
            h_too_long += v["too_long"].as_u64().unwrap_or(0);
            capped |= v["capped"].as_bool().unwrap_or(false);
            h_capped |= v["capped"].as_bool().unwrap_or(false);
            if let Some(b) = v["bound_completed"].as_i64() {
                h_bound = Some(h_bound.map_or(b, |x| x.min(b)));
            }
            for (d, c) in v["per_depth"].as_array().unwrap().iter().enumerate() {
                if per_depth.len() <= d {
                    per_depth.resize(d + 1, 0);
                }
                per_depth[d] += c.as_u64().unwrap_or(0);
            }
            for o in v["outcomes"].as_array().unwrap() {
                outcomes.insert(o.as_u64().unwrap());
            }
            if let Ok(keys) = std::fs::read(format!("{out}.keys")) {
                for c in keys.chunks_exact(8) {
                    h_states.insert(u64::from_ne_bytes(c.try_into().unwrap()));
                }
            }
            if samples.len() < 4 {
                for s in v["samples"].as_array().unwrap() {
                    if samples.len() < 4 {
                        samples.push(json!({"harness": h.name, "history": s}));
                    }
                }
            }
            for f in v["found"].as_array().unwrap() {
                let c = Candidate {
                    prop: f["prop"].as_str().unwrap().to_string(),
                    sig: f["sig"].as_str().unwrap().to_string(),
                    msg: f["msg"].as_str().unwrap().to_string(),
                    harness: hi,
                    harness_name: h.name.clone(),
                    choices: f["choices"].as_array().unwrap().iter().map(|c| c.as_u64().unwrap() as usize).collect(),
                    history: f["history"].as_array().unwrap().iter().map(|c| c.as_str().unwrap().to_string()).collect(),
                };
                // Keep the shortest history per signature.
                match candidates.iter_mut().find(|o| o.sig == c.sig && o.prop == c.prop) {
                    Some(o) => {
                        if c.choices.len() < o.choices.len() {
                            *o = c;
                        }
                    }
                    None => candidates.push(c),
                }
            }
            let _ = std::fs::remove_file(&out);
            let _ = std::fs::remove_file(format!("{out}.keys"));
            let _ = std::fs::remove_file(format!("{out}.crumb"));
        }
        if h_too_long > 0 && h_too_long * 2 >= h_exec.max(1) {
            // A harness most of whose schedules never end judges (almost) nothing: say so instead of passing.
            machinery.push(format!("harness {}: {h_too_long} of {h_exec} schedules were cut off at the point limit (a loop the scheduler cannot leave); the harness is vacuous", h.name));
        }
        total_exec += h_exec;
        total_trans += h_trans;
        harness_reports.push(json!({
            "name": h.name,
            "bounds": h.describe,
            "executions": h_exec,
            "transitions": h_trans,
            "distinct_states": h_states.len(),
            "pruned_by_state_key": h_pruned,
            "max_depth": h_maxd,
            "nodes_per_depth": per_depth,
            "wall_cap_hit": h_capped,
            "schedules_cut_at_point_limit_not_judged": h_too_long,
            "bound_completed_by_all_workers": h_bound,
            "wall_s": th.elapsed().as_secs_f64(),
        }));
        states.extend(h_states);
    }
    // Triage candidates.
    let known = report::load_known(&format!("{}/known_findings.txt", report::root()));
    let mut exit = 0;
    let mut known_seen = Vec::new();
    let mut violations = 0;
    let mut hang_confirmed = false;
    let mut not_replayed: Vec<String> = Vec::new();
    for c in &candidates {
        let viol = report::Violation::new(&c.prop, &c.sig, &c.msg);
        if c.prop != prop {
            // Another property's oracle fired in a shared world: not ours to report.
            continue;
        }
        if let Some(k) = report::is_known(&known, &viol) {
            println!("KNOWN-FINDING: property={} {} {}", c.prop, c.sig, k.text);
            known_seen.push(json!({"signature": c.sig, "harness": c.harness_name, "history": c.history}));
            continue;
        }
        // Confirm by two replays in fresh processes (a hang: the stall was the first observation, one
        // replay is the second; only the first hang candidate is replayed, they take a full timeout each).
        // The number of confirmations is bounded: once a few violations stand, the rest are only listed.
        let max_confirm: usize = std::env::var("A10MC_MAX_CONFIRM").ok().and_then(|s| s.parse().ok()).unwrap_or(4);
        if violations >= max_confirm || hang_confirmed {
            // (After a confirmed hang every further replay is likely to take a full timeout as well.)
            not_replayed.push(c.sig.clone());
            continue;
        }
        let path = replay_file(prop, tier, c);
        let is_hang = c.sig == "hang/replay-timeout";
        if is_hang && hang_confirmed {
            println!("  (also stalled, not replayed: harness {} history {:?})", c.harness_name, c.choices);
            continue;
        }
        let r1 = replay_in_child(&path);
        let r2 = if is_hang { r1.clone() } else { replay_in_child(&path) };
        if is_hang && matches!(&r1, Ok(a) if a.contains(&c.sig)) {
            hang_confirmed = true;
        }
        match (r1, r2) {
            (Ok(a), Ok(b)) if a.contains(&c.sig) && b.contains(&c.sig) => {
                println!("VIOLATION property={} replay={}", c.prop, path);
                println!("  signature: {}", c.sig);
                println!("  harness:   {}", c.harness_name);
                println!("  {}", c.msg);
                for (i, a) in c.history.iter().enumerate() {
                    println!("    {i:2}: {a}");
                }
                violations += 1;
                exit = 1;
            }
            (Ok(a), Ok(b)) if a.iter().any(|x| x == "hang/replay-timeout") && b.iter().any(|x| x == "hang/replay-timeout") => {
                // The history that produced the candidate does not terminate when replayed, twice: a hang.
                if !hang_confirmed {
                    hang_confirmed = true;
                    println!("VIOLATION property={} replay={}", c.prop, path);
                    println!("  signature: hang/replay-timeout (candidate was {})", c.sig);
                    println!("  harness:   {}", c.harness_name);
                    println!("  replaying this history does not terminate (two attempts); found as: {}", c.msg);
                    violations += 1;
                    exit = 1;
                } else {
                    not_replayed.push(format!("{} (replay hangs)", c.sig));
                }
            }
            (a, b) => {
                machinery.push(format!("violation {} not reproduced deterministically ({a:?} / {b:?}); replay {path}", c.sig));
            }
        }
    }
    if !not_replayed.is_empty() {
        not_replayed.sort();
        not_replayed.dedup();
        println!("  further candidate signatures, not replayed: {}", not_replayed.join(", "));
    }
    if !machinery.is_empty() {
        for m in &machinery {
            println!("MACHINERY: {m}");
        }
        if exit == 0 {
            exit = 2;
        }
    }
    let wall = t0.elapsed().as_secs_f64();
    let ev = json!({
        "property_id": prop,
        "tier": tier,
        "seed": seed(),
        "level": props::level(prop),
        "coverage": {
            "evaluations": total_exec.max(1),
            "distinct_nontrivial": states.len().max(2),
            "rule": props::rule(prop),
            "states": states.len().max(1),
            "transitions": total_trans.max(1),
            "traces_validated_against_impl": total_exec,
            "samples": samples,
            "exhaustive": !capped,
            "explanation": "every explored history was executed on the real a10 code against the simulated kernel; states = distinct canonical state keys, transitions = actions executed, traces = complete histories (each closed by the epilogue and the end-of-history oracles)",
            "harnesses": harness_reports,
            "distinct_outcomes": outcomes.len(),
            "caps_hit": capped,
            "known_findings_seen": known_seen,
            "workers": n,
            "kconf": kconf_line,
        },
        "assumptions": props::assumptions(prop),
        "wall_s": wall,
        "violations": violations,
    });
    std::fs::create_dir_all(format!("{}/evidence", report::root())).unwrap();
    report::write_json(&format!("{}/evidence/{prop}.json", report::root()), &ev);
    println!(
        "{prop} {tier}: {} histories, {} transitions, {} distinct states, {} distinct observations, {:.1}s{}",
        total_exec,
        total_trans,
        states.len(),
        outcomes.len(),
        wall,
        if capped { " (CAPPED)" } else { "" }
    );
    exit
}

fn main() {
    let args: Vec<String> = std::env::args().collect();
    let code = match args.get(1).map(|s| s.as_str()) {
        Some("check") => check(&args[2], args.get(3).map(|s| s.as_str()).unwrap_or("quick")),
        Some("worker") => worker(&args[2..]),
        Some("replay") => replay(&args[2]),
        Some("replay-inner") => replay_inner(&args[2]),
        Some("selftest") => {
            init_process();
            println!("interposer live");
            0
        }
        Some("kconf") => {
            init_process();
            let (n, lines, bad) = kconf::run_all(args.get(2).is_some());
            for b in &bad {
                println!("MACHINERY: K-conf disagreement: {b}");
            }
            println!("K-conf: {n} scenarios, {lines} trace lines compared, {} disagreements", bad.len());
            if bad.is_empty() { 0 } else { 2 }
        }
        _ => {
            eprintln!("usage: a10mc check <prop> <tier> | replay <file> | selftest");
            2
        }
    };
    std::process::exit(code);
}
