mod abi;
mod mapwatch;
mod schx;
mod simk;
mod talloc;
mod waker;

#[global_allocator]
static ALLOC: talloc::Talloc = talloc::Talloc;

use std::future::Future;
use std::pin::Pin;
use std::task::{Context, Poll};

fn smoke() {
    assert!(mapwatch::selftest(), "interposer dead");
    simk::install();
    talloc::set_on_free(Some(simk::on_free));
    let t0 = std::time::Instant::now();
    let n = 20000;
    for it in 0..n {
        simk::reset(simk::SetupPlan::default());
        talloc::arm();
        let w = waker::HWaker::new(1);
        let res = talloc::track(|| {
            let mut ring = a10::Ring::config().with_submission_queue_size(2).build().unwrap();
            let sq = ring.sq();
            let fd = simk::with(|k| k.new_regular_pub());
            let afd = unsafe { a10::AsyncFd::from_raw_fd(fd, sq) };
            let mut fut = Box::pin(afd.read(Vec::with_capacity(8)));
            let mut cx = Context::from_waker(&w.waker);
            assert!(fut.as_mut().poll(&mut cx).is_pending());
            ring.poll(Some(std::time::Duration::ZERO)).unwrap();
            let s = simk::with(|k| k.inflight());
            assert_eq!(s.len(), 1);
            simk::with(|k| k.complete(s[0], simk::Out::Res(5)));
            ring.poll(Some(std::time::Duration::ZERO)).unwrap();
            let r = match fut.as_mut().poll(&mut cx) {
                Poll::Ready(r) => r.unwrap(),
                Poll::Pending => panic!("pending"),
            };
            drop(fut);
            drop(afd);
            drop(ring);
            r
        });
        let viol = simk::with(|k| std::mem::take(&mut k.violations));
        let log = simk::with(|k| k.log.len());
        simk::shutdown();
        let rep = talloc::disarm();
        if it == 0 || it == n - 1 {
            println!("res={res:?} wakes={} viol={viol:?} log={log} leaked={:?} df={} tracked={}", w.wakes(), rep.leaked, rep.double_frees, rep.tracked);
            println!("map events: {:?}", mapwatch::events());
        }
    }
    println!("{:?} per history", t0.elapsed() / n);
}

fn main() {
    let args: Vec<String> = std::env::args().collect();
    match args.get(1).map(|s| s.as_str()) {
        Some("smoke") => smoke(),
        _ => eprintln!("usage"),
    }
}
