//! C14: buffer trait implementations obey the pointer/length/initialisation laws.
//!
//! Bounded exhaustive enumeration: every provided implementation and wrapper,
//! over small capacities / fill levels / limits (incl. limits >= 2^32), every
//! arity 1..8 of arrays and tuples, every n for set_init.
#![allow(dead_code)]

use std::borrow::Cow;
use std::sync::Arc;

use a10::io::{Buf, BufMut, BufMutSlice, BufSlice, IoMutSlice, IoSlice, StaticBuf};

use crate::report::Violation;

#[derive(Clone, Debug)]
pub enum Case {
    /// Read-side buffer type `ty` over `len` bytes, optionally limited.
    Buf { ty: u8, len: usize, limit: Option<usize> },
    /// `Vec<u8>` write-side: capacity, fill, limit, bytes to initialise.
    Mut { cap: usize, fill: usize, limit: Option<usize> },
    /// Array / tuple of read-side buffers with these lengths.
    Slice { lens: Vec<usize>, tuple: bool, limit: Option<usize> },
    /// Array / tuple of `Vec<u8>` with these (capacity, fill).
    MutSlice { bufs: Vec<(usize, usize)>, tuple: bool, limit: Option<usize> },
    /// A pool `ReadBuf` of `size` bytes holding `fill` bytes (filled by a simulated kernel read):
    /// the `Buf` and `BufMut` laws on it, `n` more bytes marked initialised, optionally limited.
    PoolBuf { size: u32, fill: usize, limit: Option<usize> },
    /// A `&'static [u8]` / `&'static str` of `len` bytes (2^32-1 and more) over a lazily mapped,
    /// never touched region, optionally limited: the laws that do not read the bytes.
    Huge { str_slice: bool, len: usize, limit: Option<usize> },
}

/// A read-only region of a bit more than 5 GiB that is never touched (no memory is committed).
fn huge_region() -> &'static [u8] {
    static REGION: std::sync::OnceLock<usize> = std::sync::OnceLock::new();
    const LEN: usize = (5 << 30) + 4096;
    let addr = *REGION.get_or_init(|| {
        let p = unsafe { libc::mmap(std::ptr::null_mut(), LEN, libc::PROT_READ, libc::MAP_PRIVATE | libc::MAP_ANONYMOUS | libc::MAP_NORESERVE, -1, 0) };
        assert!(p != libc::MAP_FAILED, "mapping the huge region");
        p as usize
    });
    unsafe { std::slice::from_raw_parts(addr as *const u8, LEN) }
}

fn run_pool_buf(size: u32, fill: usize, limit: Option<usize>, out: &mut Vec<Violation>) {
    use std::task::Context;
    use std::time::Duration;
    use crate::ops::{self, Kind, Seen};
    use crate::simk::{self, Out};
    crate::waker::reset_clock();
    simk::reset(simk::SetupPlan::default());
    let mut ring = a10::Ring::config().with_submission_queue_size(4).build().expect("ring");
    let sq = ring.sq();
    let raw = simk::with(|k| k.new_regular_pub());
    let fd: &'static a10::AsyncFd = Box::leak(Box::new(unsafe { a10::AsyncFd::from_raw_fd(raw, sq.clone()) }));
    let pool = a10::io::ReadBufPool::new(sq.clone(), 2, size).expect("pool");
    let env = ops::Env { sq: &sq, fd, pool: Some(&pool), nth: 0 };
    let mut op = ops::make(Kind::ReadPool, &env);
    let w = crate::waker::HWaker::new(1);
    let mut cx = Context::from_waker(&w.waker);
    assert_eq!(op.poll(&mut cx), Seen::Pending);
    let _ = ring.poll(Some(Duration::ZERO));
    let s = simk::with(|k| *k.inflight().last().unwrap());
    simk::with(|k| k.complete(s, Out::Res(fill as i32)));
    let _ = ring.poll(Some(Duration::ZERO));
    assert!(matches!(op.poll(&mut cx), Seen::Ready(_)));
    let mut buf = op.bufs.borrow_mut().pop().unwrap();
    drop(op);
    let slot = simk::with(|k| {
        let pb = &k.rings[0].pbufs[0];
        (0..pb.entries as usize).map(|i| unsafe { std::ptr::read_volatile((pb.addr + i * 16) as *const crate::abi::BufRingEntry) }).map(|e| (e.addr as usize, e.len as usize)).find(|(a, l)| (buf.as_ptr() as usize) >= *a && (buf.as_ptr() as usize) < *a + *l)
    });
    let what = "ReadBuf";
    {
        // A ReadBuf that has no buffer yet (fresh from the pool): nothing exposed, nothing spare.
        let mut fresh = pool.get();
        let (wp, wl) = unsafe { BufMut::parts_mut(&mut fresh) };
        let (sc, has) = (BufMut::spare_capacity(&fresh), BufMut::has_spare_capacity(&fresh));
        let (rp, rl) = unsafe { Buf::parts(&fresh) };
        let _ = (wp, rp);
        if wl != sc || has != (wl > 0) || rl as usize != Buf::len(&fresh) || rl != 0 {
            out.push(v(&format!("pool-buf/unassigned/{what}"), format!("a ReadBuf without a buffer: parts_mut() exposes {wl} bytes, spare_capacity() = {sc}, has_spare_capacity() = {has}; parts() exposes {rl} bytes, len() = {}", Buf::len(&fresh))));
        }
        drop(fresh);
    }
    let Some((base, cap)) = slot else {
        out.push(v("pool-buf/outside-slot", format!("a {size}-byte pool buffer filled with {fill} bytes points at {:#x}, inside no buffer of its pool", buf.as_ptr() as usize)));
        std::mem::forget(buf);
        std::mem::forget(pool);
        std::mem::forget(ring);
        simk::shutdown();
        return;
    };
    let held: Vec<u8> = buf[..].to_vec();
    // Read side.
    let (rp, rl) = unsafe { Buf::parts(&buf) };
    if rp as usize != base || rl as usize != fill || Buf::len(&buf) != fill || Buf::is_empty(&buf) != (fill == 0) {
        out.push(v(&format!("pool-buf/read-side/{what}"), format!("{size}-byte buffer at {base:#x} holding {fill} bytes: parts() = ({:#x}, {rl}), len() = {}, is_empty() = {}", rp as usize, Buf::len(&buf), Buf::is_empty(&buf))));
    }
    // Write side, directly and through a limit.
    let spare = cap - fill;
    let check_mut = |b: &mut dyn FnMut() -> ((*mut u8, u32), u32, bool), bound: usize, out: &mut Vec<Violation>| {
        let ((wp, wl), sc, has) = b();
        let want = spare.min(bound);
        if wl as usize > want || (wl > 0 && wp as usize != base + fill) || sc as usize != wl as usize || has != (want > 0) || (want > 0 && wl == 0) {
            out.push(v(&format!("pool-buf/write-side/{what}"), format!("{size}-byte buffer at {base:#x} holding {fill} bytes (limit {limit:?}): parts_mut() = ({:#x}, {wl}), spare_capacity() = {sc}, has_spare_capacity() = {has}; the spare part is {want} bytes at {:#x}", wp as usize, base + fill)));
        }
    };
    match limit {
        None => {
            check_mut(&mut || (unsafe { BufMut::parts_mut(&mut buf) }, BufMut::spare_capacity(&buf), BufMut::has_spare_capacity(&buf)), usize::MAX, out);
            // Mark every possible n initialised after writing a pattern into the spare part.
            let n = spare;
            let (wp, wl) = unsafe { BufMut::parts_mut(&mut buf) };
            if wl as usize >= n && wp as usize == base + fill {
                for j in 0..n {
                    unsafe { wp.add(j).write(0xC0 + j as u8) };
                }
                unsafe { BufMut::set_init(&mut buf, n) };
                let mut want = held.clone();
                want.extend((0..n).map(|j| 0xC0 + j as u8));
                if buf[..] != want[..] {
                    out.push(v(&format!("pool-buf/set-init/{what}"), format!("{size}-byte buffer holding {held:02x?}: after writing {n} bytes through parts_mut and set_init({n}) it holds {:02x?}, expected {want:02x?}", &buf[..])));
                }
            }
        }
        Some(l) => {
            let mut lb = BufMut::limit(buf, l);
            check_mut(&mut || (unsafe { BufMut::parts_mut(&mut lb) }, BufMut::spare_capacity(&lb), BufMut::has_spare_capacity(&lb)), l, out);
            buf = lb.into_inner();
        }
    }
    if out.is_empty() {
        drop(buf);
        drop(pool);
        drop(unsafe { Box::from_raw(std::ptr::from_ref(fd).cast_mut()) });
        let _ = ring.poll(Some(Duration::ZERO));
        drop(ring);
        drop(sq);
    } else {
        std::mem::forget(buf);
        std::mem::forget(pool);
        std::mem::forget(ring);
    }
    simk::shutdown();
}

fn run_huge(str_slice: bool, len: usize, limit: Option<usize>, out: &mut Vec<Violation>) {
    let region = huge_region();
    let slice: &'static [u8] = &region[..len];
    fn laws<B: Buf>(b: &B, what: &str, base: usize, len: usize, limit: Option<usize>, out: &mut Vec<Violation>) {
        let (ptr, plen) = unsafe { b.parts() };
        let plen = plen as usize;
        let bound = limit.map_or(len, |l| l.min(len));
        if (ptr as usize) != base || plen > bound {
            out.push(v(&format!("huge/outside-buffer/{what}"), format!("a {len}-byte buffer (limit {limit:?}) exposes {plen} bytes at {:#x}; its memory is {len} bytes at {base:#x}", ptr as usize)));
        }
        if b.len() != plen {
            out.push(v(&format!("huge/len-disagrees/{what}"), format!("a {len}-byte buffer (limit {limit:?}): len() = {} but the pointer/length pair exposes {plen} bytes", b.len())));
        }
        if b.is_empty() != (plen == 0) {
            out.push(v(&format!("huge/len-disagrees/{what}"), format!("a {len}-byte buffer (limit {limit:?}): is_empty() = {} but the pointer/length pair exposes {plen} bytes", b.is_empty())));
        }
        if plen == 0 && bound > 0 {
            out.push(v(&format!("huge/nothing-exposed/{what}"), format!("a {len}-byte buffer (limit {limit:?}) exposes no bytes at all")));
        }
    }
    let base = slice.as_ptr() as usize;
    match (str_slice, limit) {
        (false, None) => laws(&slice, "static-slice", base, len, limit, out),
        (false, Some(l)) => laws(&slice.limit(l), "static-slice", base, len, limit, out),
        (true, _) => {
            // (All zero bytes: valid UTF-8; the conversion is unchecked so that the region stays untouched.)
            let s: &'static str = unsafe { std::str::from_utf8_unchecked(slice) };
            match limit {
                None => laws(&s, "static-str", base, len, limit, out),
                Some(l) => laws(&s.limit(l), "static-str", base, len, limit, out),
            }
        }
    }
}

fn v(sig: &str, msg: String) -> Violation {
    Violation::new("C14", sig, &msg)
}

fn data(i: usize, len: usize) -> Vec<u8> {
    (0..len).map(|j| (0x11 * (i + 1) + j * 3) as u8).collect()
}

static STATIC_DATA: [u8; 16] = [0xA0, 0xA1, 0xA2, 0xA3, 0xA4, 0xA5, 0xA6, 0xA7, 0xA8, 0xA9, 0xAA, 0xAB, 0xAC, 0xAD, 0xAE, 0xAF];
static STATIC_STR: &str = "0123456789abcdef";

fn iov(s: &IoSlice) -> (usize, usize) {
    const _: () = assert!(size_of::<IoSlice>() == size_of::<libc::iovec>());
    let raw: libc::iovec = unsafe { std::mem::transmute_copy(s) };
    (raw.iov_base as usize, raw.iov_len)
}

fn iov_mut(s: &IoMutSlice) -> (usize, usize) {
    const _: () = assert!(size_of::<IoMutSlice>() == size_of::<libc::iovec>());
    let raw: libc::iovec = unsafe { std::mem::transmute_copy(s) };
    (raw.iov_base as usize, raw.iov_len)
}

/// Laws of a read-side buffer whose content must be `want` (after applying `limit`).
fn check_buf<B: Buf>(name: &str, b: &B, full: &[u8], region: (usize, usize), limit: Option<usize>, out: &mut Vec<Violation>) {
    let want_len = limit.map_or(full.len(), |l| l.min(full.len()));
    let (ptr, len) = unsafe { b.parts() };
    let (ptr, len) = (ptr as usize, len as usize);
    if len != want_len {
        out.push(v(&format!("wrong-exposed-length/{name}"), format!("{name}: parts() exposes {len} bytes, the buffer holds {} and the limit is {limit:?}", full.len())));
        return;
    }
    if len > 0 && (ptr < region.0 || ptr + len > region.0 + region.1) {
        out.push(v(&format!("outside-own-memory/{name}"), format!("{name}: parts() = ({ptr:#x}, {len}) is outside the buffer's memory {:#x}+{}", region.0, region.1)));
        return;
    }
    let got = unsafe { std::slice::from_raw_parts(ptr as *const u8, len) };
    if got != &full[..want_len] {
        out.push(v(&format!("wrong-bytes/{name}"), format!("{name}: parts() exposes {got:02x?}, expected {:02x?}", &full[..want_len])));
    }
    if b.len() != len || b.is_empty() != (len == 0) || b.as_slice() != got {
        out.push(v(&format!("len-disagrees/{name}"), format!("{name}: len()={} is_empty()={} as_slice().len()={} but parts() exposes {len} bytes", b.len(), b.is_empty(), b.as_slice().len())));
    }
}

fn run_buf(ty: u8, len: usize, limit: Option<usize>, out: &mut Vec<Violation>) {
    macro_rules! go {
        ($name:expr, $b:expr, $full:expr) => {{
            let b = $b;
            let full: Vec<u8> = $full;
            let region = {
                let s = b.as_slice();
                (s.as_ptr() as usize, s.len())
            };
            // The region is taken from the unlimited buffer's own slice: an
            // independent accessor (Deref / as_bytes), not from parts().
            match limit {
                None => check_buf($name, &b, &full, region, None, out),
                Some(l) => {
                    let lb = a10::io::LimitedBuf::new(b, l);
                    check_buf(concat!("LimitedBuf<", $name, ">"), &lb, &full, region, Some(l), out)
                }
            }
        }};
    }
    let d = data(ty as usize, len);
    let s: String = STATIC_STR[..len.min(16)].to_string();
    match ty {
        0 => go!("Vec<u8>", d.clone(), d.clone()),
        1 => go!("Box<[u8]>", d.clone().into_boxed_slice(), d.clone()),
        2 => go!("String", s.clone(), s.clone().into_bytes()),
        3 => go!("Box<str>", s.clone().into_boxed_str(), s.clone().into_bytes()),
        4 => go!("&'static [u8]", &STATIC_DATA[..len.min(16)], STATIC_DATA[..len.min(16)].to_vec()),
        5 => go!("&'static str", &STATIC_STR[..len.min(16)], STATIC_STR[..len.min(16)].as_bytes().to_vec()),
        6 => go!("Cow<[u8]>::Borrowed", Cow::Borrowed(&STATIC_DATA[..len.min(16)]), STATIC_DATA[..len.min(16)].to_vec()),
        7 => go!("Cow<[u8]>::Owned", Cow::<'static, [u8]>::Owned(d.clone()), d.clone()),
        8 => go!("Cow<str>::Borrowed", Cow::Borrowed(&STATIC_STR[..len.min(16)]), STATIC_STR[..len.min(16)].as_bytes().to_vec()),
        9 => go!("Cow<str>::Owned", Cow::<'static, str>::Owned(s.clone()), s.clone().into_bytes()),
        10 => go!("Arc<[u8]>", Arc::<[u8]>::from(d.clone()), d.clone()),
        11 => go!("Arc<str>", Arc::<str>::from(s.as_str()), s.clone().into_bytes()),
        12 => go!("StaticBuf", StaticBuf::from(&STATIC_DATA[..len.min(16)]), STATIC_DATA[..len.min(16)].to_vec()),
        13 => go!("StaticBuf(str)", StaticBuf::from(&STATIC_STR[..len.min(16)]), STATIC_STR[..len.min(16)].as_bytes().to_vec()),
        _ => unreachable!(),
    }
}

pub const N_BUF_TYPES: u8 = 14;

fn mk_vec(i: usize, cap: usize, fill: usize) -> Vec<u8> {
    let mut v = Vec::with_capacity(cap);
    v.extend_from_slice(&data(i, fill.min(cap)));
    v
}

/// Laws of a single write-side buffer up to and including `set_init(n)`.
/// Returns false if a law already failed.
#[allow(clippy::too_many_arguments)]
fn mut_laws<B: BufMut>(name: &str, b: &mut B, base: usize, before_len: usize, real_cap: usize, spare: usize, want: usize, limit: Option<usize>, n: usize, out: &mut Vec<Violation>) -> bool {
    let (ptr, len) = unsafe { b.parts_mut() };
    let (ptr, len) = (ptr as usize, len as usize);
    let sc = b.spare_capacity() as usize;
    let hs = b.has_spare_capacity();
    if len != want {
        out.push(v(&format!("spare-exceeds-limit-or-capacity/{name}"), format!("{name}: parts_mut() exposes {len} bytes, spare capacity is {spare} and the limit is {limit:?}")));
        return false;
    }
    if sc != len || hs != (len > 0) {
        out.push(v(&format!("spare-disagrees/{name}"), format!("{name}: spare_capacity()={sc} has_spare_capacity()={hs} but parts_mut() exposes {len} bytes (capacity {real_cap}, len {before_len}, limit {limit:?})")));
        return false;
    }
    if len > 0 && (ptr != base + before_len || ptr + len > base + real_cap) {
        out.push(v(&format!("outside-own-memory/{name}"), format!("{name}: parts_mut() = ({ptr:#x}, {len}) is not the spare region of the vector at {base:#x} (len {before_len}, capacity {real_cap})")));
        return false;
    }
    for i in 0..n {
        unsafe { ((ptr + i) as *mut u8).write(0xE0 | i as u8) };
    }
    unsafe { b.set_init(n) };
    // Afterwards: the limit decreased by exactly n.
    let (_, len2) = unsafe { b.parts_mut() };
    let want2 = limit.map_or(spare - n, |l| (l - n).min(spare - n));
    if len2 as usize != want2 {
        out.push(v(&format!("limit-not-decreased/{name}"), format!("{name}: after set_init({n}) parts_mut() exposes {len2} bytes, expected {want2}")));
        return false;
    }
    true
}

/// Laws of a single write-side buffer (`Vec<u8>`, optionally limited), for every n.
fn run_mut(cap: usize, fill: usize, limit: Option<usize>, out: &mut Vec<Violation>) {
    let probe = mk_vec(0, cap, fill);
    let real_cap = probe.capacity();
    let spare = real_cap - probe.len();
    let want = limit.map_or(spare, |l| l.min(spare));
    drop(probe);
    for n in 0..=want {
        let mut v0 = mk_vec(0, cap, fill);
        let base = v0.as_ptr() as usize;
        let before = v0.clone();
        let name = if limit.is_some() { "LimitedBuf<Vec<u8>>" } else { "Vec<u8>" };
        let after = match limit {
            None => {
                if !mut_laws(name, &mut v0, base, before.len(), real_cap, spare, want, limit, n, out) {
                    return;
                }
                v0
            }
            Some(l) => {
                let mut lb = a10::io::LimitedBuf::new(v0, l);
                if !mut_laws(name, &mut lb, base, before.len(), real_cap, spare, want, limit, n, out) {
                    return;
                }
                lb.into_inner()
            }
        };
        let mut expect = before.clone();
        expect.extend((0..n).map(|i| 0xE0 | i as u8));
        if after != expect {
            out.push(v(&format!("set-init-wrong/{name}"), format!("{name}: after writing {n} bytes and set_init({n}) the vector holds {after:02x?}, expected {expect:02x?}")));
            return;
        }
    }
    // extend_from_slice: copies as much as fits (and the limit allows), reports how much.
    let mut ks = vec![0usize, 1, want, want + 1, want + 5];
    ks.sort();
    ks.dedup();
    for k in ks {
        let bytes: Vec<u8> = (0..k).map(|i| 0xC0 ^ (i as u8 * 3)).collect();
        let v0 = mk_vec(0, cap, fill);
        let before = v0.clone();
        let name = if limit.is_some() { "LimitedBuf<Vec<u8>>" } else { "Vec<u8>" };
        let (ret, after) = match limit {
            None => {
                let mut b = v0;
                let r = BufMut::extend_from_slice(&mut b, &bytes);
                (r, b)
            }
            Some(l) => {
                let mut lb = a10::io::LimitedBuf::new(v0, l);
                let r = BufMut::extend_from_slice(&mut lb, &bytes);
                (r, lb.into_inner())
            }
        };
        let m = k.min(want);
        let mut expect = before.clone();
        expect.extend_from_slice(&bytes[..m]);
        if ret != m || after != expect {
            out.push(v(&format!("extend-wrong/{name}"), format!("{name}: extend_from_slice of {k} bytes into spare {spare} (limit {limit:?}) returns {ret} and leaves {after:02x?}, expected {m} and {expect:02x?}")));
            return;
        }
    }
}

macro_rules! arr_case {
    ($n:literal, $items:expr, $f:expr) => {{
        let items = $items;
        let mut it = items.into_iter();
        let arr: [_; $n] = std::array::from_fn(|_| it.next().unwrap());
        $f(arr)
    }};
}

fn check_slice_common(name: &str, iovs: Vec<(usize, usize)>, total_len: usize, is_empty: bool, members: &[Vec<u8>], regions: &[(usize, usize)], limit: Option<usize>, out: &mut Vec<Violation>) {
    let total: usize = members.iter().map(|m| m.len()).sum();
    let want_total = limit.map_or(total, |l| l.min(total));
    let sum: usize = iovs.iter().map(|i| i.1).sum();
    if sum != want_total {
        out.push(v(&format!("limit-exceeded/{name}"), format!("{name}: the I/O vectors expose {sum} bytes in total ({:?}), the buffers hold {total} and the limit is {limit:?}", iovs.iter().map(|i| i.1).collect::<Vec<_>>())));
        return;
    }
    // Front to back.
    let mut left = want_total;
    for (i, (ptr, len)) in iovs.iter().enumerate() {
        let want = left.min(members[i].len());
        if *len != want {
            out.push(v(&format!("not-front-to-back/{name}"), format!("{name}: vector {i} exposes {len} bytes, expected {want} (limit {limit:?}, lengths {:?})", members.iter().map(|m| m.len()).collect::<Vec<_>>())));
            return;
        }
        left -= want;
        if *len > 0 {
            if *ptr < regions[i].0 || ptr + len > regions[i].0 + regions[i].1 {
                out.push(v(&format!("outside-own-memory/{name}"), format!("{name}: vector {i} = ({ptr:#x}, {len}) is outside member {i}'s memory")));
                return;
            }
            let got = unsafe { std::slice::from_raw_parts(*ptr as *const u8, *len) };
            if got != &members[i][..*len] {
                out.push(v(&format!("wrong-bytes/{name}"), format!("{name}: vector {i} exposes {got:02x?}")));
            }
        }
    }
    if total_len != want_total || is_empty != (want_total == 0) {
        out.push(v(&format!("len-disagrees/{name}"), format!("{name}: total_len()={total_len} is_empty()={is_empty} but the vectors expose {want_total} bytes")));
    }
}

fn run_slice(lens: &[usize], tuple: bool, limit: Option<usize>, out: &mut Vec<Violation>) {
    let members: Vec<Vec<u8>> = lens.iter().enumerate().map(|(i, l)| data(i, *l)).collect();
    macro_rules! finish {
        ($name:expr, $b:expr, $regions:expr) => {{
            let b = $b;
            let regions: Vec<(usize, usize)> = $regions;
            match limit {
                None => {
                    let iovs = unsafe { b.as_iovecs() }.iter().map(iov).collect();
                    check_slice_common($name, iovs, b.total_len(), BufSlice::is_empty(&b), &members, &regions, None, out);
                }
                Some(l) => {
                    let lb = a10::io::LimitedBuf::new(b, l);
                    let iovs = unsafe { lb.as_iovecs() }.iter().map(iov).collect();
                    check_slice_common(concat!("LimitedBuf<", $name, ">"), iovs, lb.total_len(), BufSlice::is_empty(&lb), &members, &regions, Some(l), out);
                }
            }
        }};
    }
    let regions = |ms: &[Vec<u8>]| -> Vec<(usize, usize)> { ms.iter().map(|m| (m.as_ptr() as usize, m.len())).collect() };
    if !tuple {
        macro_rules! arr {
            ($n:literal) => {{
                let ms = members.clone();
                let r = regions(&ms);
                let mut it = ms.into_iter();
                let a: [Vec<u8>; $n] = std::array::from_fn(|_| it.next().unwrap());
                finish!("[Vec<u8>; N]", a, r)
            }};
        }
        match lens.len() {
            1 => arr!(1),
            2 => arr!(2),
            3 => arr!(3),
            4 => arr!(4),
            5 => arr!(5),
            6 => arr!(6),
            7 => arr!(7),
            8 => arr!(8),
            _ => unreachable!(),
        }
    } else {
        // Heterogeneous tuples: Vec, Box<[u8]>, Arc<[u8]>, Cow, Vec, Box<[u8]>, Arc<[u8]>, Vec.
        let m = |i: usize| members[i].clone();
        macro_rules! tup {
            ($($idx:tt : $conv:expr),+) => {{
                let t = ($({ let f: fn(Vec<u8>) -> _ = $conv; f(m($idx)) }),+);
                let r: Vec<(usize, usize)> = vec![$({ let s = t.$idx.as_slice(); (s.as_ptr() as usize, s.len()) }),+];
                finish!("(tuple of buffers)", t, r)
            }};
        }
        let bx = |v: Vec<u8>| v.into_boxed_slice();
        let ar = |v: Vec<u8>| -> Arc<[u8]> { v.into() };
        let cw = |v: Vec<u8>| -> Cow<'static, [u8]> { Cow::Owned(v) };
        let id = |v: Vec<u8>| v;
        match lens.len() {
            2 => tup!(0: id, 1: bx),
            3 => tup!(0: id, 1: bx, 2: ar),
            4 => tup!(0: id, 1: bx, 2: ar, 3: cw),
            5 => tup!(0: id, 1: bx, 2: ar, 3: cw, 4: id),
            6 => tup!(0: id, 1: bx, 2: ar, 3: cw, 4: id, 5: bx),
            7 => tup!(0: id, 1: bx, 2: ar, 3: cw, 4: id, 5: bx, 6: ar),
            8 => tup!(0: id, 1: bx, 2: ar, 3: cw, 4: id, 5: bx, 6: ar, 7: id),
            _ => {}
        }
    }
}

/// Write-side arrays / tuples: for every n, write a pattern through the exposed
/// vectors, set_init(n), and check the members.
fn run_mut_slice(bufs: &[(usize, usize)], tuple: bool, limit: Option<usize>, out: &mut Vec<Violation>) {
    let probe: Vec<Vec<u8>> = bufs.iter().enumerate().map(|(i, (c, f))| mk_vec(i, *c, *f)).collect();
    let spares: Vec<usize> = probe.iter().map(|v| v.capacity() - v.len()).collect();
    let total: usize = spares.iter().sum();
    let want_total = limit.map_or(total, |l| l.min(total));
    drop(probe);
    for n in 0..=want_total {
        let members: Vec<Vec<u8>> = bufs.iter().enumerate().map(|(i, (c, f))| mk_vec(i, *c, *f)).collect();
        let before = members.clone();
        let bases: Vec<(usize, usize, usize)> = members.iter().map(|v| (v.as_ptr() as usize, v.len(), v.capacity())).collect();
        let name = match (tuple, limit.is_some()) {
            (false, false) => "[Vec<u8>; N]",
            (false, true) => "LimitedBuf<[Vec<u8>; N]>",
            (true, false) => "(tuple of Vec<u8>)",
            (true, true) => "LimitedBuf<(tuple of Vec<u8>)>",
        };
        // Returns the members after the operation.
        macro_rules! laws {
            ($b:expr, $into:expr) => {{
                let mut b = $b;
                let iovs: Vec<(usize, usize)> = unsafe { b.as_iovecs_mut() }.iter().map(iov_mut).collect();
                let sum: usize = iovs.iter().map(|i| i.1).sum();
                let tsc = b.total_spare_capacity() as usize;
                let hs = BufMutSlice::has_spare_capacity(&b);
                if sum != want_total {
                    out.push(v(&format!("limit-exceeded/{name}"), format!("{name}: the I/O vectors expose {sum} bytes ({:?}); spare capacities {spares:?}, limit {limit:?}", iovs.iter().map(|i| i.1).collect::<Vec<_>>())));
                    return;
                }
                if tsc != sum || hs != (sum > 0) {
                    out.push(v(&format!("spare-disagrees/{name}"), format!("{name}: total_spare_capacity()={tsc} has_spare_capacity()={hs} but the vectors expose {sum} bytes (spare {spares:?}, limit {limit:?})")));
                    return;
                }
                let mut left = want_total;
                for (i, (ptr, len)) in iovs.iter().enumerate() {
                    let want = left.min(spares[i]);
                    if *len != want {
                        out.push(v(&format!("not-front-to-back/{name}"), format!("{name}: vector {i} exposes {len} bytes, expected {want}")));
                        return;
                    }
                    left -= want;
                    if *len > 0 && (*ptr != bases[i].0 + bases[i].1 || ptr + len > bases[i].0 + bases[i].2) {
                        out.push(v(&format!("outside-own-memory/{name}"), format!("{name}: vector {i} = ({ptr:#x}, {len}) is not member {i}'s spare region")));
                        return;
                    }
                }
                // Write n pattern bytes front to back through the vectors.
                let pattern: Vec<u8> = (0..n).map(|i| 0xD0 ^ (i as u8 * 7)).collect();
                let mut k = 0;
                for (ptr, len) in &iovs {
                    for j in 0..*len {
                        if k < n {
                            unsafe { ((*ptr + j) as *mut u8).write(pattern[k]) };
                            k += 1;
                        }
                    }
                }
                unsafe { b.set_init(n) };
                let after: Vec<Vec<u8>> = $into(b);
                // Appended bytes, in order across the members, are exactly the pattern.
                let mut appended = Vec::new();
                for (i, m) in after.iter().enumerate() {
                    if m.len() < before[i].len() || m[..before[i].len()] != before[i][..] {
                        out.push(v(&format!("set-init-clobbers/{name}"), format!("{name}: set_init({n}) changed the existing content of member {i}")));
                        return;
                    }
                    appended.extend_from_slice(&m[before[i].len()..]);
                }
                if appended != pattern {
                    out.push(v(&format!("set-init-wrong/{name}"), format!("{name}: after writing {n} bytes front to back and set_init({n}) the members gained {appended:02x?}, expected {pattern:02x?} (spare {spares:?}, limit {limit:?})")));
                }
            }};
        }
        // The same n bytes through extend_from_slice (plus one more than fits when n is the maximum).
        macro_rules! ext {
            ($b:expr, $into:expr) => {{
                let mut b = $b;
                let k = if n == want_total { n + 1 } else { n };
                let bytes: Vec<u8> = (0..k).map(|i| 0xB0 ^ (i as u8 * 5)).collect();
                let ret = BufMutSlice::extend_from_slice(&mut b, &bytes);
                let after: Vec<Vec<u8>> = $into(b);
                let mut appended = Vec::new();
                let mut clobbered = false;
                for (i, m) in after.iter().enumerate() {
                    if m.len() < before[i].len() || m[..before[i].len()] != before[i][..] {
                        clobbered = true;
                    } else {
                        appended.extend_from_slice(&m[before[i].len()..]);
                    }
                }
                if clobbered || ret != n || appended != bytes[..n] {
                    out.push(v(&format!("extend-wrong/{name}"), format!("{name}: extend_from_slice of {k} bytes (spare {spares:?}, limit {limit:?}) returns {ret}, members gained {appended:02x?}; expected {n} and {:02x?}", &bytes[..n])));
                }
            }};
        }
        macro_rules! arr {
            ($nn:literal) => {{
                let mut it = members.into_iter();
                let a: [Vec<u8>; $nn] = std::array::from_fn(|_| it.next().unwrap());
                let mut it2 = bufs.iter().enumerate().map(|(i, (c, f))| mk_vec(i, *c, *f));
                let a2: [Vec<u8>; $nn] = std::array::from_fn(|_| it2.next().unwrap());
                match limit {
                    None => laws!(a, |b: [Vec<u8>; $nn]| b.to_vec()),
                    Some(l) => laws!(a10::io::LimitedBuf::new(a, l), |b: a10::io::LimitedBuf<[Vec<u8>; $nn]>| b.into_inner().to_vec()),
                }
                match limit {
                    None => ext!(a2, |b: [Vec<u8>; $nn]| b.to_vec()),
                    Some(l) => ext!(a10::io::LimitedBuf::new(a2, l), |b: a10::io::LimitedBuf<[Vec<u8>; $nn]>| b.into_inner().to_vec()),
                }
            }};
        }
        macro_rules! tup {
            ($($idx:tt),+) => {{
                let mut it = members.into_iter();
                let t = ($({ let _ = $idx; it.next().unwrap() }),+);
                let mut it2 = bufs.iter().enumerate().map(|(i, (c, f))| mk_vec(i, *c, *f));
                let t2 = ($({ let _ = $idx; it2.next().unwrap() }),+);
                match limit {
                    None => laws!(t, |b: ($(tup!(@ty $idx)),+)| vec![$(b.$idx.clone()),+]),
                    Some(l) => laws!(a10::io::LimitedBuf::new(t, l), |b: a10::io::LimitedBuf<($(tup!(@ty $idx)),+)>| { let b = b.into_inner(); vec![$(b.$idx.clone()),+] }),
                }
                match limit {
                    None => ext!(t2, |b: ($(tup!(@ty $idx)),+)| vec![$(b.$idx.clone()),+]),
                    Some(l) => ext!(a10::io::LimitedBuf::new(t2, l), |b: a10::io::LimitedBuf<($(tup!(@ty $idx)),+)>| { let b = b.into_inner(); vec![$(b.$idx.clone()),+] }),
                }
            }};
            (@ty $idx:tt) => { Vec<u8> };
        }
        if !tuple {
            match bufs.len() {
                1 => arr!(1),
                2 => arr!(2),
                3 => arr!(3),
                4 => arr!(4),
                5 => arr!(5),
                6 => arr!(6),
                7 => arr!(7),
                8 => arr!(8),
                _ => unreachable!(),
            }
        } else {
            match bufs.len() {
                2 => tup!(0, 1),
                3 => tup!(0, 1, 2),
                4 => tup!(0, 1, 2, 3),
                5 => tup!(0, 1, 2, 3, 4),
                6 => tup!(0, 1, 2, 3, 4, 5),
                7 => tup!(0, 1, 2, 3, 4, 5, 6),
                8 => tup!(0, 1, 2, 3, 4, 5, 6, 7),
                _ => {}
            }
        }
    }
}

pub fn run(case: &Case) -> Vec<Violation> {
    let mut out = Vec::new();
    match case {
        Case::Buf { ty, len, limit } => run_buf(*ty, *len, *limit, &mut out),
        Case::Mut { cap, fill, limit } => run_mut(*cap, *fill, *limit, &mut out),
        Case::Slice { lens, tuple, limit } => run_slice(lens, *tuple, *limit, &mut out),
        Case::MutSlice { bufs, tuple, limit } => run_mut_slice(bufs, *tuple, *limit, &mut out),
        Case::Huge { str_slice, len, limit } => run_huge(*str_slice, *len, *limit, &mut out),
        Case::PoolBuf { size, fill, limit } => run_pool_buf(*size, *fill, *limit, &mut out),
    }
    out
}

fn limits(c: usize, total: usize) -> Vec<Option<usize>> {
    let mut v = vec![None, Some(0), Some(1), Some(c.saturating_sub(1)), Some(c), Some(c + 1), Some(total), Some((1 << 32) - 1), Some(1 << 32), Some((1 << 32) + 1), Some((1 << 32) + 5), Some(usize::MAX)];
    v.dedup();
    let mut seen = Vec::new();
    v.retain(|l| {
        if seen.contains(l) {
            false
        } else {
            seen.push(*l);
            true
        }
    });
    v
}

pub fn cases(quick: bool) -> Vec<Case> {
    let mut v = Vec::new();
    // Pool buffers: every fill level of small buffers, unlimited and limited.
    for size in [1u32, 3, 8] {
        for fill in 0..=size as usize {
            for limit in [None, Some(0usize), Some(1), Some(size as usize), Some(1 << 32)] {
                v.push(Case::PoolBuf { size, fill, limit });
            }
        }
    }
    // Buffers of 4 GiB and more (lengths no longer fit the 32 bits io_uring uses).
    for str_slice in [false, true] {
        for len in [(1usize << 32) - 1, 1 << 32, (1 << 32) + 5, 5 << 30] {
            for limit in [None, Some(7usize), Some((1 << 32) - 1), Some(1 << 32), Some((1 << 32) + 5), Some(usize::MAX)] {
                v.push(Case::Huge { str_slice, len, limit });
            }
        }
    }
    for ty in 0..N_BUF_TYPES {
        let lens: Vec<usize> = if quick { vec![0usize, 1, 2, 3, 8, 16] } else { (0..=24).chain([64, 255, 256, 4096]).collect() };
        for len in lens {
            for limit in limits(len, len) {
                v.push(Case::Buf { ty, len, limit });
            }
        }
    }
    let caps: Vec<usize> = if quick { vec![0usize, 1, 2, 3, 8, 64] } else { (0..=24).chain([64, 255, 4096]).collect() };
    for cap in caps {
        let fills: Vec<usize> = if quick || cap > 24 { vec![0, 1, cap / 2, cap] } else { (0..=cap).collect() };
        let mut fills = fills;
        fills.sort();
        fills.dedup();
        for fill in fills {
            if fill > cap {
                continue;
            }
            for limit in limits(cap - fill, cap) {
                v.push(Case::Mut { cap, fill, limit });
            }
        }
    }
    // Arrays and tuples, every arity, mixed sizes incl. zero-size members.
    let fixed: &[&[usize]] = &[&[3, 0, 2, 1, 0, 4, 2, 1], &[0, 0, 1, 0, 3, 0, 0, 2], &[2, 2, 2, 2, 2, 2, 2, 2], &[0, 0, 0, 0, 0, 0, 0, 0], &[1, 3, 0, 0, 5, 1, 0, 8]];
    let mut patterns: Vec<(usize, Vec<usize>)> = Vec::new();
    for n in 1..=8usize {
        for (pi, p) in fixed.iter().enumerate() {
            if quick && n > 4 && pi > 2 {
                continue;
            }
            patterns.push((n, p[..n].to_vec()));
        }
    }
    if !quick {
        // Every length vector over {0, 1, 2, 5} for up to four members.
        for n in 1..=4usize {
            for code in 0..4usize.pow(n as u32) {
                let mut c = code;
                let mut p = Vec::new();
                for _ in 0..n {
                    p.push([0usize, 1, 2, 5][c % 4]);
                    c /= 4;
                }
                patterns.push((n, p));
            }
        }
    }
    {
        for (n, p) in patterns {
            let lens: Vec<usize> = p;
            let total: usize = lens.iter().sum();
            let mut ls = limits(lens[0], total);
            // Limits on every buffer boundary and one inside every buffer.
            let mut acc = 0;
            for l in &lens {
                ls.push(Some(acc));
                if *l > 1 {
                    ls.push(Some(acc + 1));
                }
                acc += l;
            }
            ls.sort();
            ls.dedup();
            for limit in ls {
                for tuple in [false, true] {
                    if tuple && n == 1 {
                        continue;
                    }
                    v.push(Case::Slice { lens: lens.clone(), tuple, limit });
                    let bufs: Vec<(usize, usize)> = lens.iter().enumerate().map(|(i, l)| (*l + (i % 2), i % 2)).collect();
                    v.push(Case::MutSlice { bufs, tuple, limit });
                }
            }
        }
    }
    v
}
