//! C10: all-or-error composite I/O under arbitrary short transfers.
//!
//! World: the first action picks a case (API variant, buffer shape, offset,
//! flags, zero-copy); every later action is the kernel's answer to the request
//! that is outstanding (accept k bytes, or 0). The oracle is a byte stream.
#![allow(dead_code)]

use std::task::Context;
use std::time::Duration;

use a10::io::{BufMut, ReadBufPool};
use a10::{AsyncFd, Extract, Ring, SubmissionQueue};

use crate::abi::*;
use crate::ops::{Op, Seen, err_str};
use crate::report::Violation;
use crate::seqx::World;
use crate::simk::{self, Out};
use crate::talloc;
use crate::waker::HWaker;

#[derive(Clone, Copy, Debug, PartialEq, Eq)]
pub enum Api {
    WriteAll,
    WriteAllVectored,
    SendAll,
    SendAllVectored,
    ReadN,
    ReadNVectored,
    RecvN,
    RecvNVectored,
}

impl Api {
    fn is_write(self) -> bool {
        matches!(self, Api::WriteAll | Api::WriteAllVectored | Api::SendAll | Api::SendAllVectored)
    }
    fn vectored(self) -> bool {
        matches!(self, Api::WriteAllVectored | Api::SendAllVectored | Api::ReadNVectored | Api::RecvNVectored)
    }
    fn is_net(self) -> bool {
        matches!(self, Api::SendAll | Api::SendAllVectored | Api::RecvN | Api::RecvNVectored)
    }
}

#[derive(Clone, Copy, Debug, PartialEq, Eq)]
pub enum BufKind {
    Vec,
    /// `Vec` with two bytes of existing content.
    Prefilled,
    Limited,
    /// Pool buffer not yet assigned.
    PoolFresh,
    /// Pool buffer that already owns a slot (filled by an earlier read).
    PoolOwned,
}

#[derive(Clone, Debug, PartialEq, Eq)]
pub struct Case {
    pub api: Api,
    /// Write: buffer lengths. Read: buffer capacities.
    pub lens: Vec<usize>,
    /// Positional offset.
    pub at: Option<u64>,
    /// Send/recv flags.
    pub flags: u32,
    pub zc: bool,
    pub extract: bool,
    /// Read: target count.
    pub n: usize,
    pub buf: BufKind,
}

#[derive(Clone, Debug, PartialEq, Eq)]
pub enum Action {
    Pick(usize),
    /// The kernel accepts / delivers `k` bytes for the outstanding request.
    Answer(usize),
    /// The kernel fails the outstanding request with EIO.
    Fail,
}

pub struct C10World {
    cases: std::rc::Rc<Vec<Case>>,
    case: Option<Case>,
    ring: Option<Ring>,
    sq: Option<SubmissionQueue>,
    fd: Option<&'static AsyncFd>,
    pool: Option<ReadBufPool>,
    op: Option<Op>,
    waker: HWaker,
    violations: Vec<Violation>,
    /// Write: the bytes of all input buffers in order. Read: bytes delivered so far.
    stream: Vec<u8>,
    accepted: usize,
    requests: usize,
    done: Option<Seen>,
    eof: bool,
    label: &'static str,
    zero_answered: bool,
    /// The kernel failed a request with this errno.
    failed: Option<i32>,
    first_opcode: Option<u8>,
    ptrs: Vec<usize>,
    obs: u64,
}

fn data(i: usize, len: usize) -> Vec<u8> {
    (0..len).map(|j| (0x10 * (i + 1) + j) as u8).collect()
}

fn hx(b: &[u8]) -> String {
    b.iter().map(|b| format!("{b:02x}")).collect()
}

macro_rules! with_array {
    ($lens:expr, $mk:expr, |$arr:ident| $body:expr) => {{
        let lens = $lens;
        let mk = $mk;
        match lens.len() {
            1 => { let $arr: [_; 1] = std::array::from_fn(|i| mk(i, lens[i])); $body }
            2 => { let $arr: [_; 2] = std::array::from_fn(|i| mk(i, lens[i])); $body }
            3 => { let $arr: [_; 3] = std::array::from_fn(|i| mk(i, lens[i])); $body }
            4 => { let $arr: [_; 4] = std::array::from_fn(|i| mk(i, lens[i])); $body }
            5 => { let $arr: [_; 5] = std::array::from_fn(|i| mk(i, lens[i])); $body }
            6 => { let $arr: [_; 6] = std::array::from_fn(|i| mk(i, lens[i])); $body }
            7 => { let $arr: [_; 7] = std::array::from_fn(|i| mk(i, lens[i])); $body }
            8 => { let $arr: [_; 8] = std::array::from_fn(|i| mk(i, lens[i])); $body }
            _ => unreachable!("1..8 buffers"),
        }
    }};
}

fn send_flags(bits: u32) -> Option<a10::net::SendFlag> {
    use a10::net::SendFlag;
    let more = libc::MSG_MORE as u32;
    let dr = libc::MSG_DONTROUTE as u32;
    if bits == 0 {
        None
    } else if bits == more {
        Some(SendFlag::MORE)
    } else if bits == more | dr {
        Some(SendFlag::MORE | SendFlag::DONT_ROUTE)
    } else {
        panic!("unsupported send flags")
    }
}

fn recv_flags(bits: u32) -> Option<a10::net::RecvFlag> {
    if bits == 0 {
        None
    } else if bits == libc::MSG_WAITALL as u32 {
        Some(a10::net::RecvFlag::WAIT_ALL)
    } else {
        panic!("unsupported recv flags")
    }
}

fn fut_op<F, T>(fut: F, render: impl Fn(T) -> String + 'static) -> Op
where
    F: std::future::Future<Output = std::io::Result<T>> + 'static,
{
    let mut fut = Box::pin(fut);
    Op::from_poller(Box::new(move |cx| match fut.as_mut().poll(cx) {
        std::task::Poll::Pending => std::task::Poll::Pending,
        std::task::Poll::Ready(Ok(v)) => std::task::Poll::Ready(Some(talloc::untracked(|| render(v)))),
        std::task::Poll::Ready(Err(e)) => std::task::Poll::Ready(Some(talloc::untracked(|| match e.kind() {
            std::io::ErrorKind::WriteZero => "err:WriteZero".to_string(),
            std::io::ErrorKind::UnexpectedEof => "err:UnexpectedEof".to_string(),
            _ => err_str(&e),
        }))),
    }))
}

impl C10World {
    pub fn new(cases: std::rc::Rc<Vec<Case>>) -> C10World {
        C10World::labelled(cases, "C10")
    }

    /// The same world reporting under another property (C02: what a composite future resolves with
    /// is what the kernel produced for its submissions -- no made-up success, data or error).
    pub fn labelled(cases: std::rc::Rc<Vec<Case>>, label: &'static str) -> C10World {
        simk::reset(simk::SetupPlan::default());
        talloc::set_on_free(Some(simk::on_free));
        let (ring, sq, fd) = talloc::track(|| {
            let ring = Ring::config().with_submission_queue_size(4).build().expect("ring");
            let sq = ring.sq();
            let raw = simk::with(|k| k.new_regular_pub());
            let fd: &'static AsyncFd = Box::leak(Box::new(unsafe { AsyncFd::from_raw_fd(raw, sq.clone()) }));
            (ring, sq, fd)
        });
        C10World {
            cases,
            case: None,
            ring: Some(ring),
            sq: Some(sq),
            fd: Some(fd),
            pool: None,
            op: None,
            waker: HWaker::new(1),
            violations: Vec::new(),
            stream: Vec::new(),
            accepted: 0,
            requests: 0,
            done: None,
            eof: false,
            label,
            zero_answered: false,
            failed: None,
            first_opcode: None,
            ptrs: Vec::new(),
            obs: 0,
        }
    }

    fn bad(&mut self, sig: &str, msg: String) {
        let c = self.case.as_ref().unwrap();
        let sig = format!("{sig}/{:?}", c.api);
        self.violations.push(Violation::new(self.label, &sig, &format!("{msg} [case {c:?}]")));
    }

    fn start(&mut self, case: Case) {
        let fd = self.fd.unwrap();
        let c = case.clone();
        self.case = Some(case);
        let render_bufs = |v: &[Vec<u8>]| -> String { v.iter().map(|b| hx(b)).collect::<Vec<_>>().join("|") };
        if c.api.is_write() {
            self.stream = c.lens.iter().enumerate().flat_map(|(i, l)| data(i, *l)).collect();
        }
        let sendflags = if c.api.is_write() { send_flags(c.flags) } else { None };
        let recvflags = if c.api.is_write() { None } else { recv_flags(c.flags) };
        let op = talloc::track(|| match c.api {
            Api::WriteAll => {
                let buf = data(0, c.lens[0]);
                self.ptrs.push(buf.as_ptr() as usize);
                let mut f = fd.write_all(buf);
                if let Some(at) = c.at {
                    f = f.at(at);
                }
                if c.extract {
                    fut_op(f.extract(), |b: Vec<u8>| format!("ok:{}@{:#x}", hx(&b), b.as_ptr() as usize))
                } else {
                    fut_op(f, |()| "ok".to_string())
                }
            }
            Api::SendAll => {
                let buf = data(0, c.lens[0]);
                self.ptrs.push(buf.as_ptr() as usize);
                let mut f = fd.send_all(buf);
                if let Some(fl) = sendflags {
                    f = f.flags(fl);
                }
                if c.zc {
                    f = f.zc();
                }
                if c.extract {
                    fut_op(f.extract(), |b: Vec<u8>| format!("ok:{}@{:#x}", hx(&b), b.as_ptr() as usize))
                } else {
                    fut_op(f, |()| "ok".to_string())
                }
            }
            Api::WriteAllVectored => with_array!(&c.lens, |i, l| data(i, l), |arr| {
                let mut f = fd.write_all_vectored(arr);
                if let Some(at) = c.at {
                    f = f.at(at);
                }
                if c.extract {
                    fut_op(f.extract(), move |b| format!("ok:{}", render_bufs(&b)))
                } else {
                    fut_op(f, |()| "ok".to_string())
                }
            }),
            Api::SendAllVectored => with_array!(&c.lens, |i, l| data(i, l), |arr| {
                let mut f = fd.send_all_vectored(arr);
                if let Some(fl) = sendflags {
                    f = f.flags(fl);
                }
                if c.zc {
                    f = f.zc();
                }
                if c.extract {
                    fut_op(f.extract(), move |b| format!("ok:{}", render_bufs(&b)))
                } else {
                    fut_op(f, |()| "ok".to_string())
                }
            }),
            Api::ReadN | Api::RecvN => {
                let cap = c.lens[0];
                let net = c.api == Api::RecvN;
                match c.buf {
                    BufKind::Vec | BufKind::Prefilled => {
                        let mut buf = Vec::with_capacity(cap + 2);
                        if c.buf == BufKind::Prefilled {
                            buf.extend_from_slice(&[0xEE, 0xEF]);
                        } else {
                            buf.reserve_exact(cap);
                        }
                        if net {
                            {
                                let mut f = fd.recv_n(buf, c.n);
                                if let Some(fl) = recvflags {
                                    f = f.flags(fl);
                                }
                                fut_op(f, |b: Vec<u8>| format!("ok:{}", hx(&b)))
                            }
                        } else {
                            let mut f = fd.read_n(buf, c.n);
                            if let Some(at) = c.at {
                                f = f.from(at);
                            }
                            fut_op(f, |b: Vec<u8>| format!("ok:{}", hx(&b)))
                        }
                    }
                    BufKind::Limited => {
                        let buf = Vec::with_capacity(cap + 8).limit(cap);
                        if net {
                            fut_op(fd.recv_n(buf, c.n), |b| format!("ok:{}", hx(&b.into_inner())))
                        } else {
                            fut_op(fd.read_n(buf, c.n), |b| format!("ok:{}", hx(&b.into_inner())))
                        }
                    }
                    BufKind::PoolFresh | BufKind::PoolOwned => {
                        let pool = ReadBufPool::new(self.sq.as_ref().unwrap().clone(), 2, cap as u32).expect("pool");
                        let buf = pool.get();
                        self.pool = Some(pool);
                        if net {
                            fut_op(fd.recv_n(buf, c.n), |b: a10::io::ReadBuf| format!("ok:{}", hx(&b)))
                        } else {
                            fut_op(fd.read_n(buf, c.n), |b: a10::io::ReadBuf| format!("ok:{}", hx(&b)))
                        }
                    }
                }
            }
            Api::ReadNVectored => with_array!(&c.lens, |_i, l| Vec::<u8>::with_capacity(l), |arr| {
                let mut f = fd.read_n_vectored(arr, c.n);
                if let Some(at) = c.at {
                    f = f.from(at);
                }
                fut_op(f, move |b| format!("ok:{}", render_bufs(&b)))
            }),
            Api::RecvNVectored => with_array!(&c.lens, |_i, l| Vec::<u8>::with_capacity(l), |arr| {
                {
                    let mut f = fd.recv_n_vectored(arr, c.n);
                    if let Some(fl) = recvflags {
                        f = f.flags(fl);
                    }
                    fut_op(f, move |b| format!("ok:{}", render_bufs(&b)))
                }
            }),
        });
        self.op = Some(op);
        self.drive();
    }

    /// Ring::poll, then poll the future; check the new request (if any).
    fn drive(&mut self) {
        talloc::track(|| {
            let _ = self.ring.as_mut().unwrap().poll(Some(Duration::ZERO));
        });
        let before = simk::with(|k| k.reqs.len());
        let mut op = self.op.take().unwrap();
        let seen = {
            let mut cx = Context::from_waker(&self.waker.waker);
            op.poll(&mut cx)
        };
        self.op = Some(op);
        talloc::track(|| {
            let _ = self.ring.as_mut().unwrap().poll(Some(Duration::ZERO));
        });
        for (class, msg) in simk::with(|k| std::mem::take(&mut k.violations)) {
            self.violations.push(Violation::new("C10", &format!("memory/{class}"), &msg));
        }
        let new_reqs: Vec<u32> = simk::with(|k| k.reqs[before..].iter().filter(|r| !matches!(r.opcode, OP_ASYNC_CANCEL | OP_CLOSE)).map(|r| r.serial).collect());
        self.obs = self.obs.wrapping_mul(31).wrapping_add(crate::report::hash_str(&format!("{seen:?}{}", new_reqs.len())));
        match seen {
            Seen::Pending => {
                if new_reqs.len() != 1 {
                    self.bad("stuck", format!("the future is Pending but issued {} new request(s)", new_reqs.len()));
                    return;
                }
                self.check_request(new_reqs[0]);
            }
            other => {
                if !new_reqs.is_empty() {
                    self.bad("request-after-end", "the future resolved but also issued a new request".into());
                }
                self.done = Some(other);
                self.judge_end();
            }
        }
    }

    fn check_request(&mut self, serial: u32) {
        self.requests += 1;
        let c = self.case.clone().unwrap();
        let (sqe, offered) = simk::with(|k| {
            let r = k.req(serial);
            let what = if matches!(r.opcode, OP_WRITE | OP_SEND | OP_SEND_ZC | OP_READ | OP_RECV) { "buffer" } else { "iovec-target" };
            let offered: Vec<u8> = r.foot.iter().filter(|f| f.what == what && !f.write).flat_map(|f| f.snapshot.clone()).collect();
            (r.sqe, offered)
        });
        // C14 (the crate-private skipping / counting wrappers behind these futures): every
        // pointer/length pair handed to the kernel lies inside one of the caller's buffers.
        let ranges: Vec<(usize, usize, bool)> = simk::with(|k| k.req(serial).foot.iter().filter(|f| f.what == "buffer" || f.what == "iovec-target").map(|f| (f.addr, f.len, f.write)).collect());
        for (addr, len, write) in ranges {
            if len == 0 {
                continue;
            }
            let inside = talloc::block_of(addr).is_some_and(|b| b.live && addr + len <= b.addr + b.size);
            if !inside {
                let c = self.case.as_ref().unwrap();
                let sig = format!("exposed-range-outside-buffer/{:?}", c.api);
                self.violations.push(Violation::new("C14", &sig, &format!("request #{} hands the kernel {len} bytes at {addr:#x} to {}, which is not inside a single live buffer of the caller (block: {:?}) [case {c:?}]", self.requests, if write { "write" } else { "read" }, talloc::block_of(addr).map(|b| (b.addr, b.size, b.live)))));
            }
        }
        let op = sqe.opcode();
        let want_op = match (c.api, c.zc) {
            (Api::WriteAll, _) => OP_WRITE,
            (Api::WriteAllVectored, _) => OP_WRITEV,
            (Api::SendAll, false) => OP_SEND,
            (Api::SendAll, true) => OP_SEND_ZC,
            (Api::SendAllVectored, false) => OP_SENDMSG,
            (Api::SendAllVectored, true) => OP_SENDMSG_ZC,
            (Api::ReadN, _) => OP_READ,
            (Api::ReadNVectored, _) => OP_READV,
            (Api::RecvN, _) => OP_RECV,
            (Api::RecvNVectored, _) => OP_RECVMSG,
        };
        if op != want_op {
            self.bad("wrong-opcode", format!("request #{} uses {} instead of {}", self.requests, opcode_name(op), opcode_name(want_op)));
        }
        if c.api.is_net() {
            if sqe.op_flags() != c.flags {
                self.bad("flags-dropped", format!("request #{} carries msg_flags {:#x}, the caller set {:#x}", self.requests, sqe.op_flags(), c.flags));
            }
        } else {
            let want_off = match c.at {
                None => u64::MAX,
                Some(at) => at + self.accepted as u64,
            };
            if sqe.off() != want_off {
                self.bad("wrong-offset", format!("request #{} is at offset {:#x}, expected {:#x} ({} bytes transferred so far)", self.requests, sqe.off(), want_off, self.accepted));
            }
        }
        if c.api.is_write() {
            let want = &self.stream[self.accepted..];
            if offered != want {
                self.bad("wrong-bytes", format!("request #{} offers {} but the bytes not yet written are {}", self.requests, hx(&offered), hx(want)));
            }
        } else {
            let cap = self.request_capacity(serial);
            if cap == 0 && !simk::with(|k| k.req(serial).pool) {
                self.bad("zero-length-read", format!("request #{} offers no buffer space although {} more bytes are needed", self.requests, c.n.saturating_sub(self.accepted)));
            }
        }
    }

    fn request_capacity(&self, serial: u32) -> usize {
        simk::with(|k| {
            let r = k.req(serial);
            if r.pool {
                return k.rings[0].pbufs.first().map(|p| unsafe { (*(p.addr as *const BufRingEntry)).len as usize }).unwrap_or(0);
            }
            r.foot.iter().filter(|f| f.write && (f.what == "buffer" || f.what == "iovec-target")).map(|f| f.len).sum()
        })
    }

    fn outstanding(&self) -> Option<(u32, usize)> {
        simk::with(|k| k.reqs.iter().find(|r| !r.done && !matches!(r.opcode, OP_ASYNC_CANCEL | OP_CLOSE)).map(|r| r.serial)).map(|s| {
            let c = self.case.as_ref().unwrap();
            let max = if c.api.is_write() { self.stream.len() - self.accepted.min(self.stream.len()) } else { self.request_capacity(s) };
            (s, max)
        })
    }

    fn answer(&mut self, k: usize) {
        let (serial, _) = self.outstanding().expect("no outstanding request");
        let c = self.case.clone().unwrap();
        let awaiting = simk::with(|kk| kk.req(serial).awaiting_notif);
        assert!(!awaiting);
        simk::with(|kk| kk.complete(serial, Out::Res(k as i32)));
        if simk::with(|kk| kk.req(serial).awaiting_notif) {
            simk::with(|kk| kk.complete(serial, Out::Notif));
        }
        if c.api.is_write() {
            let got: Vec<u8> = simk::with(|kk| kk.req(serial).accepted.clone());
            let want = &self.stream[self.accepted.min(self.stream.len())..(self.accepted + k).min(self.stream.len())];
            if got != want {
                self.bad("wrong-bytes", format!("the kernel accepted {} but the next bytes of the input are {}", hx(&got), hx(want)));
            }
            self.accepted += k;
            if k == 0 {
                self.zero_answered = true;
            }
        } else {
            let data: Vec<u8> = simk::with(|kk| kk.req(serial).outs.last().map(|o| o.data.clone()).unwrap_or_default());
            self.stream.extend_from_slice(&data);
            self.accepted += data.len();
            if k == 0 {
                self.eof = true;
            }
        }
        self.drive();
    }

    fn fail(&mut self) {
        let (serial, _) = self.outstanding().expect("no outstanding request");
        simk::with(|kk| kk.complete(serial, Out::Res(-libc::EIO)));
        if simk::with(|kk| kk.req(serial).awaiting_notif) {
            simk::with(|kk| kk.complete(serial, Out::Notif));
        }
        self.failed = Some(libc::EIO);
        self.drive();
    }

    fn judge_end(&mut self) {
        let c = self.case.clone().unwrap();
        let Some(Seen::Ready(res)) = self.done.clone() else {
            self.bad("no-result", format!("future ended with {:?}", self.done));
            return;
        };
        if let Some(e) = self.failed {
            // A real error ends the operation with that error, whatever was transferred before.
            if res != format!("err:{e}") {
                self.bad("error-not-reported", format!("the kernel failed request #{} with errno {e} after {} bytes, the future returned {res}", self.requests, self.accepted));
            }
            return;
        }
        if c.api.is_write() {
            let total = self.stream.len();
            if self.zero_answered {
                if res != "err:WriteZero" {
                    self.bad("zero-not-reported", format!("the kernel accepted 0 bytes but the future returned {res}"));
                }
            } else if self.accepted == total {
                if !res.starts_with("ok") {
                    self.bad("spurious-error", format!("every byte was accepted but the future returned {res}"));
                } else if c.extract {
                    // Original buffers come back.
                    let want = if c.api.vectored() {
                        format!("ok:{}", c.lens.iter().enumerate().map(|(i, l)| hx(&data(i, *l))).collect::<Vec<_>>().join("|"))
                    } else {
                        format!("ok:{}@{:#x}", hx(&data(0, c.lens[0])), self.ptrs[0])
                    };
                    if res != want {
                        self.bad("extract-mismatch", format!("extract returned {res}, expected {want}"));
                    }
                }
            } else if res.starts_with("ok") {
                self.bad("early-success", format!("the future returned success after {} of {} bytes were accepted", self.accepted, total));
            } else {
                self.bad("spurious-error", format!("{} of {} bytes accepted, no zero-length answer, but the future returned {res}", self.accepted, total));
            }
        } else {
            let prefix: Vec<u8> = if c.buf == BufKind::Prefilled { vec![0xEE, 0xEF] } else { Vec::new() };
            if self.accepted >= c.n {
                let mut want: Vec<u8> = prefix;
                want.extend_from_slice(&self.stream);
                let want_s = if c.api.vectored() {
                    let mut rest = &want[..];
                    let parts: Vec<String> = c.lens.iter().map(|l| { let n = (*l).min(rest.len()); let (a, b) = rest.split_at(n); rest = b; hx(a) }).collect();
                    format!("ok:{}", parts.join("|"))
                } else {
                    format!("ok:{}", hx(&want))
                };
                if res != want_s {
                    let sig = if res.starts_with("ok") { "wrong-data" } else { "spurious-error" };
                    self.bad(sig, format!("{} bytes arrived (n = {}), the future returned {res}, expected {want_s}", self.accepted, c.n));
                }
            } else if self.eof {
                if res != "err:UnexpectedEof" {
                    self.bad("eof-not-reported", format!("the stream ended after {} of {} bytes but the future returned {res}", self.accepted, c.n));
                }
            } else if res.starts_with("ok") {
                self.bad("early-success", format!("the future returned after {} of {} bytes", self.accepted, c.n));
            } else {
                self.bad("spurious-error", format!("{} of {} bytes arrived, the stream did not end, but the future returned {res}", self.accepted, c.n));
            }
        }
    }
}

impl World for C10World {
    type Action = Action;

    fn enabled(&mut self) -> Vec<(Action, u32)> {
        if self.case.is_none() {
            return (0..self.cases.len()).map(|i| (Action::Pick(i), 0)).collect();
        }
        if self.done.is_some() {
            return Vec::new();
        }
        match self.outstanding() {
            None => Vec::new(),
            Some((_, max)) => {
                // Everything first, then shorter, then zero.
                let mut v: Vec<(Action, u32)> = (1..=max).rev().map(|k| (Action::Answer(k), 0)).collect();
                v.push((Action::Answer(0), 0));
                v.push((Action::Fail, 0));
                v
            }
        }
    }

    fn apply(&mut self, a: &Action) {
        match a {
            Action::Pick(i) => {
                let c = self.cases[*i].clone();
                self.start(c);
            }
            Action::Answer(k) => self.answer(*k),
            Action::Fail => self.fail(),
        }
    }

    fn take_violations(&mut self) -> Vec<Violation> {
        std::mem::take(&mut self.violations)
    }

    fn key(&mut self) -> u64 {
        // No merging: histories are short and all distinct.
        crate::report::hash_str(&format!("{:?}{}{}{}", self.case, self.accepted, self.requests, self.obs))
    }

    fn observation(&self) -> u64 {
        self.obs
    }

    fn finish(self) -> Vec<Violation> {
        let mut this = std::mem::ManuallyDrop::new(self);
        let op = this.op.take();
        talloc::track(|| drop(op));
        // Let the kernel finish what is outstanding.
        for _ in 0..3 {
            talloc::track(|| {
                let _ = this.ring.as_mut().unwrap().poll(Some(Duration::ZERO));
            });
            for s in simk::with(|k| k.inflight()) {
                simk::with(|k| {
                    if k.req(s).awaiting_notif {
                        k.complete(s, Out::Notif)
                    } else if !k.req(s).done {
                        k.complete(s, Out::Res(-libc::ECANCELED))
                    }
                });
            }
        }
        let (ring, sq, pool, fd) = (this.ring.take(), this.sq.take(), this.pool.take(), this.fd.take());
        talloc::track(|| {
            let mut ring = ring;
            let _ = ring.as_mut().unwrap().poll(Some(Duration::ZERO));
            drop(pool);
            if let Some(fd) = fd {
                drop(unsafe { Box::from_raw(std::ptr::from_ref(fd).cast_mut()) });
            }
            drop(ring);
            drop(sq);
        });
        simk::shutdown();
        talloc::disarm();
        std::mem::take(&mut this.violations)
    }
}

/// All buffer shapes with `n` buffers and lengths from `alphabet`, total >= 1.
fn shapes(n: usize, alphabet: &[usize]) -> Vec<Vec<usize>> {
    let mut out = vec![Vec::new()];
    for _ in 0..n {
        out = out.into_iter().flat_map(|p| alphabet.iter().map(move |l| { let mut q = p.clone(); q.push(*l); q })).collect();
    }
    out.into_iter().filter(|s| s.iter().sum::<usize>() >= 1).collect()
}

pub fn write_cases(quick: bool) -> Vec<Case> {
    let mut v = Vec::new();
    let base = |api, lens: Vec<usize>| Case { api, lens, at: None, flags: 0, zc: false, extract: false, n: 0, buf: BufKind::Vec };
    let more = libc::MSG_MORE as u32;
    let more_dr = (libc::MSG_MORE | libc::MSG_DONTROUTE) as u32;
    // Single buffer.
    for len in if quick { vec![1usize, 2, 3, 5] } else { vec![1usize, 2, 3, 5, 8] } {
        for at in [None, Some(0u64), Some(5), Some(1 << 40)] {
            for extract in [false, true] {
                v.push(Case { at, extract, ..base(Api::WriteAll, vec![len]) });
            }
        }
        for flags in [0, more, more_dr] {
            for zc in [false, true] {
                for extract in [false, true] {
                    v.push(Case { flags, zc, extract, ..base(Api::SendAll, vec![len]) });
                }
            }
        }
    }
    // Vectored.
    let (max_n, alpha): (usize, &[usize]) = if quick { (3, &[0, 1, 2]) } else { (5, &[0, 1, 2, 3]) };
    for n in 1..=max_n {
        for lens in shapes(n, alpha) {
            if lens.iter().sum::<usize>() > if quick { 5 } else { 9 } {
                continue;
            }
            for at in [None, Some(7u64)] {
                v.push(Case { at, ..base(Api::WriteAllVectored, lens.clone()) });
            }
            v.push(Case { flags: more, ..base(Api::SendAllVectored, lens.clone()) });
            if !quick || n <= 2 {
                v.push(Case { at: Some(1 << 40), extract: true, ..base(Api::WriteAllVectored, lens.clone()) });
                v.push(Case { flags: more_dr, zc: true, extract: true, ..base(Api::SendAllVectored, lens.clone()) });
                v.push(Case { flags: 0, zc: false, ..base(Api::SendAllVectored, lens.clone()) });
            }
        }
    }
    // Many buffers with empty ones in every position.
    for n in [5usize, 8] {
        for empty_at in 0..n {
            let mut lens = vec![1usize; n];
            lens[empty_at] = 0;
            if !quick || empty_at == 0 || empty_at == n - 1 || empty_at == n / 2 {
                let total: usize = lens.iter().sum();
                if total <= 7 || !quick {
                    v.push(Case { at: Some(3), ..base(Api::WriteAllVectored, lens.clone()) });
                    v.push(Case { flags: more, ..base(Api::SendAllVectored, lens) });
                }
            }
        }
    }
    v
}

pub fn read_cases(quick: bool) -> Vec<Case> {
    let mut v = Vec::new();
    let base = |api, lens: Vec<usize>, n| Case { api, lens, at: None, flags: 0, zc: false, extract: false, n, buf: BufKind::Vec };
    let waitall = libc::MSG_WAITALL as u32;
    for cap in if quick { vec![1usize, 2, 4, 5] } else { vec![1usize, 2, 4, 5, 8] } {
        for n in 1..=cap {
            for buf in [BufKind::Vec, BufKind::Prefilled, BufKind::Limited, BufKind::PoolFresh] {
                for at in [None, Some(9u64)] {
                    if at.is_some() && buf != BufKind::Vec {
                        continue;
                    }
                    v.push(Case { buf, at, ..base(Api::ReadN, vec![cap], n) });
                }
                for flags in [0, waitall] {
                    if flags != 0 && buf != BufKind::Vec {
                        continue;
                    }
                    v.push(Case { buf, flags, ..base(Api::RecvN, vec![cap], n) });
                }
            }
        }
    }
    let (max_n, alpha): (usize, &[usize]) = if quick { (3, &[0, 1, 2]) } else { (5, &[0, 1, 2, 3]) };
    for nb in 1..=max_n {
        for lens in shapes(nb, alpha) {
            let total: usize = lens.iter().sum();
            if total > if quick { 5 } else { 8 } {
                continue;
            }
            for n in 1..=total {
                if quick && n != 1 && n != total && n != total / 2 + 1 {
                    continue;
                }
                v.push(Case { at: Some(4), ..base(Api::ReadNVectored, lens.clone(), n) });
                v.push(Case { flags: waitall, ..base(Api::RecvNVectored, lens.clone(), n) });
            }
        }
    }
    v
}
