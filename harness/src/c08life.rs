//! C08: life cycle of a ReadBufPool, its handles and its ReadBufs.
//!
//! Letters: get a fresh ReadBuf from the pool, read into a ReadBuf (fresh, released, or holding
//! data), `release()` it explicitly (the ReadBuf stays usable), `clear()` it, drop it, drop the
//! pool handle. After every letter the buffer ids offered to the kernel and the ones owned by a
//! live ReadBuf must partition the pool.
#![allow(dead_code)]

use std::task::Context;
use std::time::Duration;

use a10::io::{ReadBuf, ReadBufPool};
use a10::{AsyncFd, Ring, SubmissionQueue};

use crate::abi::*;
use crate::ops::{self, Seen};
use crate::report::Violation;
use crate::seqx::World;
use crate::simk::{self, Out};
use crate::talloc;
use crate::waker::HWaker;

const NBUFS: usize = 2;

#[derive(Clone, Debug, PartialEq, Eq)]
pub struct Case {
    pub pool: u16,
    pub buf_size: u32,
    /// The pool has already performed this many releases (the 16-bit ring tail starts there).
    pub shift: u16,
}

#[derive(Clone, Debug, PartialEq, Eq)]
pub enum Action {
    Pick(usize),
    Get(usize),
    /// Read into ReadBuf `j`; the kernel delivers `n` bytes.
    Read(usize, usize),
    Release(usize),
    Clear(usize),
    DropBuf(usize),
    DropPool,
    /// Try to create a further pool while the kernel refuses the registration (EEXIST: group id in use).
    NewPoolRefused,
}

pub struct LifeWorld {
    cases: std::rc::Rc<Vec<Case>>,
    case: Option<Case>,
    ring: Option<Ring>,
    sq: Option<SubmissionQueue>,
    fd: Option<&'static AsyncFd>,
    pool: Option<ReadBufPool>,
    bufs: Vec<Option<ReadBuf>>,
    /// Model: the buffer id each ReadBuf owns and what it holds.
    owns: Vec<Option<(u16, Vec<u8>)>>,
    /// (address, length) of every pool buffer by id.
    table: Vec<(usize, u32)>,
    violations: Vec<Violation>,
    history: Vec<String>,
    reads: usize,
    refused_done: bool,
}

impl LifeWorld {
    pub fn new(cases: std::rc::Rc<Vec<Case>>) -> LifeWorld {
        LifeWorld { cases, case: None, ring: None, sq: None, fd: None, pool: None, bufs: (0..NBUFS).map(|_| None).collect(), owns: vec![None; NBUFS], table: Vec::new(), violations: Vec::new(), history: Vec::new(), reads: 0, refused_done: false }
    }

    fn bad(&mut self, sig: &str, msg: String) {
        let c = self.case.clone();
        let h = self.history.clone();
        self.violations.push(Violation::new("C08", sig, &format!("{msg} [case {c:?}; letters {h:?}]")));
    }

    fn enter(&mut self) {
        talloc::track(|| {
            let _ = self.ring.as_mut().unwrap().poll(Some(Duration::ZERO));
        });
    }

    fn setup(&mut self, c: Case) {
        simk::reset(simk::SetupPlan::default());
        talloc::set_on_free(Some(simk::on_free));
        talloc::track(|| {
            let ring = Ring::config().with_submission_queue_size(4).build().expect("ring");
            let sq = ring.sq();
            let raw = simk::with(|k| k.new_regular_pub());
            let fd: &'static AsyncFd = Box::leak(Box::new(unsafe { AsyncFd::from_raw_fd(raw, sq.clone()) }));
            self.pool = Some(ReadBufPool::new(sq.clone(), c.pool, c.buf_size).expect("pool"));
            self.ring = Some(ring);
            self.sq = Some(sq);
            self.fd = Some(fd);
        });
        self.table = simk::with(|k| {
            let pb = &k.rings[0].pbufs[0];
            let mut v = vec![(0usize, 0u32); pb.entries as usize];
            for i in 0..pb.entries as usize {
                let e = unsafe { std::ptr::read_volatile((pb.addr + i * 16) as *const BufRingEntry) };
                v[e.bid as usize] = (e.addr as usize, e.len);
            }
            v
        });
        if c.shift != 0 {
            // The same pool after `shift` releases: advance the ring tail and the kernel's head together
            // (a10 keeps no copy of either), moving the entries so that indices still line up.
            simk::with(|k| {
                let pb = &mut k.rings[0].pbufs[0];
                let n = pb.entries as usize;
                let tail = unsafe { &*((pb.addr + 14) as *const std::sync::atomic::AtomicU16) };
                let t = tail.load(std::sync::atomic::Ordering::SeqCst);
                let old: Vec<BufRingEntry> = (0..n).map(|i| unsafe { std::ptr::read_volatile((pb.addr + i * 16) as *const BufRingEntry) }).collect();
                for i in 0..n {
                    let dst = (i + c.shift as usize) % n;
                    let p = (pb.addr + dst * 16) as *mut BufRingEntry;
                    unsafe {
                        (*p).addr = old[i].addr;
                        (*p).len = old[i].len;
                        (*p).bid = old[i].bid;
                    }
                }
                tail.store(t.wrapping_add(c.shift), std::sync::atomic::Ordering::SeqCst);
                pb.head = pb.head.wrapping_add(c.shift);
            });
        }
        self.case = Some(c);
    }

    /// Ids the kernel is offered right now, in ring order; None once the ring is unregistered.
    fn offered(&mut self) -> Option<Vec<u16>> {
        let table = self.table.clone();
        let (ids, bad) = simk::with(|k| {
            let Some(pb) = k.rings.first().and_then(|r| r.pbufs.first()) else { return (None, Vec::new()) };
            let tail = unsafe { &*((pb.addr + 14) as *const std::sync::atomic::AtomicU16) }.load(std::sync::atomic::Ordering::SeqCst);
            let mut ids = Vec::new();
            let mut bad = Vec::new();
            let mut h = pb.head;
            let mut guard = 0;
            while h != tail && guard < 64 {
                let idx = (h as u32 & (pb.entries - 1)) as usize;
                let e = unsafe { std::ptr::read_volatile((pb.addr + idx * 16) as *const BufRingEntry) };
                ids.push(e.bid);
                match table.get(e.bid as usize) {
                    Some((a, l)) if *a == e.addr as usize && *l == e.len => {}
                    _ => bad.push(format!("entry {idx}: addr={:#x} len={} bid={}", e.addr, e.len, e.bid)),
                }
                h = h.wrapping_add(1);
                guard += 1;
            }
            (Some(ids), bad)
        });
        for b in bad {
            self.bad("bad-ring-entry", format!("buffer ring entry does not describe its buffer: {b}"));
        }
        ids
    }

    fn check(&mut self) {
        for (class, msg) in simk::with(|k| std::mem::take(&mut k.violations)) {
            self.violations.push(Violation::new("C01", &format!("memory/{class}"), &msg));
        }
        let Some(offered) = self.offered() else { return };
        let owned: Vec<u16> = self.owns.iter().flatten().map(|(b, _)| *b).collect();
        let mut all: Vec<u16> = offered.iter().copied().chain(owned.iter().copied()).collect();
        all.sort();
        let want: Vec<u16> = (0..self.table.len() as u16).collect();
        if all != want {
            let mut d = all.clone();
            d.dedup();
            let sig = if d.len() != all.len() { "offered-twice" } else { "buffer-lost" };
            self.bad(sig, format!("the kernel is offered {offered:?}, live ReadBufs own {owned:?}; every buffer of {want:?} must appear exactly once"));
        }
        // What the ReadBufs hold.
        for j in 0..NBUFS {
            let Some(b) = self.bufs[j].as_ref() else { continue };
            match &self.owns[j] {
                Some((bid, data)) => {
                    let (addr, _) = self.table[*bid as usize];
                    let got = b[..].to_vec();
                    let at = b.as_ptr() as usize;
                    if got != *data || (at != addr && !got.is_empty()) {
                        let (data, bid) = (data.clone(), *bid);
                        self.bad("content-differs", format!("ReadBuf {j} owns buffer {bid} (at {addr:#x}) and should hold {data:02x?}; it holds {got:02x?} at {at:#x}"));
                    }
                }
                None => {
                    if !b.is_empty() {
                        let got = b[..].to_vec();
                        self.bad("content-differs", format!("ReadBuf {j} owns no buffer but holds {got:02x?}"));
                    }
                }
            }
        }
    }

    fn read(&mut self, j: usize, n: usize) {
        let buf = self.bufs[j].take().unwrap();
        let had = self.owns[j].clone();
        let offered_before = self.offered().unwrap_or_default();
        self.reads += 1;
        let mut op = ops::make_reread(self.fd.unwrap(), buf, 0);
        let w = HWaker::new(1);
        let mut cx = Context::from_waker(&w.waker);
        if op.poll(&mut cx) != Seen::Pending {
            self.bad("read-not-pending", "the first poll of a read did not return Pending".into());
            return;
        }
        self.enter();
        let Some(s) = simk::with(|k| k.inflight().last().copied()) else {
            self.bad("read-not-submitted", "the read was not submitted".into());
            return;
        };
        let select = simk::with(|k| k.req(s).pool);
        let spare = match &had {
            Some((_, d)) => self.case.as_ref().unwrap().buf_size as usize - d.len(),
            None => self.case.as_ref().unwrap().buf_size as usize,
        };
        let n = n.min(spare);
        if had.is_some() && select {
            self.bad("reread-selects", format!("a read into ReadBuf {j}, which owns a buffer, asked the kernel to select one"));
        }
        if had.is_none() && !select {
            self.bad("read-without-select", format!("a read into ReadBuf {j}, which owns no buffer, did not ask the kernel to select one"));
        }
        simk::with(|k| k.complete(s, Out::Res(n as i32)));
        self.enter();
        let seen = op.poll(&mut cx);
        let out = simk::with(|k| k.req(s).outs.last().cloned()).unwrap_or_default();
        match seen {
            Seen::Ready(ref r) if r.starts_with("err:") => {
                // No buffer available (or another error): the ReadBuf went with the failed operation.
                if out.res >= 0 {
                    self.bad("read-failed", format!("the kernel answered {} but the read resolved with {r}", out.res));
                }
                self.owns[j] = None;
                // a10 hands the buffer back with the error? It does not: the ReadBuf is dropped; what it owned is released.
            }
            Seen::Ready(_) => {
                let b = op.bufs.borrow_mut().pop();
                self.bufs[j] = b;
                if out.res < 0 {
                    self.bad("read-made-up", format!("the kernel answered {} but the read resolved with data", out.res));
                }
                match had {
                    Some((bid, mut d)) => {
                        d.extend_from_slice(&out.data);
                        self.owns[j] = Some((bid, d));
                    }
                    None => {
                        if out.flags & CQE_F_BUFFER != 0 {
                            let bid = (out.flags >> CQE_BUFFER_SHIFT) as u16;
                            if offered_before.first() != Some(&bid) {
                                // (simk takes the head of the ring; anything else is simk's problem.)
                            }
                            self.owns[j] = Some((bid, out.data.clone()));
                        } else {
                            self.owns[j] = None;
                        }
                    }
                }
            }
            other => self.bad("read-stuck", format!("after its completion was processed the read returned {other:?}")),
        }
        talloc::track(|| drop(op));
    }
}

impl World for LifeWorld {
    type Action = Action;

    fn enabled(&mut self) -> Vec<(Action, u32)> {
        if self.case.is_none() {
            return (0..self.cases.len()).map(|i| (Action::Pick(i), 0)).collect();
        }
        let mut v = Vec::new();
        for j in 0..NBUFS {
            match &self.bufs[j] {
                None => {
                    if self.pool.is_some() {
                        v.push((Action::Get(j), 0));
                    }
                }
                Some(_) => {
                    if self.reads < 4 {
                        v.push((Action::Read(j, 2), 0));
                        v.push((Action::Read(j, 0), 0));
                    }
                    v.push((Action::Release(j), 0));
                    v.push((Action::Clear(j), 0));
                    v.push((Action::DropBuf(j), 0));
                }
            }
        }
        if self.pool.is_some() {
            v.push((Action::DropPool, 0));
        }
        if !self.refused_done {
            v.push((Action::NewPoolRefused, 0));
        }
        v
    }

    fn apply(&mut self, a: &Action) {
        self.history.push(format!("{a:?}"));
        match a {
            Action::Pick(i) => {
                let c = self.cases[*i].clone();
                self.setup(c);
            }
            Action::Get(j) => {
                let b = talloc::track(|| self.pool.as_ref().unwrap().get());
                self.bufs[*j] = Some(b);
                self.owns[*j] = None;
            }
            Action::Read(j, n) => self.read(*j, *n),
            Action::Release(j) => {
                let b = self.bufs[*j].as_mut().unwrap();
                talloc::track(|| b.release());
                self.owns[*j] = None;
            }
            Action::Clear(j) => {
                let b = self.bufs[*j].as_mut().unwrap();
                talloc::track(|| b.clear());
                if let Some((_, d)) = self.owns[*j].as_mut() {
                    d.clear();
                }
            }
            Action::DropBuf(j) => {
                let b = self.bufs[*j].take();
                talloc::track(|| drop(b));
                self.owns[*j] = None;
            }
            Action::DropPool => {
                let p = self.pool.take();
                talloc::track(|| drop(p));
            }
            Action::NewPoolRefused => {
                self.refused_done = true;
                let log_before = simk::with(|k| {
                    k.fail_register.insert(REGISTER_PBUF_RING, libc::EEXIST);
                    k.log.len()
                });
                let sq = self.sq.as_ref().unwrap().clone();
                let r = talloc::track(|| ReadBufPool::new(sq, 2, 8));
                simk::with(|k| {
                    k.fail_register.remove(&REGISTER_PBUF_RING);
                });
                if r.is_ok() {
                    self.bad("refused-pool-created", "the kernel refused to register the buffer ring, ReadBufPool::new returned a pool all the same".into());
                }
                talloc::track(|| drop(r));
                // A pool that was never registered has nothing to unregister: whatever a10 unregisters now
                // belongs to somebody else (a live pool with that group id).
                let unregs: Vec<i32> = simk::with(|k| k.log[log_before..].iter().filter_map(|e| if let simk::Event::Register { opcode, ret, .. } = e { if *opcode == UNREGISTER_PBUF_RING { Some(*ret) } else { None } } else { None }).collect());
                if !unregs.is_empty() {
                    self.bad("unregister-after-refused-registration", format!("after the kernel refused the registration of a new buffer ring a10 issued {} unregistration(s) (answers {unregs:?}): with the group id in use that takes the buffers of a live pool away from the kernel", unregs.len()));
                }
            }
        }
        self.check();
    }

    fn take_violations(&mut self) -> Vec<Violation> {
        std::mem::take(&mut self.violations)
    }

    fn key(&mut self) -> u64 {
        if self.case.is_none() {
            return 0;
        }
        let offered = self.offered();
        crate::report::hash_str(&format!("{:?}{:?}{:?}{:?}{}{:?}{}", self.case, self.pool.is_some(), self.bufs.iter().map(|b| b.is_some()).collect::<Vec<_>>(), self.owns, self.reads, offered, self.refused_done))
    }

    fn observation(&self) -> u64 {
        crate::report::hash_str(&format!("{:?}", self.owns))
    }

    fn finish(self) -> Vec<Violation> {
        let mut this = std::mem::ManuallyDrop::new(self);
        if this.case.is_none() {
            return Vec::new();
        }
        if !this.violations.is_empty() {
            simk::shutdown();
            talloc::disarm();
            return std::mem::take(&mut this.violations);
        }
        // Everything goes; once no ReadBuf and no handle is left the kernel must be offered nothing of
        // this pool any more (the ring is unregistered) and all memory is back.
        for j in 0..NBUFS {
            let b = this.bufs[j].take();
            talloc::track(|| drop(b));
            this.owns[j] = None;
            this.check();
        }
        let p = this.pool.take();
        talloc::track(|| drop(p));
        if simk::with(|k| k.rings.first().is_some_and(|r| !r.pbufs.is_empty())) {
            this.bad("still-registered", "the buffer ring is still registered although the pool handle and every ReadBuf are gone".into());
        }
        let fd = this.fd.take();
        let ring = this.ring.take();
        let sq = this.sq.take();
        talloc::track(|| {
            if let Some(fd) = fd {
                drop(unsafe { Box::from_raw(std::ptr::from_ref(fd).cast_mut()) });
            }
            drop(ring);
            drop(sq);
        });
        for (class, msg) in simk::with(|k| std::mem::take(&mut k.violations)) {
            this.violations.push(Violation::new("C01", &format!("memory/{class}"), &msg));
        }
        simk::shutdown();
        let rep = talloc::disarm();
        if rep.double_frees > 0 {
            this.bad("double-free", format!("{} double free(s)", rep.double_frees));
        }
        if !rep.leaked.is_empty() && this.violations.is_empty() {
            let total: usize = rep.leaked.iter().map(|b| b.size).sum();
            this.bad("pool-memory-leaked", format!("{} block(s), {total} bytes still allocated after the pool, its ReadBufs and the ring were dropped", rep.leaked.len()));
        }
        std::mem::take(&mut this.violations)
    }
}

pub fn cases(quick: bool) -> Vec<Case> {
    let mut v = vec![
        Case { pool: 2, buf_size: 6, shift: 0 },
        Case { pool: 1, buf_size: 4, shift: 0 },
        Case { pool: 2, buf_size: 4, shift: 0u16.wrapping_sub(3) },
    ];
    if !quick {
        v.push(Case { pool: 4, buf_size: 3, shift: 0 });
        v.push(Case { pool: 2, buf_size: 8, shift: 0u16.wrapping_sub(2) });
        v.push(Case { pool: 1, buf_size: 1, shift: 0u16.wrapping_sub(1) });
    }
    v
}
