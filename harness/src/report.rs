//! Violations, known findings and evidence files.
#![allow(dead_code)]

use serde_json::{Value, json};

#[derive(Clone, Debug, PartialEq, Eq)]
pub struct Violation {
    pub prop: String,
    /// `<clause>/<class>`: what failed, specific enough that a different
    /// failure of the same property has a different signature.
    pub sig: String,
    pub msg: String,
}

impl Violation {
    pub fn new(prop: &str, sig: &str, msg: &str) -> Violation {
        Violation { prop: prop.to_string(), sig: sig.to_string(), msg: msg.to_string() }
    }

    pub fn full_sig(&self) -> String {
        format!("{}/{}", self.prop, self.sig)
    }
}

#[derive(Clone, Debug)]
pub struct Known {
    pub prop: String,
    pub key: String,
    pub text: String,
}

/// Parse /verif/known_findings.txt: lines `known: property=<id> key=<sig> <text>`.
pub fn load_known(path: &str) -> Vec<Known> {
    let mut out = Vec::new();
    let Ok(s) = std::fs::read_to_string(path) else {
        return out;
    };
    for line in s.lines() {
        let line = line.trim();
        let Some(rest) = line.strip_prefix("known:") else {
            continue;
        };
        let mut prop = String::new();
        let mut key = String::new();
        let mut text = Vec::new();
        for w in rest.split_whitespace() {
            if let Some(p) = w.strip_prefix("property=") {
                if prop.is_empty() {
                    prop = p.to_string();
                    continue;
                }
            }
            if let Some(k) = w.strip_prefix("key=") {
                if key.is_empty() {
                    key = k.to_string();
                    continue;
                }
            }
            text.push(w);
        }
        if !prop.is_empty() && !key.is_empty() {
            out.push(Known { prop, key, text: text.join(" ") });
        }
    }
    out
}

pub fn is_known<'a>(known: &'a [Known], v: &Violation) -> Option<&'a Known> {
    known.iter().find(|k| k.prop == v.prop && k.key == v.sig)
}

pub fn hash_str(s: &str) -> u64 {
    let mut h: u64 = 0xcbf29ce484222325;
    for b in s.bytes() {
        h ^= b as u64;
        h = h.wrapping_mul(0x100000001b3);
    }
    h
}

pub fn write_json(path: &str, v: &Value) {
    let tmp = format!("{path}.tmp");
    std::fs::write(&tmp, serde_json::to_string_pretty(v).unwrap()).unwrap();
    std::fs::rename(&tmp, path).unwrap();
}

pub fn evidence_base(prop: &str, tier: &str, seed: i64, level: &str) -> Value {
    json!({
        "property_id": prop,
        "tier": tier,
        "seed": seed,
        "level": level,
        "coverage": {},
        "assumptions": [],
        "wall_s": 0.0,
        "violations": 0,
    })
}

/// The known findings file, loaded once per process.
pub fn known_list() -> std::rc::Rc<Vec<Known>> {
    thread_local! {
        static KNOWN: std::rc::Rc<Vec<Known>> = std::rc::Rc::new(load_known(&format!("{}/known_findings.txt", root())));
    }
    KNOWN.with(|k| k.clone())
}

/// Root of the verification tree (`/verif`, or a snapshot of it).
pub fn root() -> String {
    std::env::var("A10MC_ROOT").unwrap_or_else(|_| "/verif".to_string())
}
