//! Threaded worlds for the schedule explorer.
#![allow(dead_code)]

use std::sync::{Arc, Mutex};
use std::task::Context;
use std::time::Duration;

use a10::{AsyncFd, Ring, SubmissionQueue};
use serde_json::{Value, json};

use crate::abi::*;
use crate::ops::{self, Kind, Op, Seen};
use crate::report::Violation;
use crate::schx::{self, Actor, Body, Exec};
use crate::simk::{self, Out};
use crate::talloc;
use crate::waker::HWaker;

/// Lets non-Send harness objects cross into a managed thread: only one
/// managed thread runs at a time and hand-offs synchronise.
pub struct Sendable<T>(pub T);
unsafe impl<T> Send for Sendable<T> {}

pub struct ThSetup {
    pub bodies: Vec<(String, Body)>,
    pub actors: Vec<Actor>,
    /// Runs on the explorer thread after all threads finished.
    pub judge: Box<dyn FnOnce(&Exec) -> Vec<Violation>>,
}

pub struct ThHarness {
    pub name: String,
    pub bound: u32,
    /// Bound on non-default choices at points where the running thread cannot continue; 0 = unlimited.
    pub free_bound: u32,
    pub cap_s: u64,
    pub describe: Value,
    pub mk: Box<dyn Fn() -> ThSetup>,
}

pub struct ThResult {
    pub exec: Exec,
    pub violations: Vec<Violation>,
    pub outcome: u64,
}

/// Run one schedule of a threaded harness.
pub fn run_schedule(h: &ThHarness, prop: &str, prefix: &[usize], trace: bool) -> ThResult {
    crate::waker::reset_clock();
    talloc::arm();
    let setup = (h.mk)();
    let exec = schx::run(setup.bodies, setup.actors, prefix, trace);
    let mut violations = Vec::new();
    for p in &exec.panics {
        violations.push(Violation::new(prop, &format!("panic/{}", crate::seqx::panic_class(p)), &format!("a10 panicked: {p}")));
    }
    if exec.aborted && !exec.too_long && !exec.bad_choice {
        violations.push(Violation::new(prop, "deadlock/mutex", &format!("threads deadlocked: {:?}", exec.deadlocks)));
    }
    if exec.aborted || !violations.is_empty() {
        std::mem::forget(setup.judge);
        simk::shutdown();
        talloc::disarm();
    } else {
        let j = std::panic::catch_unwind(std::panic::AssertUnwindSafe(|| (setup.judge)(&exec)));
        match j {
            Ok(v) => violations.extend(v),
            Err(_) => {
                let msg = crate::seqx::take_panic();
                violations.push(Violation::new(prop, &format!("panic/epilogue/{}", crate::seqx::panic_class(&msg)), &format!("a10 panicked in the epilogue: {msg}")));
                simk::shutdown();
                talloc::disarm();
            }
        }
    }
    let outcome = crate::report::hash_str(&format!("{:?}{:?}", exec.deadlocks, violations.iter().map(|v| &v.sig).collect::<Vec<_>>()));
    ThResult { exec, violations, outcome }
}

fn sim_violations(prop_default: &str) -> Vec<Violation> {
    simk::with(|k| std::mem::take(&mut k.violations))
        .into_iter()
        .map(|(class, msg)| {
            let prop = if class.starts_with("sq-") { "C04" } else if class.starts_with("close-") { "C07" } else { prop_default };
            Violation::new(prop, &class, &msg)
        })
        .collect()
}

// --------------------------------------------------------------------- C04

pub struct C04Cfg {
    pub sq: u32,
    pub c0: u32,
    pub submitters: usize,
    pub per: usize,
    /// Consumer: a thread calling Ring::poll `polls` times, or (sqpoll) the
    /// kernel's sq-thread as an actor.
    pub sqpoll: bool,
    pub polls: usize,
    /// IORING_SETUP_SINGLE_ISSUER: only the polling thread enters the kernel, every thread still queues.
    pub single_issuer: bool,
}

struct C04Shared {
    ring: Option<Ring>,
    ops: Vec<Option<(Op, HWaker, String)>>, // op, waker, expected value
    seen: Vec<Option<Seen>>,
    fd: Option<&'static AsyncFd>,
}

pub fn c04_threads(cfg: C04Cfg, bound: u32) -> ThHarness {
    let name = format!("threads-sq{}-c0={:#x}-{}x{}{}{}", cfg.sq, cfg.c0, cfg.submitters, cfg.per, if cfg.sqpoll { "-sqpoll" } else { "" }, if cfg.single_issuer { "-single-issuer" } else { "" });
    let describe = json!({"engine": "schx", "sq": cfg.sq, "c0_sq": cfg.c0, "submitters": cfg.submitters, "submissions_each": cfg.per, "consumer": if cfg.sqpoll {"sq-thread actor"} else {"thread calling Ring::poll"}, "single_issuer": cfg.single_issuer, "preemption_bound": bound});
    let cfg = Arc::new(cfg);
    ThHarness {
        name,
        bound,
        free_bound: 0,
        cap_s: 0,
        describe,
        mk: Box::new(move || {
            let cfg = cfg.clone();
            simk::reset(simk::SetupPlan { c0_sq: cfg.c0, ..Default::default() });
            talloc::set_on_free(Some(simk::on_free));
            let (ring, sq, fd) = talloc::track(|| {
                let mut c = Ring::config().with_submission_queue_size(cfg.sq);
                if cfg.sqpoll {
                    c = c.with_kernel_thread();
                }
                if cfg.single_issuer {
                    c = c.single_issuer();
                }
                let ring = c.build().expect("ring");
                let sq = ring.sq();
                let raw = simk::with(|k| k.new_regular_pub());
                let fd: &'static AsyncFd = Box::leak(Box::new(unsafe { AsyncFd::from_raw_fd(raw, sq.clone()) }));
                (ring, sq, fd)
            });
            if cfg.sqpoll {
                simk::with(|k| k.sqpoll_manual = true);
            }
            let single_issuer = cfg.single_issuer;
            let total = cfg.submitters * cfg.per;
            let mut ops = Vec::new();
            for n in 0..total {
                let env = ops::Env { sq: &sq, fd, pool: None, nth: n };
                let op = ops::make(Kind::WriteVec, &env);
                ops.push(Some((op, HWaker::new(n as u32 + 1), format!("n:{}", 5 + n))));
            }
            let shared = Arc::new(Mutex::new(Sendable(C04Shared { ring: Some(ring), ops, seen: vec![None; total], fd: Some(fd) })));
            let mut bodies: Vec<(String, Body)> = Vec::new();
            for t in 0..cfg.submitters {
                let shared = shared.clone();
                let per = cfg.per;
                bodies.push((
                    format!("submitter{t}"),
                    Box::new(move || {
                        for j in 0..per {
                            let idx = t * per + j;
                            let mut item = shared.lock().unwrap().0.ops[idx].take().unwrap();
                            let seen = {
                                let mut cx = Context::from_waker(&item.1.waker);
                                item.0.poll(&mut cx)
                            };
                            let mut g = shared.lock().unwrap();
                            g.0.seen[idx] = Some(seen);
                            g.0.ops[idx] = Some(item);
                        }
                    }),
                ));
            }
            let mut actors = Vec::new();
            if cfg.sqpoll {
                actors.push(Actor {
                    name: "sq-thread".into(),
                    enabled: Box::new(|| simk::with(|k| k.rings[0].sq_pending() > 0)),
                    step: Box::new(|| {
                        simk::with(|k| {
                            k.consume(0, 1);
                        })
                    }),
                });
            } else {
                let shared = shared.clone();
                let polls = cfg.polls;
                bodies.push((
                    "poller".into(),
                    Box::new(move || {
                        let mut ring = shared.lock().unwrap().0.ring.take().unwrap();
                        if single_issuer {
                            // The polling thread is the ring's owner.
                            simk::with(|k| k.adopt_submitter(0));
                        }
                        for _ in 0..polls {
                            talloc::track(|| {
                                let _ = ring.poll(Some(Duration::ZERO));
                            });
                        }
                        shared.lock().unwrap().0.ring = Some(ring);
                    }),
                ));
            }
            let sq2 = Sendable(sq);
            let judge = Box::new(move |_exec: &Exec| -> Vec<Violation> {
                let sq = sq2;
                if single_issuer {
                    // (The owner carries on: the epilogue plays its part.)
                    simk::with(|k| k.adopt_submitter(0));
                }
                let mut v = sim_violations("C04");
                let mut g = shared.lock().unwrap();
                let s = &mut g.0;
                let mut ring = s.ring.take().unwrap();
                // Quiescence: the kernel completes everything it received, every
                // operation is re-polled; each must resolve with its own result.
                let total = s.ops.len();
                let mut resolved: Vec<Option<Seen>> = vec![None; total];
                for (i, seen) in s.seen.iter().enumerate() {
                    if let Some(Seen::Ready(_)) = seen {
                        resolved[i] = seen.clone();
                    }
                }
                if v.is_empty() {
                    for _round in 0..(2 * total + 4) {
                        if simk::with(|k| k.rings[0].flags & SETUP_SQPOLL != 0) {
                            simk::with(|k| {
                                let n = k.rings[0].sq_pending();
                                k.consume(0, n);
                            });
                        }
                        talloc::track(|| {
                            let _ = ring.poll(Some(Duration::ZERO));
                        });
                        for ser in simk::with(|k| k.inflight()) {
                            simk::with(|k| {
                                if !k.req(ser).done {
                                    k.complete(ser, Out::Default)
                                }
                            });
                        }
                        talloc::track(|| {
                            let _ = ring.poll(Some(Duration::ZERO));
                        });
                        v.extend(sim_violations("C04"));
                        if !v.is_empty() {
                            break;
                        }
                        for i in 0..total {
                            if resolved[i].is_some() {
                                continue;
                            }
                            let item = s.ops[i].as_mut().unwrap();
                            let mut cx = Context::from_waker(&item.1.waker);
                            let seen = item.0.poll(&mut cx);
                            if seen != Seen::Pending {
                                resolved[i] = Some(seen);
                            }
                        }
                        if resolved.iter().all(|r| r.is_some()) {
                            break;
                        }
                    }
                }
                if v.is_empty() {
                    for i in 0..total {
                        let want = Seen::Ready(s.ops[i].as_ref().unwrap().2.clone());
                        match &resolved[i] {
                            Some(r) if *r == want => {}
                            Some(r) => v.push(Violation::new("C04", "wrong-result", &format!("submission {i} resolved with {r:?}, expected {want:?}"))),
                            None => v.push(Violation::new("C04", "submission-lost", &format!("submission {i} was accepted but never reached the kernel: it stays Pending after the kernel completed everything it received"))),
                        }
                    }
                    // Every request the kernel received must be distinct.
                    let uds: Vec<u64> = simk::with(|k| k.reqs.iter().filter(|r| r.opcode == OP_WRITE).map(|r| r.user_data).collect());
                    let mut sorted = uds.clone();
                    sorted.sort();
                    sorted.dedup();
                    if sorted.len() != uds.len() {
                        v.push(Violation::new("C04", "consumed-twice", &format!("the kernel received the same submission more than once: {uds:x?}")));
                    }
                }
                if !v.is_empty() {
                    std::mem::forget(ring);
                    std::mem::forget(std::mem::take(&mut s.ops));
                    simk::shutdown();
                    talloc::disarm();
                    return v;
                }
                talloc::track(|| {
                    s.ops.clear();
                    if let Some(fd) = s.fd.take() {
                        drop(unsafe { Box::from_raw(std::ptr::from_ref(fd).cast_mut()) });
                    }
                    drop(ring);
                    drop(sq);
                });
                v.extend(sim_violations("C04"));
                simk::shutdown();
                talloc::disarm();
                v
            });
            ThSetup { bodies, actors, judge }
        }),
    }
}

// --------------------------------------------------------------------- C11

#[derive(Clone, Copy, Debug, PartialEq, Eq)]
pub enum RingMode {
    Default,
    KernelThread,
    SingleIssuer,
    SingleIssuerDefer,
}

pub struct C11Cfg {
    pub mode: RingMode,
    /// Polls the poller makes: None = poll(None), Some(0) = poll(Some(0)).
    pub polls: Vec<Option<u64>>,
    /// Number of waker threads and wake() calls each.
    pub wakers: usize,
    pub wakes_each: usize,
    pub sq: u32,
    /// Fill the submission queue before the threads start.
    pub sq_full: bool,
    /// Bookkeeping completions the kernel publishes: before poll number i starts.
    pub pre_posted: Vec<usize>,
}

struct C11Shared {
    ring: Option<Ring>,
    /// Logical trace: (thread, event, clock).
    events: Vec<(usize, &'static str, u64)>,
}

pub fn c11(cfg: C11Cfg, bound: u32) -> ThHarness {
    let name = format!("{:?}-polls{:?}-{}x{}wake{}{}", cfg.mode, cfg.polls, cfg.wakers, cfg.wakes_each, if cfg.sq_full { "-sqfull" } else { "" }, if cfg.pre_posted.is_empty() { String::new() } else { format!("-cqe-before-poll{:?}", cfg.pre_posted) });
    let describe = json!({"engine": "schx", "ring_mode": format!("{:?}", cfg.mode), "poller_calls": format!("{:?}", cfg.polls), "waker_threads": cfg.wakers, "wakes_each": cfg.wakes_each, "sq": cfg.sq, "sq_full": cfg.sq_full, "preemption_bound": bound});
    let cfg = Arc::new(cfg);
    ThHarness {
        name,
        bound,
        free_bound: 0,
        cap_s: 0,
        describe,
        mk: Box::new(move || {
            let cfg = cfg.clone();
            simk::reset(simk::SetupPlan::default());
            talloc::set_on_free(Some(simk::on_free));
            let mode = cfg.mode;
            // With single issuer the ring must be built on the polling thread:
            // the poller builds it and publishes the queue handle.
            let shared = Arc::new(Mutex::new(Sendable(C11Shared { ring: None, events: Vec::new() })));
            let sq_slot: Arc<Mutex<Option<Sendable<SubmissionQueue>>>> = Arc::new(Mutex::new(None));
            let build = move |sq_size: u32| -> Ring {
                let mut c = Ring::config().with_submission_queue_size(sq_size);
                c = match mode {
                    RingMode::Default => c,
                    RingMode::KernelThread => c.with_kernel_thread(),
                    RingMode::SingleIssuer => c.single_issuer(),
                    RingMode::SingleIssuerDefer => c.single_issuer().defer_task_run(),
                };
                c.build().expect("ring")
            };
            let mut bodies: Vec<(String, Body)> = Vec::new();
            {
                let shared = shared.clone();
                let sq_slot = sq_slot.clone();
                let cfg = cfg.clone();
                bodies.push((
                    "poller".into(),
                    Box::new(move || {
                        let mut ring = talloc::track(|| build(cfg.sq));
                        let sq = ring.sq();
                        if cfg.sq_full {
                            // Occupy every submission slot with a queued (unsubmitted) operation.
                            let raw = simk::with(|k| k.new_regular_pub());
                            let fd: &'static AsyncFd = Box::leak(Box::new(unsafe { AsyncFd::from_raw_fd(raw, sq.clone()) }));
                            for n in 0..cfg.sq as usize {
                                let env = ops::Env { sq: &sq, fd, pool: None, nth: n };
                                let mut op = ops::make(Kind::WriteVec, &env);
                                let w = HWaker::new(50 + n as u32);
                                let mut cx = Context::from_waker(&w.waker);
                                let _ = op.poll(&mut cx);
                                std::mem::forget(op);
                            }
                        }
                        *sq_slot.lock().unwrap() = Some(Sendable(sq));
                        for (i, p) in cfg.polls.iter().enumerate() {
                            if cfg.pre_posted.contains(&i) {
                                // A completion is already published when this poll starts.
                                simk::with(|k| k.post_raw(0, 0, 0, 0));
                            }
                            shared.lock().unwrap().0.events.push((0, "poll-begin", crate::waker::tick()));
                            let timeout = p.map(Duration::from_secs);
                            let r = talloc::track(|| ring.poll(timeout));
                            let _ = (i, r);
                            shared.lock().unwrap().0.events.push((0, "poll-end", crate::waker::tick()));
                        }
                        shared.lock().unwrap().0.ring = Some(ring);
                    }),
                ));
            }
            for t in 0..cfg.wakers {
                let shared = shared.clone();
                let sq_slot = sq_slot.clone();
                let n = cfg.wakes_each;
                bodies.push((
                    format!("waker{t}"),
                    Box::new(move || {
                        // Wait for the queue handle.
                        let slot2 = sq_slot.clone();
                        schx::block_until(Box::new(move || slot2.lock().unwrap().is_some()), false, "waiting for the ring to exist");
                        let sq = match sq_slot.lock().unwrap().as_ref() {
                            Some(s) => Sendable(s.0.clone()),
                            None => return,
                        };
                        for _ in 0..n {
                            shared.lock().unwrap().0.events.push((t + 1, "wake-begin", crate::waker::tick()));
                            talloc::track(|| sq.0.wake());
                            shared.lock().unwrap().0.events.push((t + 1, "wake-end", crate::waker::tick()));
                        }
                        talloc::track(|| drop(sq));
                    }),
                ));
            }
            let mut actors = Vec::new();
            if cfg.mode == RingMode::KernelThread {
                simk::with(|k| k.sqpoll_manual = true);
                actors.push(Actor {
                    name: "sq-thread".into(),
                    enabled: Box::new(|| simk::with(|k| k.ring0_open() && k.rings[0].sq_pending() > 0 && !k.rings[0].sq_thread_idle)),
                    step: Box::new(|| {
                        simk::with(|k| {
                            k.consume(0, 1);
                        })
                    }),
                });
                actors.push(Actor {
                    name: "sq-thread-goes-idle".into(),
                    enabled: Box::new(|| simk::with(|k| k.ring0_open() && k.rings[0].sq_pending() == 0 && !k.rings[0].sq_thread_idle && k.idle_budget > 0)),
                    step: Box::new(|| {
                        simk::with(|k| {
                            k.idle_budget -= 1;
                            k.rings[0].sq_thread_idle = true;
                            k.rings[0].set_sq_flag(SQ_NEED_WAKEUP, true);
                        })
                    }),
                });
            }
            let judge = Box::new(move |exec: &Exec| -> Vec<Violation> {
                let mut v = sim_violations("C11");
                let mut g = shared.lock().unwrap();
                let events = g.0.events.clone();
                // A forced wake-up of the poller inside enter = it would have blocked forever.
                for d in &exec.deadlocks {
                    if d.contains("io_uring_enter") {
                        // Which poll was blocked? The last poll-begin without poll-end before the forced end.
                        // Is there a wake() that began after the previous poll returned and has returned?
                        let mut last_end = 0u64;
                        let mut cur_begin = 0u64;
                        for (t, e, c) in &events {
                            if *t == 0 && *e == "poll-begin" {
                                cur_begin = *c;
                            }
                            if *t == 0 && *e == "poll-end" {
                                // Only polls that ended before the deadlock matter; keep the previous one.
                                let _ = c;
                            }
                        }
                        // Which earlier polls may have absorbed a wake? Only polls that
                        // went into the kernel to wait: such a poll may consume a wake-up
                        // that begins before it returns. A poll that only hands over
                        // already published completions never waits and consumes none.
                        let mut polls: Vec<(u64, u64)> = Vec::new(); // (begin, end) of completed polls
                        let mut b = None;
                        for (t, e, c) in &events {
                            if *t == 0 && *e == "poll-begin" {
                                b = Some(*c);
                            }
                            if *t == 0 && *e == "poll-end" {
                                if let Some(bb) = b.take() {
                                    polls.push((bb, *c));
                                }
                            }
                        }
                        let waits: Vec<u64> = simk::with(|k| k.enter_returns.iter().filter(|(_, _, w)| *w).map(|(_, c, _)| *c).collect());
                        for (pb, pe) in &polls {
                            if *pe < cur_begin && waits.iter().any(|w| *w > *pb && *w < *pe) {
                                last_end = last_end.max(*pe);
                            }
                        }
                        let mut begun: std::collections::HashMap<usize, u64> = std::collections::HashMap::new();
                        let mut counted = false;
                        for (t, e, c) in &events {
                            if *t == 0 {
                                continue;
                            }
                            if *e == "wake-begin" {
                                begun.insert(*t, *c);
                            }
                            if *e == "wake-end" {
                                if let Some(b) = begun.get(t) {
                                    if *b > last_end {
                                        counted = true;
                                    }
                                }
                            }
                        }
                        if counted {
                            v.push(Violation::new("C11", "lost-wake", &format!("Ring::poll stays blocked in the kernel although a wake() call that began after the previous poll had returned has completed ({d})")));
                        }
                    } else if !d.contains("waiting for the ring") {
                        v.push(Violation::new("C11", "stuck", &format!("threads stuck: {d}")));
                    }
                }
                if !v.is_empty() {
                    std::mem::forget(g.0.ring.take());
                    simk::shutdown();
                    talloc::disarm();
                    return v;
                }
                let ring = g.0.ring.take();
                let sq = sq_slot.lock().unwrap().take();
                talloc::track(|| {
                    drop(ring);
                    // wake() after the Ring is gone must be harmless.
                    if let Some(sq) = &sq {
                        sq.0.wake();
                    }
                    drop(sq);
                });
                v.extend(sim_violations("C11"));
                simk::shutdown();
                talloc::disarm();
                v
            });
            ThSetup { bodies, actors, judge }
        }),
    }
}

// --------------------------------------------------------------------- C03

#[derive(Clone)]
pub struct C03Cfg {
    pub sq: u32,
    /// Pre-fill the submission queue with this many unsubmitted operations.
    pub prefill: usize,
    pub kind: Kind,
    /// The task re-polls once with a fresh waker before waiting.
    pub repoll_fresh: bool,
    /// Number of tasks (each on its own thread).
    pub tasks: usize,
    /// Max Ring::poll calls of the ring thread.
    pub max_polls: usize,
    /// The ring has a kernel thread: submissions are consumed by an actor at any scheduling point.
    pub sqpoll: bool,
    /// The ring thread polls without a timeout (`Ring::poll(None)`).
    pub poll_none: bool,
}

struct C03Shared {
    ring: Option<Ring>,
    events: Vec<(usize, String, u64)>,
    done: Vec<bool>,
    ops: Vec<Option<Op>>,
    results: Vec<Vec<Seen>>,
    stuck: Vec<Option<String>>,
}

pub fn c03_threads(cfg: C03Cfg, bound: u32) -> ThHarness {
    let name = format!("threads-sq{}-prefill{}-{:?}x{}{}{}{}", cfg.sq, cfg.prefill, cfg.kind, cfg.tasks, if cfg.repoll_fresh { "-repoll" } else { "" }, if cfg.sqpoll { "-sqpoll" } else { "" }, if cfg.poll_none { "-poll-without-timeout" } else { "" });
    let describe = json!({"engine": "schx", "sq": cfg.sq, "prefilled_submissions": cfg.prefill, "kind": format!("{:?}", cfg.kind), "tasks": cfg.tasks, "repoll_with_fresh_waker": cfg.repoll_fresh, "ring_thread_polls": cfg.max_polls, "preemption_bound": bound});
    let cfg = Arc::new(cfg);
    ThHarness {
        name,
        bound,
        free_bound: 0,
        cap_s: 0,
        describe,
        mk: Box::new(move || {
            let cfg = cfg.clone();
            simk::reset(simk::SetupPlan::default());
            talloc::set_on_free(Some(simk::on_free));
            let (ring, sq, fd) = talloc::track(|| {
                let mut c = Ring::config().with_submission_queue_size(cfg.sq);
                if cfg.sqpoll {
                    c = c.with_kernel_thread();
                }
                let ring = c.build().expect("ring");
                let sq = ring.sq();
                let raw = simk::with(|k| k.new_regular_pub());
                let fd: &'static AsyncFd = Box::leak(Box::new(unsafe { AsyncFd::from_raw_fd(raw, sq.clone()) }));
                (ring, sq, fd)
            });
            // Pre-fill.
            let mut prefill_ops = Vec::new();
            for n in 0..cfg.prefill {
                let env = ops::Env { sq: &sq, fd, pool: None, nth: 20 + n };
                let mut op = ops::make(Kind::WriteVec, &env);
                let w = HWaker::new(900 + n as u32);
                let mut cx = Context::from_waker(&w.waker);
                let _ = op.poll(&mut cx);
                prefill_ops.push(op);
            }
            let mut ops_v = Vec::new();
            for n in 0..cfg.tasks {
                let env = ops::Env { sq: &sq, fd, pool: None, nth: n };
                ops_v.push(Some(ops::make(cfg.kind, &env)));
            }
            let shared = Arc::new(Mutex::new(Sendable(C03Shared {
                ring: Some(ring),
                events: Vec::new(),
                done: vec![false; cfg.tasks],
                ops: ops_v,
                results: vec![Vec::new(); cfg.tasks],
                stuck: vec![None; cfg.tasks],
            })));
            let mut bodies: Vec<(String, Body)> = Vec::new();
            for t in 0..cfg.tasks {
                let shared = shared.clone();
                let cfg = cfg.clone();
                bodies.push((
                    format!("task{t}"),
                    Box::new(move || {
                        let mut op = shared.lock().unwrap().0.ops[t].take().unwrap();
                        let mut wid = 1 + t as u32 * 100;
                        let mut w = HWaker::new(wid);
                        let mut polls = 0;
                        loop {
                            let wakes_before = w.wakes();
                            let tail_before = simk::with(|k| k.rings[0].sq_tail());
                            shared.lock().unwrap().0.events.push((t + 1, "task-poll-begin".into(), crate::waker::tick()));
                            let seen = {
                                let mut cx = Context::from_waker(&w.waker);
                                op.poll(&mut cx)
                            };
                            let submitted = simk::with(|k| k.rings[0].sq_tail()) != tail_before;
                            polls += 1;
                            shared.lock().unwrap().0.events.push((t + 1, format!("task-poll-end:{}:{}", if seen == Seen::Pending { "pending" } else { "ready" }, if submitted { "submitted" } else { "nosubmit" }), crate::waker::tick()));
                            shared.lock().unwrap().0.results[t].push(seen.clone());
                            if seen != Seen::Pending {
                                break;
                            }
                            if cfg.repoll_fresh && polls == 1 {
                                wid += 1;
                                w = HWaker::new(wid);
                                continue;
                            }
                            let w2 = w.clone();
                            let woken = schx::block_until(Box::new(move || w2.wakes() > wakes_before), false, "waiting for its waker");
                            if !woken {
                                shared.lock().unwrap().0.stuck[t] = Some(format!("task {t} never woken after poll #{polls}"));
                                break;
                            }
                            if polls > 8 {
                                break;
                            }
                        }
                        let mut g = shared.lock().unwrap();
                        g.0.done[t] = true;
                        g.0.ops[t] = Some(op);
                    }),
                ));
            }
            {
                let shared = shared.clone();
                let max_polls = cfg.max_polls;
                let poll_timeout = if cfg.poll_none { None } else { Some(Duration::from_secs(1)) };
                bodies.push((
                    "ring".into(),
                    Box::new(move || {
                        let mut ring = shared.lock().unwrap().0.ring.take().unwrap();
                        for _ in 0..max_polls {
                            if shared.lock().unwrap().0.done.iter().all(|d| *d) {
                                break;
                            }
                            // A call that finds completions ready hands those over and does not enter the kernel.
                            let (ready, room0) = simk::with(|k| (k.rings[0].cq_ready() != 0 || !k.rings[0].overflow.is_empty(), k.rings[0].sq_pending() < k.rings[0].sq_entries));
                            shared.lock().unwrap().0.events.push((0, format!("ring-poll-begin{}{}", if room0 { ":room0" } else { "" }, if ready { ":ready" } else { "" }), crate::waker::tick()));
                            talloc::track(|| {
                                let _ = ring.poll(poll_timeout);
                            });
                            let (room, head) = simk::with(|k| (k.rings[0].sq_pending() < k.rings[0].sq_entries, k.rings[0].cq_head()));
                            shared.lock().unwrap().0.events.push((0, format!("ring-poll-end:{}:{head}", if room { "room" } else { "full" }), crate::waker::tick()));
                        }
                        shared.lock().unwrap().0.ring = Some(ring);
                    }),
                ));
            }
            // The kernel completes requests of the tasks' operations (oldest first), any time.
            let mut actors = vec![Actor {
                name: "completer".into(),
                enabled: Box::new(|| simk::with(|k| k.reqs.iter().any(|r| !r.done && r.opcode != OP_WRITE))),
                step: Box::new(|| {
                    simk::with(|k| {
                        if let Some(s) = k.reqs.iter().find(|r| !r.done && r.opcode != OP_WRITE).map(|r| r.serial) {
                            // (A zero-copy send completes twice: the result, then the notification.)
                            let out = if k.req(s).awaiting_notif { Out::Notif } else { Out::Default };
                            k.complete(s, out);
                        }
                    })
                }),
            }];
            if cfg.sqpoll {
                simk::with(|k| k.sqpoll_manual = true);
                actors.push(Actor {
                    name: "sq-thread".into(),
                    enabled: Box::new(|| simk::with(|k| k.ring0_open() && k.rings[0].sq_pending() > 0 && !k.rings[0].sq_thread_idle)),
                    step: Box::new(|| {
                        simk::with(|k| {
                            k.consume(0, 1);
                        })
                    }),
                });
            }
            let sq2 = Sendable(sq);
            let prefill = Sendable(prefill_ops);
            let judge = Box::new(move |exec: &Exec| -> Vec<Violation> {
                let (sq, prefill) = (sq2, prefill);
                let mut v = sim_violations("C03");
                let mut g = shared.lock().unwrap();
                let s = &mut g.0;
                // A Ring::poll(None) that sits in the kernel for ever while a task waits for a submission
                // slot that is free: nothing else ever completes here (the queued writes never do).
                if cfg.poll_none {
                    for d in &exec.deadlocks {
                        if !(d.contains("io_uring_enter") && d.contains("waiting for its waker")) {
                            continue;
                        }
                        for t in 0..s.stuck.len() {
                            let submitted_ever = s.events.iter().any(|(th, e, _)| *th == t + 1 && e.starts_with("task-poll-end") && e.ends_with(":submitted"));
                            let room = simk::with(|k| k.rings[0].sq_pending() < k.rings[0].sq_entries);
                            if s.stuck[t].is_some() && !submitted_ever && find_user_data(cfg.kind, t).is_none() && room {
                                v.push(Violation::new("C03", "lost-wakeup/queue-space/poll-blocks", &format!("task {t} waits for a submission slot, the queue has room, and the ring thread's Ring::poll(None) waits in the kernel for a completion that never comes ({d}); events {:?}", s.events)));
                            }
                        }
                    }
                }
                for t in 0..s.stuck.len() {
                    let Some(msg) = &s.stuck[t] else { continue };
                    // The last poll of the task.
                    let last_end = s.events.iter().rev().find(|(th, e, _)| *th == t + 1 && e.starts_with("task-poll-end")).cloned().unwrap();
                    let last_begin = s.events.iter().rev().find(|(th, e, _)| *th == t + 1 && e == "task-poll-begin").cloned().unwrap();
                    // Did this task ever get its submission in? (Other tasks' requests say nothing about it.)
                    let submitted_ever = s.events.iter().any(|(th, e, _)| *th == t + 1 && e.starts_with("task-poll-end") && e.ends_with(":submitted"));
                    let my_ud = find_user_data(cfg.kind, t);
                    let blocked_for_slot = last_end.1.ends_with("nosubmit") && !submitted_ever && my_ud.is_none();
                    // Complete Ring::poll calls that began after the task's last
                    // poll began (completion case: the operation's lock orders
                    // them) or returned (queue-full case: "a subsequent call").
                    let after = if blocked_for_slot { last_end.2 } else { last_begin.2 };
                    let mut begun: Option<(u64, bool, bool)> = None;
                    let mut complete_polls_after = Vec::new();
                    for (th, e, c) in &s.events {
                        if *th != 0 {
                            continue;
                        }
                        if e.starts_with("ring-poll-begin") {
                            begun = Some((*c, e.ends_with(":ready"), e.contains(":room0")));
                        } else if e.starts_with("ring-poll-end") {
                            if let Some((b, ready, room0)) = begun.take() {
                                // Freed queue space is demanded only of calls that go into the kernel (§11.1b):
                                // one that starts with completions ready is followed by one that does. With a
                                // kernel thread room can also appear while a call is already past its wake-up
                                // step: there the demand is made of calls that start with room.
                                if b > after && !(blocked_for_slot && ready) && !(blocked_for_slot && cfg.sqpoll && !room0) {
                                    complete_polls_after.push(e.clone());
                                }
                            }
                        }
                    }
                    if blocked_for_slot {
                        // Queue-full case: a complete Ring::poll that returned with room must have woken it.
                        // With several waiters the freed slots are rationed: a slot that went to another
                        // waiter (who has filled it again) is not owed to this one. The demand stands when,
                        // at the end, there is room and this task still waits.
                        let room_now = simk::with(|k| k.rings[0].sq_pending() < k.rings[0].sq_entries);
                        if complete_polls_after.iter().any(|e| e.contains(":room:")) && (room_now || cfg.tasks == 1) {
                            v.push(Violation::new("C03", "lost-wakeup/queue-space", &format!("{msg}: it waits for a submission slot, a later Ring::poll call ran to completion and returned with room in the queue, but the waker was never invoked; events {:?}", s.events)));
                        }
                    } else {
                        // Completion case: was the readying completion consumed by a complete Ring::poll after the last poll began?
                        let consumed = simk::with(|k| {
                            let head = k.rings[0].cq_head();
                            k.written
                                .iter()
                                // (Only the completion that makes the operation ready counts: for a zero-copy
                                // send that is the notification, not the result that carries F_MORE.)
                                .filter(|w| Some(w.cqe.user_data) == my_ud && w.cqe.flags & CQE_F_MORE == 0 && w.serial.is_some_and(|s| k.req(s).opcode != OP_WRITE))
                                .any(|w| head.wrapping_sub(w.pos).wrapping_sub(1) < (1 << 31))
                        });
                        if consumed && !complete_polls_after.is_empty() {
                            v.push(Violation::new("C03", "lost-wakeup/completion", &format!("{msg}: its completion was consumed by a Ring::poll call that ran after the poll that returned Pending, but the waker given to that poll was never invoked")));
                        }
                    }
                }
                // Results must be the op's own value when it resolved.
                if !v.is_empty() {
                    std::mem::forget(s.ring.take());
                    std::mem::forget(std::mem::take(&mut s.ops));
                    std::mem::forget(prefill);
                    simk::shutdown();
                    talloc::disarm();
                    return v;
                }
                let ring = s.ring.take();
                talloc::track(|| {
                    s.ops.clear();
                    drop(prefill);
                    drop(unsafe { Box::from_raw(std::ptr::from_ref(fd).cast_mut()) });
                    drop(ring);
                    drop(sq);
                });
                simk::shutdown();
                talloc::disarm();
                v
            });
            ThSetup { bodies, actors, judge }
        }),
    }
}

// --------------------------------------------------------------------- C08

pub struct C08Cfg {
    pub pool: u16,
    pub buf_size: u32,
    /// Number of ReadBufs handed out and then dropped, one per thread.
    pub releasers: usize,
    /// The pool has already performed this many releases.
    pub shift: u16,
    /// A further thread polls the ring while the kernel keeps selecting buffers
    /// for a multishot read.
    pub reader: bool,
}

pub fn c08_threads(cfg: C08Cfg, bound: u32) -> ThHarness {
    let name = format!("threads-pool{}x{}-{}releasers-shift{}{}", cfg.pool, cfg.buf_size, cfg.releasers, cfg.shift, if cfg.reader { "-reader" } else { "" });
    let describe = json!({"engine": "schx", "pool": cfg.pool, "buf_size": cfg.buf_size, "releasing_threads": cfg.releasers, "tail_shift": cfg.shift, "concurrent_reader": cfg.reader, "preemption_bound": bound});
    let cfg = Arc::new(cfg);
    ThHarness {
        name,
        bound,
        free_bound: 0,
        cap_s: 0,
        describe,
        mk: Box::new(move || {
            let cfg = cfg.clone();
            simk::reset(simk::SetupPlan::default());
            talloc::set_on_free(Some(simk::on_free));
            let (mut ring, sq, fd, pool) = talloc::track(|| {
                let ring = Ring::config().with_submission_queue_size(4).build().expect("ring");
                let sq = ring.sq();
                let raw = simk::with(|k| k.new_regular_pub());
                let fd: &'static AsyncFd = Box::leak(Box::new(unsafe { AsyncFd::from_raw_fd(raw, sq.clone()) }));
                let pool = a10::io::ReadBufPool::new(sq.clone(), cfg.pool, cfg.buf_size).expect("pool");
                (ring, sq, fd, pool)
            });
            // Buffer addresses by id.
            let bufs: Vec<(usize, u32)> = simk::with(|k| {
                let pb = &k.rings[0].pbufs[0];
                let mut v = vec![(0usize, 0u32); pb.entries as usize];
                for i in 0..pb.entries as usize {
                    let e = unsafe { std::ptr::read_volatile((pb.addr + i * 16) as *const BufRingEntry) };
                    v[e.bid as usize] = (e.addr as usize, e.len);
                }
                v
            });
            if cfg.shift != 0 {
                simk::with(|k| {
                    let pb = &mut k.rings[0].pbufs[0];
                    let tail = unsafe { &*((pb.addr + 14) as *const std::sync::atomic::AtomicU16) };
                    tail.fetch_add(cfg.shift, std::sync::atomic::Ordering::SeqCst);
                    pb.head = pb.head.wrapping_add(cfg.shift);
                });
            }
            // Obtain the ReadBufs through a multishot read.
            let env = ops::Env { sq: &sq, fd, pool: Some(&pool), nth: 0 };
            let mut op = ops::make(Kind::MultishotRead, &env);
            let w = HWaker::new(1);
            {
                let mut cx = Context::from_waker(&w.waker);
                assert_eq!(op.poll(&mut cx), Seen::Pending);
            }
            talloc::track(|| ring.poll(Some(Duration::ZERO)).unwrap());
            let serial = simk::with(|k| k.inflight()[0]);
            for _ in 0..cfg.releasers {
                simk::with(|k| k.complete(serial, Out::More(i32::MIN)));
            }
            talloc::track(|| ring.poll(Some(Duration::ZERO)).unwrap());
            let mut handed = Vec::new();
            for _ in 0..cfg.releasers {
                let mut cx = Context::from_waker(&w.waker);
                match op.poll(&mut cx) {
                    Seen::Ready(_) => {}
                    other => panic!("expected a buffer, got {other:?}"),
                }
            }
            {
                let mut b = op.bufs.borrow_mut();
                while let Some(buf) = b.pop() {
                    handed.push(Sendable(buf));
                }
            }
            let tail0 = simk::with(|k| unsafe { &*((k.rings[0].pbufs[0].addr + 14) as *const std::sync::atomic::AtomicU16) }.load(std::sync::atomic::Ordering::SeqCst));
            let ring_slot: Arc<Mutex<Option<Sendable<Ring>>>> = Arc::new(Mutex::new(Some(Sendable(ring))));
            let mut bodies: Vec<(String, Body)> = Vec::new();
            // Which buffer ids are (still) owned by a ReadBuf whose release has not begun.
            let owned: Arc<Mutex<Vec<u16>>> = Arc::new(Mutex::new(Vec::new()));
            for (t, buf) in handed.into_iter().enumerate() {
                let addr = buf.0.as_ptr() as usize;
                // (A ReadBuf that is not inside any of the pool's buffers is reported by the judge below.)
                let bid = bufs.iter().position(|(a, l)| addr >= *a && addr < *a + *l as usize).map_or(u16::MAX, |b| b as u16);
                if bid == u16::MAX {
                    simk::with(|k| k.violation("readbuf-outside-pool", format!("a ReadBuf the multishot read handed out points at {addr:#x}, which is inside none of the pool's buffers {bufs:x?}")));
                }
                owned.lock().unwrap().push(bid);
                let owned = owned.clone();
                bodies.push((
                    format!("releaser{t}"),
                    Box::new(move || {
                        owned.lock().unwrap().retain(|b| *b != bid);
                        talloc::track(|| drop(buf));
                    }),
                ));
            }
            let mut actors = Vec::new();
            if cfg.reader {
                let ring_slot = ring_slot.clone();
                bodies.push((
                    "ring".into(),
                    Box::new(move || {
                        let mut ring = ring_slot.lock().unwrap().take().unwrap();
                        for _ in 0..2 {
                            talloc::track(|| {
                                let _ = ring.0.poll(Some(Duration::ZERO));
                            });
                        }
                        *ring_slot.lock().unwrap() = Some(ring);
                    }),
                ));
                // The kernel selects another buffer whenever one is available (at most twice).
                let budget = Arc::new(Mutex::new(3u32));
                let b2 = budget.clone();
                actors.push(Actor {
                    name: "kernel-selects-buffer".into(),
                    enabled: Box::new(move || {
                        *b2.lock().unwrap() > 0
                            && simk::with(|k| {
                                let pb = &k.rings[0].pbufs[0];
                                let tail = unsafe { &*((pb.addr + 14) as *const std::sync::atomic::AtomicU16) }.load(std::sync::atomic::Ordering::SeqCst);
                                tail != pb.head
                            })
                    }),
                    step: Box::new(move || {
                        *budget.lock().unwrap() -= 1;
                        let owned_now = owned.lock().unwrap().clone();
                        simk::with(|k| {
                            if let Some(s) = k.inflight().first().copied() {
                                k.complete(s, Out::More(i32::MIN));
                                // The buffer the kernel took must not be one a ReadBuf still owns.
                                if let Some(o) = k.req(s).outs.last().cloned() {
                                    if o.flags & CQE_F_BUFFER != 0 {
                                        let bid = (o.flags >> CQE_BUFFER_SHIFT) as u16;
                                        if owned_now.contains(&bid) {
                                            k.violation("owned-twice", format!("the kernel selected buffer {bid} from the buffer ring while a ReadBuf that has not been released still owns it (ReadBufs not yet released own {owned_now:?})"));
                                        }
                                    }
                                }
                            }
                        })
                    }),
                });
            }
            let releasers = cfg.releasers;
            let op = Sendable(op);
            let sq = Sendable(sq);
            let pool = Sendable(pool);
            let judge = Box::new(move |_exec: &Exec| -> Vec<Violation> {
                let (op, sq, pool) = (op, sq, pool);
                let mut v = sim_violations("C08");
                // Buffers the kernel selected during the run and that are still
                // in completions / owned by the stream.
                let selected_during: Vec<u16> = simk::with(|k| {
                    k.reqs.iter().flat_map(|r| r.outs.iter().skip(if r.opcode == OP_READ_MULTISHOT { releasers } else { 0 }).filter(|o| o.flags & CQE_F_BUFFER != 0).map(|o| (o.flags >> CQE_BUFFER_SHIFT) as u16).collect::<Vec<_>>()).collect()
                });
                let (offered, tail, bad): (Vec<u16>, u16, Vec<String>) = simk::with(|k| {
                    let pb = &k.rings[0].pbufs[0];
                    let tail = unsafe { &*((pb.addr + 14) as *const std::sync::atomic::AtomicU16) }.load(std::sync::atomic::Ordering::SeqCst);
                    let mut o = Vec::new();
                    let mut bad = Vec::new();
                    let mut h = pb.head;
                    let mut guard = 0;
                    while h != tail && guard < 70000 {
                        let idx = (h as u32 & (pb.entries - 1)) as usize;
                        let e = unsafe { std::ptr::read_volatile((pb.addr + idx * 16) as *const BufRingEntry) };
                        o.push(e.bid);
                        match bufs.get(e.bid as usize) {
                            Some((a, l)) if *a == e.addr as usize && *l == e.len => {}
                            _ => bad.push(format!("entry {idx}: addr={:#x} len={} bid={}", e.addr, e.len, e.bid)),
                        }
                        h = h.wrapping_add(1);
                        guard += 1;
                    }
                    (o, tail, bad)
                });
                for b in bad {
                    v.push(Violation::new("C08", "bad-ring-entry", &format!("buffer ring entry does not describe its buffer: {b}")));
                }
                if tail != tail0.wrapping_add(releasers as u16) {
                    v.push(Violation::new("C08", "tail-mismatch", &format!("{releasers} buffers were released but the ring tail moved from {tail0} to {tail}")));
                }
                let mut all: Vec<u16> = offered.iter().copied().chain(selected_during.iter().copied()).collect();
                all.sort();
                let want: Vec<u16> = (0..bufs.len() as u16).collect();
                if all != want {
                    let mut d = all.clone();
                    d.dedup();
                    let sig = if d.len() != all.len() { "offered-twice" } else { "buffer-lost" };
                    let shown: Vec<u16> = offered.iter().copied().take(16).collect();
                    v.push(Violation::new("C08", sig, &format!("after {releasers} concurrent releases the kernel is offered {} buffers {shown:?}{} and has selected {selected_during:?}; every buffer of {want:?} must appear exactly once", offered.len(), if offered.len() > 16 { " .." } else { "" })));
                }
                if !v.is_empty() {
                    std::mem::forget(op);
                    std::mem::forget(pool);
                    std::mem::forget(ring_slot.lock().unwrap().take());
                    simk::shutdown();
                    talloc::disarm();
                    return v;
                }
                let ring = ring_slot.lock().unwrap().take();
                talloc::track(|| {
                    drop(op);
                    drop(pool);
                    drop(unsafe { Box::from_raw(std::ptr::from_ref(fd).cast_mut()) });
                    drop(ring);
                    drop(sq);
                });
                simk::shutdown();
                talloc::disarm();
                v
            });
            ThSetup { bodies, actors, judge }
        }),
    }
}

// ------------------------------------------------- generic threaded operations

/// What the kernel does for one task's operation, in order.
#[derive(Clone, Copy, Debug, PartialEq, Eq)]
pub enum Step {
    Ok,
    More,
    FinalZero,
    Notif,
    Eintr,
}

pub struct ThOpsCfg {
    pub prop: &'static str,
    pub sq: u32,
    pub cq: Option<u32>,
    pub c0_cq: u32,
    /// One task (thread) per entry: operation kind, the kernel's script for it,
    /// and after how many polls the task drops its operation (None: runs to the end).
    pub tasks: Vec<(Kind, Vec<Step>, Option<usize>)>,
    /// Keep a canary operation in flight; the scribbler actor overwrites free
    /// completion slots with its user_data.
    pub canary: bool,
    pub ring_polls: usize,
    pub pool: (u16, u32),
    /// The ring thread drops the Ring after its polls, while the tasks still run.
    pub ring_drops: bool,
}

struct ThOpsShared {
    ring: Option<Ring>,
    ops: Vec<Option<Op>>,
    seen: Vec<Vec<Seen>>,
    stuck: Vec<Option<String>>,
    done: Vec<bool>,
    events: Vec<(usize, String, u64)>,
}

/// The user_data of the submission task `nth` of kind `kind` made: found by the
/// shape the catalogue gives that operation (opcode and length are distinct per task).
fn find_user_data(kind: Kind, nth: usize) -> Option<u64> {
    let (opcode, len): (u8, Option<u32>) = match kind {
        Kind::ReadVec => (OP_READ, Some(8 + nth as u32)),
        Kind::WriteVec => (OP_WRITE, Some(5 + nth as u32)),
        Kind::SendZc => (OP_SEND_ZC, Some(4 + nth as u32)),
        Kind::Send => (OP_SEND, Some(4 + nth as u32)),
        Kind::MultishotRead => (OP_READ_MULTISHOT, None),
        Kind::MultishotRecv => (OP_RECV, None),
        Kind::MultishotAccept => (OP_ACCEPT, None),
        Kind::Recv => (OP_RECV, Some(7 + nth as u32)),
        _ => return None,
    };
    simk::with(|k| {
        let matches = |s: &Sqe| s.opcode() == opcode && len.is_none_or(|l| s.len() == l) && s.user_data() > 3;
        if let Some(r) = k.reqs.iter().find(|r| matches(&r.sqe)) {
            return Some(r.user_data);
        }
        let r = &k.rings[0];
        let (h, t) = (r.sq_head(), r.sq_tail());
        for i in 0..t.wrapping_sub(h).min(r.sq_entries) {
            let s = unsafe { *r.sqe_slot(h.wrapping_add(i)) };
            if matches(&s) {
                return Some(s.user_data());
            }
        }
        None
    })
}

pub fn thops(cfg: ThOpsCfg, bound: u32) -> ThHarness {
    let name = format!(
        "threads-{}-sq{}-cq{:?}@{:#x}{}",
        cfg.tasks.iter().map(|(k, s, d)| format!("{k:?}{}{}", s.len(), d.map_or(String::new(), |d| format!("drop{d}")))).collect::<Vec<_>>().join("+"),
        cfg.sq,
        cfg.cq,
        cfg.c0_cq,
        if cfg.canary { "-canary" } else { "" }
    );
    let describe = json!({"engine": "schx", "tasks": cfg.tasks.iter().map(|(k, s, d)| format!("{k:?} script {s:?} drop_after {d:?}")).collect::<Vec<_>>(), "sq": cfg.sq, "cq": cfg.cq, "c0_cq": cfg.c0_cq, "canary_scribbling": cfg.canary, "ring_thread_polls": cfg.ring_polls, "ring_thread_drops_the_ring": cfg.ring_drops, "preemption_bound": bound});
    let name = if cfg.ring_drops { format!("{name}-ringdrop") } else { name };
    let cfg = Arc::new(cfg);
    ThHarness {
        name,
        bound,
        free_bound: 0,
        cap_s: 0,
        describe,
        mk: Box::new(move || {
            let cfg = cfg.clone();
            let prop = cfg.prop;
            simk::reset(simk::SetupPlan { c0_cq: cfg.c0_cq, ..Default::default() });
            if cfg.ring_drops {
                // A notification still outstanding when the Ring goes away can never be reclaimed by a10.
                simk::with(|k| k.zc_cancel_notif_immediate = true);
            }
            talloc::set_on_free(Some(simk::on_free));
            let need_pool = cfg.tasks.iter().any(|(k, _, _)| k.needs_pool());
            let (mut ring, sq, fd, pool) = talloc::track(|| {
                let mut c = Ring::config().with_submission_queue_size(cfg.sq);
                if let Some(cq) = cfg.cq {
                    c = c.with_completion_queue_size(cq);
                }
                let ring = c.build().expect("ring");
                let sq = ring.sq();
                let raw = simk::with(|k| k.new_regular_pub());
                let fd: &'static AsyncFd = Box::leak(Box::new(unsafe { AsyncFd::from_raw_fd(raw, sq.clone()) }));
                let pool = if need_pool { Some(a10::io::ReadBufPool::new(sq.clone(), cfg.pool.0, cfg.pool.1).expect("pool")) } else { None };
                (ring, sq, fd, pool)
            });
            // Canary: submitted and taken by the kernel before the threads start.
            let mut canary: Option<(Op, HWaker, u64)> = None;
            if cfg.canary {
                let env = ops::Env { sq: &sq, fd, pool: None, nth: 99 };
                let mut op = ops::make(Kind::ReadVec, &env);
                let w = HWaker::new(999);
                let tail = simk::with(|k| k.rings[0].sq_tail());
                {
                    let mut cx = Context::from_waker(&w.waker);
                    assert_eq!(op.poll(&mut cx), Seen::Pending);
                }
                let ud = simk::with(|k| unsafe { (*k.rings[0].sqe_slot(tail)).user_data() });
                talloc::track(|| ring.poll(Some(Duration::ZERO)).unwrap());
                canary = Some((op, w, ud));
            }
            let canary_ud = canary.as_ref().map(|c| c.2);
            let mut ops_v = Vec::new();
            for (n, (kind, _, _)) in cfg.tasks.iter().enumerate() {
                let env = ops::Env { sq: &sq, fd, pool: pool.as_ref(), nth: n };
                ops_v.push(Some(ops::make(*kind, &env)));
            }
            let nt = cfg.tasks.len();
            let shared = Arc::new(Mutex::new(Sendable(ThOpsShared { ring: Some(ring), ops: ops_v, seen: vec![Vec::new(); nt], stuck: vec![None; nt], done: vec![false; nt], events: Vec::new() })));
            // user_data of each task's operation, learned when it first submits.
            let uds: Arc<Mutex<Vec<Option<u64>>>> = Arc::new(Mutex::new(vec![None; nt]));
            let mut bodies: Vec<(String, Body)> = Vec::new();
            for t in 0..nt {
                let shared = shared.clone();
                let uds = uds.clone();
                let drop_after = cfg.tasks[t].2;
                let kind_of_task = cfg.tasks[t].0;
                bodies.push((
                    format!("task{t}"),
                    Box::new(move || {
                        let mut op_slot = shared.lock().unwrap().0.ops[t].take();
                        let w = HWaker::new(1 + t as u32 * 100);
                        let mut polls = 0;
                        let mut dropped = false;
                        loop {
                            let op = op_slot.as_mut().unwrap();
                            let wakes_before = w.wakes();
                            let tail_before = simk::with(|k| k.rings[0].sq_tail());
                            shared.lock().unwrap().0.events.push((t + 1, "task-poll-begin".into(), crate::waker::tick()));
                            let seen = {
                                let mut cx = Context::from_waker(&w.waker);
                                op.poll(&mut cx)
                            };
                            let _ = tail_before;
                            if uds.lock().unwrap()[t].is_none() {
                                // Other threads submit concurrently: find this task's submission by its shape.
                                if let Some(ud) = find_user_data(kind_of_task, t) {
                                    uds.lock().unwrap()[t] = Some(ud);
                                }
                            }
                            polls += 1;
                            shared.lock().unwrap().0.events.push((t + 1, format!("task-poll-end:{}", if seen == Seen::Pending { "pending" } else { "ready" }), crate::waker::tick()));
                            shared.lock().unwrap().0.seen[t].push(seen.clone());
                            let finished = match (&seen, op.stream) {
                                (Seen::End, _) => true,
                                (Seen::Ready(_), false) => true,
                                _ => false,
                            };
                            if finished {
                                break;
                            }
                            if drop_after == Some(polls) {
                                let o = op_slot.take();
                                talloc::track(|| drop(o));
                                dropped = true;
                                break;
                            }
                            if seen == Seen::Pending {
                                let w2 = w.clone();
                                let woken = schx::block_until(Box::new(move || w2.wakes() > wakes_before), false, "waiting for its waker");
                                if !woken {
                                    shared.lock().unwrap().0.stuck[t] = Some(format!("task {t} never woken after poll #{polls}"));
                                    break;
                                }
                            }
                            if polls > 12 {
                                break;
                            }
                        }
                        let mut g = shared.lock().unwrap();
                        g.0.done[t] = true;
                        if !dropped {
                            g.0.ops[t] = op_slot;
                        }
                    }),
                ));
            }
            {
                let shared = shared.clone();
                let max_polls = cfg.ring_polls;
                let ring_drops = cfg.ring_drops;
                bodies.push((
                    "ring".into(),
                    Box::new(move || {
                        let mut ring = shared.lock().unwrap().0.ring.take().unwrap();
                        for _ in 0..max_polls {
                            if shared.lock().unwrap().0.done.iter().all(|d| *d) {
                                break;
                            }
                            shared.lock().unwrap().0.events.push((0, "ring-poll-begin".into(), crate::waker::tick()));
                            talloc::track(|| {
                                let _ = ring.poll(Some(Duration::from_secs(1)));
                            });
                            let head = simk::with(|k| k.rings[0].cq_head());
                            shared.lock().unwrap().0.events.push((0, format!("ring-poll-end:{head}"), crate::waker::tick()));
                        }
                        if ring_drops {
                            shared.lock().unwrap().0.events.push((0, "ring-drop-begin".into(), crate::waker::tick()));
                            talloc::track(|| drop(ring));
                            shared.lock().unwrap().0.events.push((0, "ring-dropped".into(), crate::waker::tick()));
                        } else {
                            shared.lock().unwrap().0.ring = Some(ring);
                        }
                    }),
                ));
            }
            // Kernel actors: per task, play its script on the request in flight for it.
            let mut actors = Vec::new();
            let progress: Arc<Mutex<Vec<usize>>> = Arc::new(Mutex::new(vec![0; nt]));
            let last_kernel_step_all = Arc::new(std::sync::atomic::AtomicU64::new(0));
            for t in 0..nt {
                let last_kernel_step = last_kernel_step_all.clone();
                let script = cfg.tasks[t].1.clone();
                let (uds1, uds2) = (uds.clone(), uds.clone());
                let (p1, p2) = (progress.clone(), progress.clone());
                let s1 = script.clone();
                actors.push(Actor {
                    name: format!("kernel-completes-task{t}"),
                    enabled: Box::new(move || {
                        let i = p1.lock().unwrap()[t];
                        if i >= s1.len() {
                            return false;
                        }
                        let Some(ud) = uds1.lock().unwrap()[t] else { return false };
                        simk::with(|k| k.inflight_by_ud(ud).is_some_and(|s| (s1[i] == Step::Notif) == k.req(s).awaiting_notif))
                    }),
                    step: Box::new(move || {
                        let i = p2.lock().unwrap()[t];
                        let Some(ud) = uds2.lock().unwrap()[t] else { return };
                        simk::with(|k| {
                            if let Some(s) = k.inflight_by_ud(ud) {
                                let out = match script[i] {
                                    Step::Ok => Out::Default,
                                    Step::More => Out::More(i32::MIN),
                                    Step::FinalZero => Out::ZeroNoBuf,
                                    Step::Notif => Out::Notif,
                                    Step::Eintr => Out::Res(-libc::EINTR),
                                };
                                k.complete(s, out);
                            }
                        });
                        p2.lock().unwrap()[t] += 1;
                        last_kernel_step.store(crate::waker::tick(), std::sync::atomic::Ordering::SeqCst);
                    }),
                });
            }
            if let Some(ud) = canary_ud {
                let budget = Arc::new(Mutex::new(3u32));
                let b2 = budget.clone();
                actors.push(Actor {
                    name: "kernel-scribbles-free-cq-slots".into(),
                    enabled: Box::new(move || *b2.lock().unwrap() > 0),
                    step: Box::new(move || {
                        *budget.lock().unwrap() -= 1;
                        simk::with(|k| {
                            let r = &k.rings[0];
                            let head = r.cq_head();
                            let tail = r.cq_tail();
                            let n = r.cq_entries;
                            let used = tail.wrapping_sub(head).min(n);
                            for i in used..n {
                                let pos = head.wrapping_add(i);
                                unsafe { std::ptr::write_volatile(r.cqe_slot(pos), Cqe { user_data: ud, res: 3, flags: 0 }) };
                            }
                        })
                    }),
                });
            }
            let (sq2, pool2, canary2) = (Sendable(sq), Sendable(pool), Sendable(canary));
            let cfgj = cfg.clone();
            let judge = Box::new(move |_exec: &Exec| -> Vec<Violation> {
                let (sq, pool, mut canary) = (sq2, pool2, canary2);
                let mut v = sim_violations(prop);
                let mut g = shared.lock().unwrap();
                let s = &mut g.0;
                if cfgj.ring_drops {
                    // The Ring is gone. Judged: memory safety (simulated kernel's footprints, double frees),
                    // that nobody observed anything the kernel did not post for it, and -- when no task
                    // polled after the Ring was dropped -- that everything is reclaimed.
                    let dropped_at = s.events.iter().find(|(_, e, _)| e == "ring-drop-begin").map(|e| e.2).unwrap_or(0);
                    // (A poll that was still running when the Ring went away counts: it may submit afterwards.)
                    let polled_after = s.events.iter().any(|(th, e, c)| *th != 0 && e.starts_with("task-poll-end") && *c > dropped_at);
                    for t in 0..nt {
                        if cfgj.tasks[t].2.is_some() {
                            continue;
                        }
                        let Some(ud) = uds.lock().unwrap()[t] else { continue };
                        let kind = cfgj.tasks[t].0;
                        let outs: Vec<simk::OutRec> = simk::with(|k| k.reqs_by_ud(ud).into_iter().flat_map(|ser| k.req(ser).outs.clone()).collect());
                        let rendered: Vec<String> = outs.iter().filter(|o| o.res >= 0 || (o.res != -libc::EINTR && o.res != -libc::ECANCELED)).map(|o| crate::opsworld::OpsWorld::render(kind, t, o)).collect();
                        for g in s.seen[t].iter() {
                            if let Seen::Ready(val) = g {
                                if !rendered.contains(val) {
                                    v.push(Violation::new(prop, &format!("wrong-result/{kind:?}/threads"), &format!("task {t} ({kind:?}) observed {val}, the kernel posted for it only {rendered:?}")));
                                }
                            }
                        }
                    }
                    if !v.is_empty() {
                        std::mem::forget(std::mem::take(&mut s.ops));
                        std::mem::forget(canary);
                        std::mem::forget(pool);
                        simk::shutdown();
                        talloc::disarm();
                        return v;
                    }
                    talloc::track(|| {
                        for o in s.ops.iter_mut() {
                            if let Some(op) = o.as_mut() {
                                op.held.borrow_mut().clear();
                                op.bufs.borrow_mut().clear();
                            }
                        }
                        s.ops.clear();
                        drop(canary);
                        drop(pool);
                        drop(unsafe { Box::from_raw(std::ptr::from_ref(fd).cast_mut()) });
                        drop(sq);
                    });
                    v.extend(sim_violations(prop));
                    simk::shutdown();
                    let rep = talloc::disarm();
                    if rep.double_frees > 0 {
                        v.push(Violation::new("C06", "double-free", "operation state freed twice"));
                    }
                    // Completions the kernel posts after the Ring is gone are never seen by a10 either.
                    let kernel_after = last_kernel_step_all.load(std::sync::atomic::Ordering::SeqCst) > dropped_at;
                    if !rep.leaked.is_empty() && !polled_after && !kernel_after && v.is_empty() {
                        let total: usize = rep.leaked.iter().map(|b| b.size).sum();
                        v.push(Violation::new("C12", "leak/threads-ring-dropped", &format!("{} block(s), {total} bytes still allocated after the Ring (on its own thread) and then everything else was dropped; no task polled after the Ring was gone", rep.leaked.len())));
                    }
                    return v;
                }
                let mut ring = s.ring.take().unwrap();
                // Quiescence: the kernel finishes its scripts, everything is polled to the end.
                let mut bail = !v.is_empty();
                for _round in 0..8 {
                    if bail {
                        break;
                    }
                    talloc::track(|| {
                        let _ = ring.poll(Some(Duration::ZERO));
                    });
                    for t in 0..nt {
                        let Some(ud) = uds.lock().unwrap()[t] else { continue };
                        let i = progress.lock().unwrap()[t];
                        if i < cfgj.tasks[t].1.len() {
                            simk::with(|k| {
                                if let Some(ser) = k.inflight_by_ud(ud) {
                                    let out = match cfgj.tasks[t].1[i] {
                                        Step::Ok => Out::Default,
                                        Step::More => Out::More(i32::MIN),
                                        Step::FinalZero => Out::ZeroNoBuf,
                                        Step::Notif => Out::Notif,
                                        Step::Eintr => Out::Res(-libc::EINTR),
                                    };
                                    if (cfgj.tasks[t].1[i] == Step::Notif) == k.req(ser).awaiting_notif {
                                        k.complete(ser, out);
                                    }
                                }
                            });
                            if simk::with(|k| k.inflight_by_ud(ud).is_none() || true) {
                                progress.lock().unwrap()[t] = i + 1;
                            }
                        }
                    }
                    talloc::track(|| {
                        let _ = ring.poll(Some(Duration::ZERO));
                    });
                    v.extend(sim_violations(prop));
                    if !v.is_empty() {
                        bail = true;
                        break;
                    }
                    for t in 0..nt {
                        if let Some(op) = s.ops[t].as_mut() {
                            let last_final = s.seen[t].last().is_some_and(|x| matches!((x, op.stream), (Seen::End, _) | (Seen::Ready(_), false)));
                            if last_final {
                                continue;
                            }
                            let w = HWaker::new(500 + t as u32);
                            let mut cx = Context::from_waker(&w.waker);
                            let seen = op.poll(&mut cx);
                            if seen != Seen::Pending {
                                s.seen[t].push(seen);
                            }
                        }
                    }
                }
                // C03: stuck tasks.
                for t in 0..nt {
                    if let Some(msg) = &s.stuck[t] {
                        let last_begin = s.events.iter().rev().find(|(th, e, _)| *th == t + 1 && e == "task-poll-begin").map(|e| e.2).unwrap_or(0);
                        // Completion-queue head published by each complete Ring::poll of
                        // the ring thread that began after the task's last poll began.
                        let mut begun = None;
                        let mut heads: Vec<u32> = Vec::new();
                        for (th, e, c) in &s.events {
                            if *th == 0 && e == "ring-poll-begin" {
                                begun = Some(*c);
                            }
                            if *th == 0 && e.starts_with("ring-poll-end:") {
                                if begun.take().is_some_and(|b| b > last_begin) {
                                    heads.push(e["ring-poll-end:".len()..].parse().unwrap_or(0));
                                }
                            }
                        }
                        let later_poll = !heads.is_empty();
                        // Completions for the task that carry a result it still waits for
                        // (not yet observed) and were consumed by one of those polls.
                        let observed = s.seen[t].iter().filter(|x| **x != Seen::Pending).count();
                        let consumed = uds.lock().unwrap()[t].is_some_and(|ud| simk::with(|k| {
                            let stream = cfgj.tasks[t].0.is_stream();
                            let mine: Vec<&simk::Written> = k.written.iter().filter(|w| w.cqe.user_data == ud).collect();
                            mine.iter().enumerate().any(|(i, w)| {
                                let readying = if stream { i >= observed } else { w.cqe.flags & CQE_F_MORE == 0 };
                                readying && heads.iter().any(|h| h.wrapping_sub(w.pos).wrapping_sub(1) < (1 << 31))
                            })
                        }));
                        if consumed && later_poll {
                            v.push(Violation::new("C03", "lost-wakeup/completion", &format!("{msg}: a completion for it was consumed by a Ring::poll call that ran after its last poll, but its waker was never invoked; events {:?}", s.events)));
                        }
                    }
                }
                // C02 / C05: every task that ran to the end saw exactly its own results, in order.
                if !bail {
                    for t in 0..nt {
                        if cfgj.tasks[t].2.is_some() {
                            continue;
                        }
                        let Some(ud) = uds.lock().unwrap()[t] else { continue };
                        let kind = cfgj.tasks[t].0;
                        let outs: Vec<simk::OutRec> = simk::with(|k| k.reqs_by_ud(ud).into_iter().flat_map(|ser| k.req(ser).outs.clone()).collect());
                        // Expected user-visible sequence.
                        let mut want: Vec<Seen> = Vec::new();
                        if kind.is_stream() {
                            for o in &outs {
                                if o.flags & CQE_F_MORE != 0 || o.res != 0 || o.flags & CQE_F_BUFFER != 0 {
                                    if !(o.res == -libc::EINTR) {
                                        want.push(Seen::Ready(crate::opsworld::OpsWorld::render(kind, t, o)));
                                    }
                                } else {
                                    want.push(Seen::Ready(crate::opsworld::OpsWorld::render(kind, t, o)));
                                }
                            }
                            if outs.iter().any(|o| o.flags & CQE_F_MORE == 0) {
                                want.push(Seen::End);
                            }
                        } else if let Some(fin) = outs.iter().rev().find(|o| o.flags & CQE_F_NOTIF == 0 && o.res != -libc::EINTR) {
                            if outs.iter().any(|o| o.flags & CQE_F_MORE == 0 && o.res != -libc::EINTR) {
                                want.push(Seen::Ready(crate::opsworld::OpsWorld::render(kind, t, fin)));
                            }
                        }
                        let got: Vec<Seen> = s.seen[t].iter().filter(|x| **x != Seen::Pending).cloned().collect();
                        if got != want {
                            v.push(Violation::new(prop, &format!("wrong-result/{kind:?}/threads"), &format!("task {t} ({kind:?}) observed {got:?}, the kernel posted for it {want:?}")));
                        }
                    }
                    let (head, tail) = simk::with(|k| (k.rings[0].cq_head(), k.rings[0].cq_tail()));
                    if head != tail {
                        v.push(Violation::new("C05", "cq-not-drained", &format!("completions left unconsumed after Ring::poll: head={head:#x} tail={tail:#x}")));
                    }
                }
                if let Some((op, w, _)) = canary.0.as_mut() {
                    if !bail {
                        let mut cx = Context::from_waker(&w.waker);
                        let seen = op.poll(&mut cx);
                        if seen != Seen::Pending {
                            v.push(Violation::new("C05", "canary-resolved", &format!("an operation the kernel never completed resolved with {seen:?}")));
                        }
                    }
                }
                if !v.is_empty() {
                    std::mem::forget(ring);
                    std::mem::forget(std::mem::take(&mut s.ops));
                    std::mem::forget(canary);
                    std::mem::forget(pool);
                    simk::shutdown();
                    talloc::disarm();
                    return v;
                }
                // Drop everything; the kernel answers what is still outstanding.
                talloc::track(|| {
                    for o in s.ops.iter_mut() {
                        if let Some(op) = o.as_mut() {
                            op.held.borrow_mut().clear();
                            op.bufs.borrow_mut().clear();
                        }
                    }
                    s.ops.clear();
                    drop(canary);
                });
                for _ in 0..4 {
                    talloc::track(|| {
                        let _ = ring.poll(Some(Duration::ZERO));
                    });
                    for ser in simk::with(|k| k.inflight()) {
                        simk::with(|k| {
                            if k.req(ser).awaiting_notif {
                                k.complete(ser, Out::Notif)
                            } else if k.req(ser).multishot {
                                k.complete(ser, Out::ZeroNoBuf)
                            } else if !k.req(ser).done {
                                k.complete(ser, Out::Res(-libc::ECANCELED))
                            }
                        });
                    }
                }
                talloc::track(|| {
                    let _ = ring.poll(Some(Duration::ZERO));
                    drop(pool);
                    drop(unsafe { Box::from_raw(std::ptr::from_ref(fd).cast_mut()) });
                    let _ = ring.poll(Some(Duration::ZERO));
                    drop(ring);
                    drop(sq);
                });
                v.extend(sim_violations(prop));
                simk::shutdown();
                let rep = talloc::disarm();
                if rep.double_frees > 0 {
                    v.push(Violation::new("C06", "double-free", "operation state freed twice"));
                }
                if !rep.leaked.is_empty() {
                    let total: usize = rep.leaked.iter().map(|b| b.size).sum();
                    // Pool buffers / descriptors delivered to abandoned operations are known (C07/C08); memory must still be reclaimed.
                    if std::env::var_os("A10MC_DUMP").is_some() {
                        for b in &rep.leaked {
                            let bytes = unsafe { std::slice::from_raw_parts(b.addr as *const u8, b.size.min(48)) };
                            eprintln!("leaked: #{} {} bytes at {:#x}: {:02x?}", b.serial, b.size, b.addr, bytes);
                        }
                    }
                    v.push(Violation::new("C06", "leak/threads", &format!("{} block(s), {total} bytes still allocated after everything was dropped", rep.leaked.len())));
                }
                v
            });
            ThSetup { bodies, actors, judge }
        }),
    }
}

// --------------------------------------------------------------------- C12 (threads)

/// What a thread other than the one dropping the Ring does, concurrently with that drop.
#[derive(Clone, Copy, Debug, PartialEq, Eq)]
pub enum C12Act {
    /// Drop the regular AsyncFd.
    DropFd,
    /// Drop a direct AsyncFd (obtained from an open before the threads start).
    DropDirectFd,
    /// Drop a ReadBuf that owns a pool buffer.
    ReleaseBuf,
    /// Drop a ReadBuf that has no buffer assigned yet, then the pool handle.
    DropFreshBufAndPool,
    /// Call SubmissionQueue::wake, then drop the handle.
    Wake,
    /// Drop a clone of the SubmissionQueue.
    DropSqClone,
    /// Poll a fresh operation for the first time, then drop it.
    FirstPoll(Kind),
    /// Drop an operation that is in flight.
    DropInflight(Kind),
    /// Drop an operation whose submission is queued but not yet submitted.
    DropQueued(Kind),
}

pub struct C12ThCfg {
    pub acts: Vec<C12Act>,
    /// Ring::poll(Some(0)) calls the ring thread makes before it drops the Ring.
    pub ring_polls: usize,
    pub sq: u32,
    pub sqpoll: bool,
    /// Reports under this property (C12, or C11 for the wake variants).
    pub prop: &'static str,
    /// Kernel-thread rings: the thread is asleep (NEED_WAKEUP set) when the threads start.
    pub idle_at_start: bool,
}

pub fn c12_threads(cfg: C12ThCfg, bound: u32) -> ThHarness {
    let name = format!("threads-ringdrop-vs-{}-sq{}{}{}-polls{}", cfg.acts.iter().map(|a| format!("{a:?}")).collect::<Vec<_>>().join("+"), cfg.sq, if cfg.sqpoll { "-sqpoll" } else { "" }, if cfg.idle_at_start { "-asleep" } else { "" }, cfg.ring_polls);
    let describe = json!({"engine": "schx", "ring_thread": format!("{} poll(s), then drops the Ring", cfg.ring_polls), "other_threads": cfg.acts.iter().map(|a| format!("{a:?}")).collect::<Vec<_>>(), "sq": cfg.sq, "kernel_thread": cfg.sqpoll, "preemption_bound": bound});
    let cfg = Arc::new(cfg);
    ThHarness {
        name,
        bound,
        free_bound: 0,
        cap_s: 0,
        describe,
        mk: Box::new(move || {
            let cfg = cfg.clone();
            let prop = cfg.prop;
            simk::reset(simk::SetupPlan::default());
            simk::with(|k| {
                k.zc_cancel_notif_immediate = true;
                k.sync_cancel = simk::SyncCancelMode::All;
            });
            talloc::set_on_free(Some(simk::on_free));
            let need_table = cfg.acts.iter().any(|a| matches!(a, C12Act::DropDirectFd));
            let need_pool = cfg.acts.iter().any(|a| matches!(a, C12Act::ReleaseBuf | C12Act::DropFreshBufAndPool) || matches!(a, C12Act::FirstPoll(k) | C12Act::DropInflight(k) | C12Act::DropQueued(k) if k.needs_pool()));
            let (mut ring, sq, fd_box, mut pool) = talloc::track(|| {
                let mut c = Ring::config().with_submission_queue_size(cfg.sq);
                if need_table {
                    c = c.with_direct_descriptors(4);
                }
                if cfg.sqpoll {
                    c = c.with_kernel_thread();
                }
                let ring = c.build().expect("ring");
                let sq = ring.sq();
                let raw = simk::with(|k| k.new_regular_pub());
                let fd_box = Box::new(unsafe { AsyncFd::from_raw_fd(raw, sq.clone()) });
                let pool = if need_pool { Some(a10::io::ReadBufPool::new(sq.clone(), 2, 8).expect("pool")) } else { None };
                (ring, sq, fd_box, pool)
            });
            // Operations borrow a descriptor of their own (safe Rust would not let `fd_box` go before them).
            let fd2_box = talloc::track(|| {
                let raw = simk::with(|k| k.new_regular_pub());
                Box::new(unsafe { AsyncFd::from_raw_fd(raw, sq.clone()) })
            });
            let fd: &'static AsyncFd = unsafe { &*std::ptr::from_ref::<AsyncFd>(fd2_box.as_ref()) };
            let enter = |ring: &mut Ring| {
                talloc::track(|| {
                    let _ = ring.poll(Some(Duration::ZERO));
                });
            };
            // Prepare what each thread will act on.
            enum Prepared {
                Fd(Box<AsyncFd>),
                Direct(AsyncFd),
                Buf(a10::io::ReadBuf),
                FreshAndPool(a10::io::ReadBuf, a10::io::ReadBufPool),
                Sq(SubmissionQueue, bool),
                Op(Op, bool),
            }
            let mut prepared: Vec<Sendable<Prepared>> = Vec::new();
            let mut fd_box = Some(fd_box);
            let mut direct_origin = None;
            let mut polled_ops = false;
            for (n, act) in cfg.acts.iter().enumerate() {
                let p = match act {
                    C12Act::DropFd => Prepared::Fd(fd_box.take().expect("one DropFd at most")),
                    C12Act::DropDirectFd => {
                        let env = ops::Env { sq: &sq, fd, pool: None, nth: 90 };
                        let mut op = ops::make(Kind::OpenDirect, &env);
                        let w = HWaker::new(90);
                        let mut cx = Context::from_waker(&w.waker);
                        assert_eq!(op.poll(&mut cx), Seen::Pending);
                        enter(&mut ring);
                        let s = simk::with(|k| *k.inflight().last().unwrap());
                        simk::with(|k| k.complete(s, Out::Default));
                        enter(&mut ring);
                        assert!(matches!(op.poll(&mut cx), Seen::Ready(_)));
                        let d = op.held.borrow_mut().pop().unwrap();
                        direct_origin = Some(s);
                        talloc::track(|| drop(op));
                        Prepared::Direct(d)
                    }
                    C12Act::ReleaseBuf => {
                        let env = ops::Env { sq: &sq, fd, pool: pool.as_ref(), nth: 91 };
                        let mut op = ops::make(Kind::ReadPool, &env);
                        let w = HWaker::new(91);
                        let mut cx = Context::from_waker(&w.waker);
                        assert_eq!(op.poll(&mut cx), Seen::Pending);
                        enter(&mut ring);
                        let s = simk::with(|k| *k.inflight().last().unwrap());
                        simk::with(|k| k.complete(s, Out::Res(3)));
                        enter(&mut ring);
                        assert!(matches!(op.poll(&mut cx), Seen::Ready(_)));
                        let b = op.bufs.borrow_mut().pop().unwrap();
                        talloc::track(|| drop(op));
                        Prepared::Buf(b)
                    }
                    C12Act::DropFreshBufAndPool => {
                        let p = pool.as_ref().unwrap().clone();
                        let b = talloc::track(|| p.get());
                        Prepared::FreshAndPool(b, p)
                    }
                    C12Act::Wake => Prepared::Sq(sq.clone(), true),
                    C12Act::DropSqClone => Prepared::Sq(sq.clone(), false),
                    C12Act::FirstPoll(kind) | C12Act::DropInflight(kind) | C12Act::DropQueued(kind) => {
                        let env = ops::Env { sq: &sq, fd, pool: pool.as_ref(), nth: n };
                        let mut op = ops::make(*kind, &env);
                        if !matches!(act, C12Act::FirstPoll(_)) {
                            let w = HWaker::new(10 + n as u32);
                            let mut cx = Context::from_waker(&w.waker);
                            assert_eq!(op.poll(&mut cx), Seen::Pending);
                            if matches!(act, C12Act::DropInflight(_)) {
                                enter(&mut ring);
                            }
                        } else {
                            polled_ops = true;
                        }
                        Prepared::Op(op, matches!(act, C12Act::FirstPoll(_)))
                    }
                };
                prepared.push(Sendable(p));
            }
            // The harness' own pool handle goes away before the threads start unless nothing else holds the pool.
            let pool_keep = pool.take();
            let mut fd_box = fd_box;
            let ring_slot: Arc<Mutex<Option<Sendable<(Ring, SubmissionQueue)>>>> = Arc::new(Mutex::new(Some(Sendable((ring, sq)))));
            let events: Arc<Mutex<Vec<(String, u64)>>> = Arc::new(Mutex::new(Vec::new()));
            let mut bodies: Vec<(String, Body)> = Vec::new();
            // What is left when every thread has acted is dropped by the ring thread (inside the schedule:
            // with a kernel thread the last handle waits for the sq-thread, which only runs as an actor).
            let leftovers = Arc::new(Mutex::new(Some(Sendable((fd_box.take(), fd2_box, pool_keep)))));
            let others_done = Arc::new(std::sync::atomic::AtomicUsize::new(0));
            let n_others = cfg.acts.len();
            {
                let ring_slot = ring_slot.clone();
                let events = events.clone();
                let polls = cfg.ring_polls;
                let leftovers = leftovers.clone();
                let others_done = others_done.clone();
                bodies.push((
                    "ring".into(),
                    Box::new(move || {
                        let Sendable((mut ring, sq)) = ring_slot.lock().unwrap().take().unwrap();
                        for _ in 0..polls {
                            talloc::track(|| {
                                let _ = ring.poll(Some(Duration::ZERO));
                            });
                        }
                        events.lock().unwrap().push(("ring-drop-begin".into(), crate::waker::tick()));
                        talloc::track(|| {
                            drop(sq);
                            drop(ring);
                        });
                        events.lock().unwrap().push(("ring-dropped".into(), crate::waker::tick()));
                        let od = others_done.clone();
                        schx::block_until(Box::new(move || od.load(std::sync::atomic::Ordering::SeqCst) == n_others), false, "waiting for the other threads to finish");
                        if let Some(l) = leftovers.lock().unwrap().take() {
                            talloc::track(|| {
                                let Sendable((a, b, c)) = l;
                                drop(c);
                                drop(a);
                                drop(b);
                            });
                        }
                    }),
                ));
            }
            for (n, p) in prepared.into_iter().enumerate() {
                let events = events.clone();
                let others_done = others_done.clone();
                bodies.push((
                    format!("other{n}"),
                    Box::new(move || {
                        let p = p;
                        events.lock().unwrap().push((format!("act{n}-begin"), crate::waker::tick()));
                        match p.0 {
                            Prepared::Fd(x) => talloc::track(|| drop(x)),
                            Prepared::Direct(x) => talloc::track(|| drop(x)),
                            Prepared::Buf(x) => talloc::track(|| drop(x)),
                            Prepared::FreshAndPool(b, p) => talloc::track(|| {
                                drop(b);
                                drop(p);
                            }),
                            Prepared::Sq(s, wake) => talloc::track(|| {
                                if wake {
                                    s.wake();
                                }
                                drop(s);
                            }),
                            Prepared::Op(mut op, first) => {
                                if first {
                                    let w = HWaker::new(20 + n as u32);
                                    let mut cx = Context::from_waker(&w.waker);
                                    let _ = op.poll(&mut cx);
                                }
                                talloc::track(|| {
                                    op.held.borrow_mut().clear();
                                    op.bufs.borrow_mut().clear();
                                    drop(op)
                                });
                            }
                        }
                        events.lock().unwrap().push((format!("act{n}-end"), crate::waker::tick()));
                        others_done.fetch_add(1, std::sync::atomic::Ordering::SeqCst);
                    }),
                ));
            }
            let mut actors = Vec::new();
            if cfg.sqpoll {
                simk::with(|k| k.sqpoll_manual = true);
                actors.push(Actor {
                    name: "sq-thread".into(),
                    enabled: Box::new(|| simk::with(|k| k.ring0_open() && k.rings[0].sq_pending() > 0 && !k.rings[0].sq_thread_idle)),
                    step: Box::new(|| {
                        simk::with(|k| {
                            k.consume(0, 1);
                        })
                    }),
                });
                // The kernel thread goes to sleep when it finds nothing to do: it then has to be woken.
                actors.push(Actor {
                    name: "sq-thread-goes-idle".into(),
                    enabled: Box::new(|| simk::with(|k| k.ring0_open() && k.rings[0].sq_pending() == 0 && !k.rings[0].sq_thread_idle && k.idle_budget > 0)),
                    step: Box::new(|| {
                        simk::with(|k| {
                            k.idle_budget -= 1;
                            k.rings[0].sq_thread_idle = true;
                            k.rings[0].set_sq_flag(SQ_NEED_WAKEUP, true);
                        })
                    }),
                });
                if cfg.idle_at_start {
                    simk::with(|k| {
                        k.rings[0].sq_thread_idle = true;
                        k.rings[0].set_sq_flag(SQ_NEED_WAKEUP, true);
                    });
                }
            }
            let judge = Box::new(move |_exec: &Exec| -> Vec<Violation> {
                let mut v = sim_violations(prop);
                if !v.is_empty() || leftovers.lock().unwrap().is_some() {
                    std::mem::forget(leftovers.lock().unwrap().take());
                    if v.is_empty() {
                        v.push(Violation::new(prop, "stuck/threads", "the threads did not run to the end"));
                    }
                    simk::shutdown();
                    talloc::disarm();
                    return v;
                }
                // Mapping balance: the three ring mappings unmapped exactly once, the ring descriptor closed after them.
                let ev = crate::mapwatch::events();
                let mmaps = ev.iter().filter(|e| matches!(e, crate::mapwatch::MapEvent::Mmap { failed: false, .. })).count();
                let unmaps: Vec<&crate::mapwatch::MapEvent> = ev.iter().filter(|e| matches!(e, crate::mapwatch::MapEvent::Munmap { .. })).collect();
                let left = crate::mapwatch::mappings();
                if !left.is_empty() {
                    v.push(Violation::new("C12", "mapping-leaked/threads", &format!("{} ring mapping(s) still mapped after every handle was dropped: {left:?}", left.len())));
                }
                if unmaps.len() > mmaps {
                    v.push(Violation::new("C12", "unmapped-twice/threads", &format!("{} munmap calls for {mmaps} mappings", unmaps.len())));
                }
                for u in &unmaps {
                    if let crate::mapwatch::MapEvent::Munmap { exact: false, addr, len, .. } = u {
                        v.push(Violation::new("C12", "unmap-wrong-range/threads", &format!("munmap({addr:#x}, {len}) does not match the mapping it hits")));
                    }
                }
                let close_pos = ev.iter().position(|e| matches!(e, crate::mapwatch::MapEvent::CloseRing { .. }));
                let last_unmap = ev.iter().rposition(|e| matches!(e, crate::mapwatch::MapEvent::Munmap { .. }));
                match (close_pos, last_unmap) {
                    (None, _) => v.push(Violation::new("C12", "ring-fd-leaked/threads", "the ring descriptor was never closed although every handle is gone")),
                    (Some(c), Some(u)) if c < u => v.push(Violation::new("C12", "ring-fd-closed-early/threads", "the ring descriptor was closed before its mappings were unmapped")),
                    _ => {}
                }
                // Descriptors: each closed exactly once.
                let descs = simk::with(|k| {
                    k.sync_closes();
                    k.descs.clone()
                });
                for d in &descs {
                    if d.open {
                        if d.origin != 0 && Some(d.origin) != direct_origin {
                            continue; // Delivered to a dropped operation: the known finding of C07, judged there.
                        }
                        let what = match d.kind {
                            simk::DescKind::Regular(_) => "regular",
                            simk::DescKind::Fixed { .. } => "direct",
                        };
                        v.push(Violation::new("C12", &format!("unclosed/{what}/threads"), &format!("descriptor {:?} was never closed although its AsyncFd, the Ring and every other handle were dropped (AsyncFd dropped on one thread while the Ring was dropped on another); events {:?}", d.kind, events.lock().unwrap())));
                    }
                    if d.closes.len() > 1 {
                        v.push(Violation::new("C12", "closed-twice/threads", &format!("descriptor {:?} closed {} times ({:?})", d.kind, d.closes.len(), d.closes)));
                    }
                }
                // Registrations: no buffer ring left registered with a ring whose handles are all gone is
                // implied by the ring descriptor being closed.
                simk::shutdown();
                let rep = talloc::disarm();
                if rep.double_frees > 0 {
                    v.push(Violation::new(prop, "double-free/threads", &format!("{} double free(s)", rep.double_frees)));
                }
                // A first poll that submits after the Ring is gone leaves state a10 cannot reclaim (no leak demand then).
                if !rep.leaked.is_empty() && !polled_ops && v.is_empty() {
                    let total: usize = rep.leaked.iter().map(|b| b.size).sum();
                    v.push(Violation::new("C12", "leak/threads-ring-dropped-concurrently", &format!("{} block(s), {total} bytes still allocated after the Ring (dropped on its own thread) and every other object were dropped; events {:?}", rep.leaked.len(), events.lock().unwrap())));
                }
                v
            });
            ThSetup { bodies, actors, judge }
        }),
    }
}
