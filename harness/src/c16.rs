//! C16: socket addresses round-trip through their kernel representation.
//!
//! Pure enumeration (every case goes address -> storage -> (pointer, length)
//! -> bytes -> init with the length the kernel reports) plus real-kernel cases
//! that establish which length the kernel reports (bind / getsockname on real
//! sockets), for IPv4, IPv6, either-family, Unix path, abstract and unnamed.
#![allow(dead_code)]

use std::mem::MaybeUninit;
use std::net::{Ipv4Addr, Ipv6Addr, SocketAddr, SocketAddrV4, SocketAddrV6};
use std::os::linux::net::SocketAddrExt;
use std::os::unix::net::SocketAddr as UnixAddr;

use a10::net::SocketAddress;

use crate::report::Violation;

#[derive(Clone, Debug)]
pub enum Case {
    /// All IPv4 addresses first_octet.b.c.d for b,c,d in a structured set x ports.
    V4 { a: u8, dense: bool },
    V6 { idx: usize },
    UnixPath { len: usize, alpha: u8 },
    UnixAbstract { len: usize, variant: u8 },
    UnixUnnamed,
    /// Real kernel: bind with std/libc, getsockname, feed a10's init.
    RealIp { v6: bool },
    RealUnixPath { len: usize },
    RealUnixAbstract { len: usize },
    RealUnixUnnamed,
    /// Real kernel: the sender address recvfrom(2) reports for a datagram (0: unnamed sender, 1: path, 2: abstract).
    RealUnixSender { kind: u8 },
    /// Real kernel, end to end through a10's own (pointer, length): bind with what
    /// as_ptr returns, getsockname, init.
    EndToEndUnix { kind: u8, len: usize },
}

fn v(sig: &str, msg: String) -> Violation {
    Violation::new("C16", sig, &msg)
}

const SUN_PATH_OFF: usize = 2;

/// Generic round trip: into_storage -> as_ptr -> copy `kernel_len` bytes into a
/// fresh storage -> init.
fn round_trip<A: SocketAddress + Clone>(addr: &A, want_ptr_len: Option<u32>, kernel_len: u32, name: &str, out: &mut Vec<Violation>) -> Option<A>
where
    A::Storage: Sized,
{
    let storage = addr.clone().into_storage();
    let (ptr, len) = unsafe { A::as_ptr(&storage) };
    let sbase = std::ptr::from_ref(&storage) as usize;
    if (ptr as usize) < sbase || ptr as usize + len as usize > sbase + size_of::<A::Storage>() {
        out.push(v(&format!("as-ptr-not-storage/{name}"), format!("{name}: as_ptr returns ({:p}, {len}), which is not inside the storage at {:p} ({} bytes)", ptr, &storage, size_of::<A::Storage>())));
        return None;
    }
    if let Some(w) = want_ptr_len {
        if len != w {
            out.push(v(&format!("as-ptr-length/{name}"), format!("{name}: as_ptr passes length {len}, the structure for this family is {w} bytes")));
            return None;
        }
    }
    if len as usize > size_of::<A::Storage>() {
        out.push(v(&format!("as-ptr-length/{name}"), format!("{name}: as_ptr passes length {len}, larger than the storage ({})", size_of::<A::Storage>())));
        return None;
    }
    // What the kernel hands back: the same bytes, `kernel_len` of them; the rest
    // of the caller's storage is untouched garbage.
    let mut back = MaybeUninit::<A::Storage>::uninit();
    let (mptr, mlen) = unsafe { A::as_mut_ptr(&mut back) };
    let bbase = back.as_mut_ptr() as usize;
    let inside = mptr as usize >= bbase && mptr as usize + mlen as usize <= bbase + size_of::<A::Storage>();
    let exact = want_ptr_len.is_none() || mlen as usize == size_of::<A::Storage>();
    if !inside || !exact || mlen < len {
        out.push(v(&format!("as-mut-ptr/{name}"), format!("{name}: as_mut_ptr returns ({mptr:p}, {mlen}), the storage is {:p} with {} bytes (as_ptr length {len})", back.as_mut_ptr(), size_of::<A::Storage>())));
        return None;
    }
    unsafe {
        std::ptr::write_bytes(mptr.cast::<u8>(), 0xAA, mlen as usize);
        std::ptr::copy_nonoverlapping(ptr.cast::<u8>(), mptr.cast::<u8>(), (kernel_len as usize).min(mlen as usize).min(len as usize));
    }
    Some(unsafe { A::init(back, kernel_len) })
}

fn ports() -> [u16; 4] {
    [0, 1, 80, 65535]
}

fn run_v4(a: u8, dense: bool, out: &mut Vec<Violation>) {
    let set: Vec<u8> = if dense { (0..=255).collect() } else { vec![0, 1, 2, 127, 128, 254, 255] };
    for &b in &set {
        for &c in &set {
            for &d in &set {
                for port in ports() {
                    let addr = SocketAddrV4::new(Ipv4Addr::new(a, b, c, d), port);
                    // Independent reference: the sockaddr_in bytes per the ABI.
                    let st = addr.into_storage();
                    let raw: [u8; 16] = unsafe { std::mem::transmute_copy(&st) };
                    let mut want = [0u8; 16];
                    want[0..2].copy_from_slice(&(libc::AF_INET as u16).to_ne_bytes());
                    want[2..4].copy_from_slice(&port.to_be_bytes());
                    want[4..8].copy_from_slice(&[a, b, c, d]);
                    if raw != want {
                        out.push(v("kernel-representation/SocketAddrV4", format!("{addr}: storage bytes {raw:02x?}, sockaddr_in is {want:02x?}")));
                        return;
                    }
                    match round_trip(&addr, Some(16), 16, "SocketAddrV4", out) {
                        Some(b) if b == addr => {}
                        Some(b) => {
                            out.push(v("round-trip/SocketAddrV4", format!("{addr} comes back as {b}")));
                            return;
                        }
                        None => return,
                    }
                    if port == 80 || dense {
                        let either = SocketAddr::V4(addr);
                        match round_trip(&either, Some(16), 16, "SocketAddr(V4)", out) {
                            Some(b) if b == either => {}
                            Some(b) => {
                                out.push(v("round-trip/SocketAddr(V4)", format!("{either} comes back as {b}")));
                                return;
                            }
                            None => return,
                        }
                    }
                }
            }
        }
    }
}

pub fn v6_addrs() -> Vec<Ipv6Addr> {
    let mut v = vec![Ipv6Addr::UNSPECIFIED, Ipv6Addr::LOCALHOST, Ipv6Addr::new(0xfe80, 0, 0, 0, 1, 2, 3, 4), Ipv6Addr::new(0xffff, 0xffff, 0xffff, 0xffff, 0xffff, 0xffff, 0xffff, 0xffff), Ipv4Addr::new(1, 2, 3, 4).to_ipv6_mapped()];
    for i in 0..16 {
        let mut o = [0u8; 16];
        o[i] = 0x80 | i as u8;
        v.push(Ipv6Addr::from(o));
        let mut o = [0xffu8; 16];
        o[i] = i as u8;
        v.push(Ipv6Addr::from(o));
    }
    for i in 0..27 {
        let o: [u8; 16] = std::array::from_fn(|j| (i * 16 + j * 7 + 1) as u8);
        v.push(Ipv6Addr::from(o));
    }
    v
}

fn run_v6(idx: usize, out: &mut Vec<Violation>) {
    let ip = v6_addrs()[idx];
    for port in ports() {
        for flow in [0u32, 1, 0xFFFFF, 0x0102_0304, u32::MAX] {
            for scope in [0u32, 1, 0x0a0b_0c0d, u32::MAX] {
                let addr = SocketAddrV6::new(ip, port, flow, scope);
                let st = addr.into_storage();
                let raw: [u8; 28] = unsafe { std::mem::transmute_copy(&st) };
                let mut want = [0u8; 28];
                want[0..2].copy_from_slice(&(libc::AF_INET6 as u16).to_ne_bytes());
                want[2..4].copy_from_slice(&port.to_be_bytes());
                want[4..8].copy_from_slice(&flow.to_ne_bytes());
                want[8..24].copy_from_slice(&ip.octets());
                want[24..28].copy_from_slice(&scope.to_ne_bytes());
                if raw != want {
                    out.push(v("kernel-representation/SocketAddrV6", format!("{addr:?}: storage bytes {raw:02x?}, sockaddr_in6 (as std builds it) is {want:02x?}")));
                    return;
                }
                match round_trip(&addr, Some(28), 28, "SocketAddrV6", out) {
                    Some(b) if b == addr && b.flowinfo() == flow && b.scope_id() == scope => {}
                    Some(b) => {
                        out.push(v("round-trip/SocketAddrV6", format!("{addr:?} comes back as {b:?}")));
                        return;
                    }
                    None => return,
                }
                let either = SocketAddr::V6(addr);
                match round_trip(&either, Some(28), 28, "SocketAddr(V6)", out) {
                    Some(SocketAddr::V6(b)) if b == addr && b.flowinfo() == flow && b.scope_id() == scope => {}
                    Some(b) => {
                        out.push(v("round-trip/SocketAddr(V6)", format!("{either:?} comes back as {b:?}")));
                        return;
                    }
                    None => return,
                }
            }
        }
    }
}

fn path_bytes(len: usize, alpha: u8) -> Vec<u8> {
    (0..len)
        .map(|i| match alpha {
            0 => b'a',
            1 => {
                if i % 3 == 0 { b'/' } else { b'b' }
            }
            _ => {
                if i % 2 == 0 { 0xFF } else { b'c' }
            }
        })
        .collect()
}

fn abstract_bytes(len: usize, variant: u8) -> Vec<u8> {
    (0..len)
        .map(|i| match variant {
            0 => b'x',
            1 => {
                if i % 2 == 1 { 0 } else { b'n' }
            }
            _ => (i as u8).wrapping_mul(37).wrapping_add(200),
        })
        .collect()
}

fn unix_eq(a: &UnixAddr, b: &UnixAddr) -> bool {
    a.as_pathname() == b.as_pathname() && a.as_abstract_name() == b.as_abstract_name() && a.is_unnamed() == b.is_unnamed()
}

fn unix_addr_len(a: &UnixAddr) -> u32 {
    if let Some(p) = a.as_pathname() {
        // The kernel includes the terminating NUL.
        (SUN_PATH_OFF + p.as_os_str().len() + 1) as u32
    } else if let Some(n) = a.as_abstract_name() {
        (SUN_PATH_OFF + 1 + n.len()) as u32
    } else {
        SUN_PATH_OFF as u32
    }
}

fn run_unix(addr: UnixAddr, class: &str, out: &mut Vec<Violation>) {
    let klen = unix_addr_len(&addr);
    match round_trip(&addr, None, klen, class, out) {
        Some(b) if unix_eq(&b, &addr) => {}
        Some(b) => out.push(v(&format!("round-trip/{class}"), format!("{addr:?} (kernel length {klen}) comes back as {b:?}"))),
        None => {}
    }
    // The length passed to the kernel must cover the address.
    let st = addr.clone().into_storage();
    let (_, len) = unsafe { UnixAddr::as_ptr(&st) };
    let used = if addr.as_pathname().is_some() { klen } else { klen };
    if len < used || len as usize > size_of::<libc::sockaddr_un>() {
        out.push(v(&format!("as-ptr-length/{class}"), format!("{addr:?}: as_ptr passes length {len}, the address needs {used} and sockaddr_un has {}", size_of::<libc::sockaddr_un>())));
    }
}

// ------------------------------------------------------------- real kernel

fn scratch(tag: &str) -> std::path::PathBuf {
    let p = std::path::PathBuf::from(format!("{}/scratch/c16-{}-{tag}", crate::report::root(), std::process::id()));
    let _ = std::fs::remove_dir_all(&p);
    std::fs::create_dir_all(&p).unwrap();
    p
}

fn sock(domain: i32, ty: i32) -> i32 {
    let fd = unsafe { libc::socket(domain, ty | libc::SOCK_CLOEXEC, 0) };
    assert!(fd >= 0, "socket() failed");
    fd
}

/// getsockname into a10's storage, then `init`.
fn a10_sockname<A: SocketAddress>(fd: i32) -> (A, u32) {
    let mut st = MaybeUninit::<A::Storage>::uninit();
    let (ptr, len) = unsafe { A::as_mut_ptr(&mut st) };
    unsafe { std::ptr::write_bytes(ptr.cast::<u8>(), 0xAA, len as usize) };
    let mut l: libc::socklen_t = len;
    let r = unsafe { libc::getsockname(fd, ptr.cast(), &mut l) };
    assert_eq!(r, 0, "getsockname failed");
    (unsafe { A::init(st, l) }, l)
}

/// The sender address of the next datagram on `fd`, with the length recvfrom(2) reports.
fn a10_recvfrom_name<A: SocketAddress>(fd: i32, fill: &[u8]) -> (A, u32) {
    let mut st = MaybeUninit::<A::Storage>::uninit();
    let (ptr, len) = unsafe { A::as_mut_ptr(&mut st) };
    // Whatever the kernel does not write stays "uninitialised": any content is possible,
    // e.g. what an earlier use of the same memory left there.
    for i in 0..len as usize {
        unsafe { ptr.cast::<u8>().add(i).write(fill[i % fill.len()]) };
    }
    let mut l: libc::socklen_t = len;
    let mut buf = [0u8; 8];
    let r = unsafe { libc::recvfrom(fd, buf.as_mut_ptr().cast(), buf.len(), 0, ptr.cast(), &mut l) };
    assert!(r >= 0, "recvfrom failed");
    (unsafe { A::init(st, l) }, l)
}

fn run_real_ip(v6: bool, out: &mut Vec<Violation>) {
    if v6 {
        let s = match std::net::UdpSocket::bind("[::1]:0") {
            Ok(s) => s,
            Err(_) => return, // No IPv6 in this sandbox: nothing to compare.
        };
        let want = s.local_addr().unwrap();
        use std::os::fd::AsRawFd;
        let (got, len) = a10_sockname::<SocketAddr>(s.as_raw_fd());
        if got != want || len != 28 {
            out.push(v("real-kernel/SocketAddr(V6)", format!("kernel reports {want} (length {len}); a10 decodes {got}")));
        }
        let (got6, _) = a10_sockname::<SocketAddrV6>(s.as_raw_fd());
        if SocketAddr::V6(got6) != want {
            out.push(v("real-kernel/SocketAddrV6", format!("kernel reports {want}; a10 decodes {got6}")));
        }
    } else {
        let s = std::net::UdpSocket::bind("127.0.0.1:0").unwrap();
        let want = s.local_addr().unwrap();
        use std::os::fd::AsRawFd;
        let (got, len) = a10_sockname::<SocketAddr>(s.as_raw_fd());
        if got != want || len != 16 {
            out.push(v("real-kernel/SocketAddr(V4)", format!("kernel reports {want} (length {len}); a10 decodes {got}")));
        }
        let (got4, _) = a10_sockname::<SocketAddrV4>(s.as_raw_fd());
        if SocketAddr::V4(got4) != want {
            out.push(v("real-kernel/SocketAddrV4", format!("kernel reports {want}; a10 decodes {got4}")));
        }
    }
}

fn run_real_unix(addr: UnixAddr, class: &str, out: &mut Vec<Violation>) {
    use std::os::fd::AsRawFd;
    let s = match std::os::unix::net::UnixDatagram::bind_addr(&addr) {
        Ok(s) => s,
        Err(e) => {
            out.push(v(&format!("real-kernel-setup/{class}"), format!("std could not bind {addr:?}: {e}")));
            return;
        }
    };
    let want = s.local_addr().unwrap();
    let (got, len) = a10_sockname::<UnixAddr>(s.as_raw_fd());
    let rule = unix_addr_len(&addr);
    if len != rule {
        out.push(v(&format!("kernel-length-rule/{class}"), format!("the kernel reports length {len} for {addr:?}, the enumeration assumes {rule}")));
    }
    if !unix_eq(&got, &want) {
        out.push(v(&format!("real-kernel/{class}"), format!("a socket bound to {want:?} (kernel length {len}): a10 decodes {got:?}")));
    }
}

/// bind with exactly what a10's as_ptr hands out, then read the name back.
fn run_end_to_end(addr: UnixAddr, class: &str, out: &mut Vec<Violation>) {
    let fd = sock(libc::AF_UNIX, libc::SOCK_DGRAM);
    let st = addr.clone().into_storage();
    let (ptr, len) = unsafe { UnixAddr::as_ptr(&st) };
    let r = unsafe { libc::bind(fd, ptr.cast(), len) };
    if r != 0 {
        let e = std::io::Error::last_os_error();
        unsafe { libc::close(fd) };
        out.push(v(&format!("end-to-end-bind/{class}"), format!("bind with a10's (pointer, length {len}) for {addr:?} failed: {e}")));
        return;
    }
    let (got, klen) = a10_sockname::<UnixAddr>(fd);
    unsafe { libc::close(fd) };
    if !unix_eq(&got, &addr) {
        out.push(v(&format!("end-to-end/{class}"), format!("{addr:?} passed to bind(2) as a10 represents it (length {len}) is reported back by the kernel with length {klen} and decoded as {got:?}")));
    }
}

pub fn run(case: &Case) -> Vec<Violation> {
    let mut out = Vec::new();
    match case {
        Case::V4 { a, dense } => run_v4(*a, *dense, &mut out),
        Case::V6 { idx } => run_v6(*idx, &mut out),
        Case::UnixPath { len, alpha } => {
            use std::os::unix::ffi::OsStrExt;
            let bytes = path_bytes(*len, *alpha);
            let addr = UnixAddr::from_pathname(std::ffi::OsStr::from_bytes(&bytes)).expect("valid path");
            run_unix(addr, "unix-path", &mut out);
        }
        Case::UnixAbstract { len, variant } => {
            let addr = UnixAddr::from_abstract_name(abstract_bytes(*len, *variant)).expect("valid abstract name");
            run_unix(addr, "unix-abstract", &mut out);
        }
        Case::UnixUnnamed => {
            // An unnamed address: what an unbound socket reports.
            let s = std::os::unix::net::UnixDatagram::unbound().unwrap();
            let addr = s.local_addr().unwrap();
            run_unix(addr, "unix-unnamed", &mut out);
        }
        Case::RealIp { v6 } => run_real_ip(*v6, &mut out),
        Case::RealUnixPath { len } => {
            let dir = scratch(&format!("p{len}"));
            // Keep the full path at the requested length where possible.
            let base = dir.to_string_lossy().to_string();
            let total = (*len).max(base.len() + 2).min(107);
            let name = "s".repeat(total - base.len() - 1);
            let path = format!("{base}/{name}");
            if let Ok(addr) = UnixAddr::from_pathname(&path) {
                run_real_unix(addr, "unix-path", &mut out);
            }
            let _ = std::fs::remove_dir_all(&dir);
        }
        Case::RealUnixAbstract { len } => {
            let mut name = format!("a10mc-{}-", std::process::id()).into_bytes();
            name.truncate(*len);
            while name.len() < *len {
                name.push(if name.len() % 5 == 4 { 0 } else { b'z' });
            }
            let addr = UnixAddr::from_abstract_name(&name).unwrap();
            run_real_unix(addr, "unix-abstract", &mut out);
        }
        Case::RealUnixUnnamed => {
            use std::os::fd::AsRawFd;
            let s = std::os::unix::net::UnixDatagram::unbound().unwrap();
            let want = s.local_addr().unwrap();
            let (got, len) = a10_sockname::<UnixAddr>(s.as_raw_fd());
            if len != 2 {
                out.push(v("kernel-length-rule/unix-unnamed", format!("the kernel reports length {len} for an unnamed socket")));
            }
            if !unix_eq(&got, &want) {
                out.push(v("real-kernel/unix-unnamed", format!("unbound socket: a10 decodes {got:?}")));
            }
        }
        Case::RealUnixSender { kind } => {
            use std::os::fd::AsRawFd;
            use std::os::linux::net::SocketAddrExt;
            let rx_name = format!("a10mc-rx-{}-{kind}", std::process::id());
            let rx = std::os::unix::net::UnixDatagram::bind_addr(&UnixAddr::from_abstract_name(rx_name.as_bytes()).unwrap()).unwrap();
            let dir = scratch(&format!("snd{kind}"));
            let tx = match kind {
                0 => std::os::unix::net::UnixDatagram::unbound().unwrap(),
                1 => std::os::unix::net::UnixDatagram::bind(dir.join("tx")).unwrap(),
                _ => std::os::unix::net::UnixDatagram::bind_addr(&UnixAddr::from_abstract_name(format!("a10mc-tx-{}", std::process::id()).as_bytes()).unwrap()).unwrap(),
            };
            let want = tx.local_addr().unwrap();
            for fill in [&[0xAAu8][..], &[0u8][..], b"stale-name\0", b"\0old-abstract"] {
                tx.send_to_addr(b"x", &rx.local_addr().unwrap()).unwrap();
                let (got, len) = a10_recvfrom_name::<UnixAddr>(rx.as_raw_fd(), fill);
                if !unix_eq(&got, &want) {
                    out.push(v(&format!("real-kernel/unix-sender/{}", ["unnamed", "path", "abstract"][*kind as usize]), format!("a datagram from {want:?}: recvfrom(2) reports a name of length {len}; with the address memory pre-filled with {:?} a10 decodes {got:?}", String::from_utf8_lossy(fill))));
                    break;
                }
            }
            let _ = std::fs::remove_dir_all(&dir);
        }
        Case::EndToEndUnix { kind, len } => match kind {
            0 => {
                let dir = scratch(&format!("e{len}"));
                let base = dir.to_string_lossy().to_string();
                let total = (*len).max(base.len() + 2).min(107);
                let path = format!("{base}/{}", "t".repeat(total - base.len() - 1));
                if let Ok(addr) = UnixAddr::from_pathname(&path) {
                    run_end_to_end(addr, "unix-path", &mut out);
                }
                let _ = std::fs::remove_dir_all(&dir);
            }
            _ => {
                let mut name = format!("a10mc-e2e-{}-", std::process::id()).into_bytes();
                name.truncate(*len);
                while name.len() < *len {
                    name.push(b'q');
                }
                let addr = UnixAddr::from_abstract_name(&name).unwrap();
                run_end_to_end(addr, "unix-abstract", &mut out);
            }
        },
    }
    out
}

pub fn cases(quick: bool) -> Vec<Case> {
    let mut v = Vec::new();
    if quick {
        for a in [0u8, 1, 10, 127, 128, 192, 224, 255] {
            v.push(Case::V4 { a, dense: false });
        }
    } else {
        // All 2^32 IPv4 addresses x 4 ports.
        for a in 0..=255u8 {
            v.push(Case::V4 { a, dense: true });
        }
    }
    for idx in 0..v6_addrs().len() {
        v.push(Case::V6 { idx });
    }
    for len in 1..=107usize {
        for alpha in 0..3u8 {
            if quick && alpha > 0 && len % 9 != 0 && len < 100 {
                continue;
            }
            v.push(Case::UnixPath { len, alpha });
        }
    }
    for len in 0..=107usize {
        for variant in 0..3u8 {
            if quick && variant > 0 && len % 9 != 0 && len < 100 {
                continue;
            }
            v.push(Case::UnixAbstract { len, variant });
        }
    }
    v.push(Case::UnixUnnamed);
    v.push(Case::RealIp { v6: false });
    v.push(Case::RealIp { v6: true });
    for len in [40usize, 60, 100, 107] {
        v.push(Case::RealUnixPath { len });
        v.push(Case::EndToEndUnix { kind: 0, len });
    }
    for len in [0usize, 1, 5, 50, 107] {
        v.push(Case::RealUnixAbstract { len });
        if len > 0 {
            v.push(Case::EndToEndUnix { kind: 1, len });
        }
    }
    v.push(Case::RealUnixUnnamed);
    for kind in 0..3u8 {
        v.push(Case::RealUnixSender { kind });
    }
    v
}
