//! seqx: sequential history explorer.
//!
//! Explicit-state, depth-first search over histories (lists of actions) of a
//! `World` built from the real a10 code and the simulated kernel. a10's live
//! objects can't be cloned, so a node is reached by replaying its prefix on a
//! fresh world. Every node's history is closed with the world's epilogue and
//! judged by the end-of-history oracles.
#![allow(dead_code)]

use std::collections::HashMap;
use std::fmt::Debug;
use std::panic::{AssertUnwindSafe, catch_unwind};

use crate::report::Violation;

pub trait World {
    type Action: Clone + Debug;

    /// Actions enabled in the current state with their deviation cost, simplest first.
    fn enabled(&mut self) -> Vec<(Self::Action, u32)>;
    /// Execute one action on the real code.
    fn apply(&mut self, action: &Self::Action);
    /// Violations noticed so far (drained).
    fn take_violations(&mut self) -> Vec<Violation>;
    /// Canonical key of the current state.
    fn key(&mut self) -> u64;
    /// Epilogue: drive to quiescence, drop everything, run end-of-history oracles.
    fn finish(self) -> Vec<Violation>;
    /// Canonical rendering of what the caller observed (for outcome counting).
    fn observation(&self) -> u64 {
        0
    }
}

#[derive(Clone, Debug)]
pub struct Bounds {
    pub depth: usize,
    /// Deviation bound.
    pub dev: u32,
    /// Depth up to which no state merging is done.
    pub d_all: usize,
    /// Merge states by key beyond `d_all`.
    pub merge: bool,
    /// Shard (index, count).
    pub shard: (usize, usize),
    /// Wall clock cap in seconds (0 = none).
    pub cap_s: u64,
    /// Number of leading choices that decide which shard owns a subtree.
    pub shard_depth: usize,
}

#[derive(Clone, Debug)]
pub struct Found {
    pub violation: Violation,
    pub choices: Vec<usize>,
    pub history: Vec<String>,
}

#[derive(Default)]
pub struct Stats {
    pub executions: u64,
    pub transitions: u64,
    pub states: std::collections::HashSet<u64>,
    pub outcomes: std::collections::HashSet<u64>,
    pub max_depth: usize,
    pub pruned: u64,
    pub dev_skipped: u64,
    pub found: Vec<Found>,
    pub samples: Vec<Vec<String>>,
    pub capped: bool,
    pub per_depth: Vec<u64>,
    /// schx harnesses: highest preemption bound explored completely (-1: none).
    pub bound_completed: Option<i64>,
    /// schx harnesses: schedules cut off at the point limit, not judged.
    pub too_long: u64,
}

pub struct ExecResult {
    pub violations: Vec<Violation>,
    pub history: Vec<String>,
    pub enabled: Vec<u32>, // costs of the actions enabled at the end
    pub key: u64,
    pub observation: u64,
    pub transitions: u64,
    pub bad_choice: bool,
    /// All violations were found by the end-of-history oracles (the history itself ran clean).
    pub end_only: bool,
}

thread_local! {
    pub static LAST_PANIC: std::cell::RefCell<Option<String>> = const { std::cell::RefCell::new(None) };
}

pub fn install_panic_hook() {
    std::panic::set_hook(Box::new(|info| {
        crate::talloc::untracked(|| {
            let msg = if let Some(s) = info.payload().downcast_ref::<&str>() {
                (*s).to_string()
            } else if let Some(s) = info.payload().downcast_ref::<String>() {
                s.clone()
            } else {
                "panic".to_string()
            };
            let loc = info
                .location()
                .map(|l| format!("{}:{}", l.file(), l.line()))
                .unwrap_or_default();
            LAST_PANIC.with(|p| *p.borrow_mut() = Some(format!("{msg} at {loc}")));
            if std::env::var_os("A10MC_SHOW_PANICS").is_some() {
                eprintln!("panic: {msg} at {loc}");
            }
        })
    }));
}

pub fn take_panic() -> String {
    LAST_PANIC.with(|p| p.borrow_mut().take()).unwrap_or_else(|| "panic".to_string())
}

/// Class of a panic message: the message without numbers and addresses.
pub fn panic_class(msg: &str) -> String {
    let mut out = String::new();
    let mut last_digit = false;
    for c in msg.chars() {
        if c.is_ascii_digit() {
            if !last_digit {
                out.push('N');
            }
            last_digit = true;
        } else {
            last_digit = false;
            out.push(c);
        }
    }
    out.chars().take(100).collect()
}

/// Run one history given as choice indices.
pub fn exec<W: World>(mk: &dyn Fn() -> W, prop: &str, choices: &[usize]) -> ExecResult {
    crate::waker::reset_clock();
    crate::talloc::arm();
    let mut history = Vec::with_capacity(choices.len());
    let mut violations = Vec::new();
    let mut transitions = 0;
    let mut bad_choice = false;
    let mut world = match catch_unwind(AssertUnwindSafe(mk)) {
        Ok(w) => w,
        Err(_) => {
            let msg = take_panic();
            crate::simk::shutdown();
            crate::talloc::disarm();
            return ExecResult {
                violations: vec![Violation::new(prop, &format!("panic/setup/{}", panic_class(&msg)), &format!("panic while building the world: {msg}"))],
                history,
                enabled: Vec::new(),
                key: 0,
                observation: 0,
                transitions,
                bad_choice,
                end_only: false,
            };
        }
    };
    let mut panicked = false;
    for &c in choices {
        let en = world.enabled();
        let Some((action, _)) = en.get(c) else {
            bad_choice = true;
            break;
        };
        history.push(format!("{action:?}"));
        let r = catch_unwind(AssertUnwindSafe(|| world.apply(action)));
        transitions += 1;
        if r.is_err() {
            let msg = take_panic();
            violations.push(Violation::new(prop, &format!("panic/{}", panic_class(&msg)), &format!("a10 panicked: {msg}")));
            panicked = true;
            break;
        }
        violations.extend(world.take_violations());
        if !violations.is_empty() {
            break;
        }
    }
    let mut enabled = Vec::new();
    let mut key = 0;
    let mut observation = 0;
    let mut end_only = false;
    if panicked {
        // The world is in an unknown state: don't run its destructors.
        std::mem::forget(world);
        crate::simk::shutdown();
        crate::talloc::disarm();
    } else if !violations.is_empty() || bad_choice {
        // The world broke a property: its state can't be trusted enough to
        // run destructors on it. Leak it.
        std::mem::forget(world);
        crate::simk::shutdown();
        crate::talloc::disarm();
    } else {
        enabled = world.enabled().iter().map(|(_, c)| *c).collect();
        key = world.key();
        observation = world.observation();
        match catch_unwind(AssertUnwindSafe(|| world.finish())) {
            Ok(v) => {
                end_only = true;
                violations.extend(v)
            }
            Err(_) => {
                let msg = take_panic();
                violations.push(Violation::new(prop, &format!("panic/epilogue/{}", panic_class(&msg)), &format!("a10 panicked in the epilogue: {msg}")));
                crate::simk::shutdown();
                crate::talloc::disarm();
            }
        }
    }
    if std::env::var_os("A10MC_TRACE_HIST").is_some() {
        eprintln!("HIST key={key:016x} {history:?} -> {:?}", violations.iter().map(|v| format!("{}:{}", v.prop, v.sig)).collect::<Vec<_>>());
    }
    ExecResult { violations, history, enabled, key, observation, transitions, bad_choice, end_only }
}

fn shard_of(choices: &[usize], n: usize) -> usize {
    let mut h: u64 = 0xcbf29ce484222325;
    for c in choices {
        h ^= *c as u64 + 1;
        h = h.wrapping_mul(0x100000001b3);
    }
    (h % n as u64) as usize
}

const SHARD_DEPTH: usize = 3;

pub fn explore<W: World>(mk: &dyn Fn() -> W, prop: &str, bounds: &Bounds) -> Stats {
    let mut stats = Stats::default();
    let t0 = std::time::Instant::now();
    if bounds.cap_s == 0 {
        let mut seen: HashMap<u64, usize> = HashMap::new();
        let mut prefix = Vec::new();
        dfs(mk, prop, bounds, &mut stats, &mut seen, &mut prefix, 0, t0);
        return stats;
    }
    // Under a wall cap the depth is iterated, so that what was covered when the
    // cap hits is a completed depth bound and not a fragment of the deepest one.
    // (Counts then include the re-exploration of the shallower bounds.)
    let first = bounds.depth.saturating_sub(3).max(1).min(bounds.depth);
    stats.bound_completed = Some(-1);
    for d in first..=bounds.depth {
        let mut b = bounds.clone();
        b.depth = d;
        b.d_all = bounds.d_all.min(d);
        let mut seen: HashMap<u64, usize> = HashMap::new();
        let mut prefix = Vec::new();
        dfs(mk, prop, &b, &mut stats, &mut seen, &mut prefix, 0, t0);
        if stats.capped {
            break;
        }
        stats.bound_completed = Some(d as i64);
    }
    stats
}

#[allow(clippy::too_many_arguments)]
fn dfs<W: World>(
    mk: &dyn Fn() -> W,
    prop: &str,
    b: &Bounds,
    stats: &mut Stats,
    seen: &mut HashMap<u64, usize>,
    prefix: &mut Vec<usize>,
    cost: u32,
    t0: std::time::Instant,
) {
    if b.cap_s > 0 && t0.elapsed().as_secs() >= b.cap_s {
        stats.capped = true;
        return;
    }
    let (si, sn) = b.shard;
    let depth = prefix.len();
    // Ownership: the first SHARD_DEPTH choices decide the shard.
    let owner = shard_of(&prefix[..depth.min(b.shard_depth)], sn);
    if depth >= b.shard_depth && owner != si {
        return;
    }
    crate::breadcrumb::set(prefix);
    let r = exec(mk, prop, prefix);
    assert!(!r.bad_choice, "seqx: choice out of range while replaying a prefix (nondeterministic world?)");
    let mine = owner == si;
    if mine {
        stats.executions += 1;
        stats.transitions += r.transitions;
        stats.states.insert(r.key);
        stats.outcomes.insert(r.observation);
        stats.max_depth = stats.max_depth.max(depth);
        if stats.per_depth.len() <= depth {
            stats.per_depth.resize(depth + 1, 0);
        }
        stats.per_depth[depth] += 1;
        if stats.samples.len() < 3 && depth >= 1 && (depth >= 3 || b.depth <= 2) && (stats.executions % 97 == 3 || stats.executions < 3) {
            stats.samples.push(r.history.clone());
        }
    }
    if !r.violations.is_empty() {
        let found_here = r.violations.clone();
        if mine {
            for v in r.violations {
                if !stats.found.iter().any(|f| f.violation.sig == v.sig && f.violation.prop == v.prop) {
                    stats.found.push(Found { violation: v, choices: prefix.clone(), history: r.history.clone() });
                }
            }
        }
        // Known findings raised only by the end-of-history oracles don't
        // stop the search below this node.
        let known = crate::report::known_list();
        let all_known_at_end = r.end_only && found_here.iter().all(|v| crate::report::is_known(&known, v).is_some());
        if !all_known_at_end {
            return;
        }
    }
    if depth >= b.depth {
        return;
    }
    if b.merge && depth > b.d_all && std::env::var_os("A10MC_NO_MERGE").is_none() {
        let remaining = b.depth - depth;
        // Include the deviation budget left in the key.
        let k = r.key ^ ((b.dev.saturating_sub(cost) as u64).wrapping_mul(0x9E3779B97F4A7C15));
        match seen.get(&k) {
            Some(&rem) if rem >= remaining => {
                stats.pruned += 1;
                return;
            }
            _ => {
                seen.insert(k, remaining);
            }
        }
    }
    for (i, c) in r.enabled.iter().enumerate() {
        if cost + c > b.dev {
            stats.dev_skipped += 1;
            continue;
        }
        prefix.push(i);
        dfs(mk, prop, b, stats, seen, prefix, cost + c, t0);
        prefix.pop();
    }
}
