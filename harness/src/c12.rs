//! C12: teardown in any order is safe and releases everything.
//!
//! The first action picks a scenario (which objects exist, in which state);
//! every later action drops one of the remaining objects. Every permutation
//! safe Rust admits is explored (an operation that borrows the AsyncFd is
//! dropped before it).
#![allow(dead_code)]

use std::task::Context;
use std::time::Duration;

use a10::io::{ReadBuf, ReadBufPool};
use a10::{AsyncFd, Ring, SubmissionQueue};

use crate::abi::*;
use crate::mapwatch::{self, MapEvent};
use crate::ops::{self, Kind, Op, Seen};
use crate::report::Violation;
use crate::seqx::World;
use crate::simk::{self, Out, SyncCancelMode};
use crate::talloc;
use crate::waker::HWaker;

#[derive(Clone, Copy, Debug, PartialEq, Eq)]
pub enum OpState {
    NotStarted,
    /// Polled once: submission queued, not yet seen by the kernel.
    Queued,
    InFlight,
    /// In flight, then dropped; the cancel request is still queued.
    AbandonedCancelQueued,
    /// In flight, then dropped; the cancel request was submitted and lost the race.
    AbandonedCancelLost,
    /// Completed and processed by Ring::poll, result not yet taken.
    FinishedUnpolled,
    /// Multishot: one item processed, more to come.
    MidStream,
}

#[derive(Clone, Debug, PartialEq, Eq)]
pub struct Scenario {
    pub ops: Vec<(Kind, OpState)>,
    pub sq_clone: bool,
    pub direct_fd: bool,
    pub pool: bool,
    pub buf_owned: bool,
    pub buf_fresh: bool,
    pub sync_cancel: SyncCancelMode,
    pub sqpoll: bool,
    /// Submission queue entries.
    pub sq: u32,
    /// Completion queue entries (None: twice the submission queue).
    pub cq: Option<u32>,
    /// Before anything is dropped a further descriptor was closed with `AsyncFd::close()`.
    pub closed_fd: bool,
    /// Before anything is dropped the standard stream handles were created and dropped.
    pub stdio: bool,
}

#[derive(Clone, Copy, Debug, PartialEq, Eq, Hash)]
pub enum Obj {
    Ring,
    SqClone,
    Fd,
    DirectFd,
    Op(usize),
    Pool,
    BufOwned,
    BufFresh,
}

#[derive(Clone, Debug, PartialEq, Eq)]
pub enum Action {
    Pick(usize),
    Drop(Obj),
}

pub struct C12World {
    scenarios: std::rc::Rc<Vec<Scenario>>,
    sc: Option<Scenario>,
    ring: Option<Ring>,
    sq: Option<SubmissionQueue>,
    sq_clone: Option<SubmissionQueue>,
    fd: Option<Box<AsyncFd>>,
    fd_raw: i32,
    direct: Option<AsyncFd>,
    direct_origin: Option<u32>,
    ops: Vec<Option<Op>>,
    op_borrows_fd: Vec<bool>,
    wakers: Vec<HWaker>,
    pool: Option<ReadBufPool>,
    buf_owned: Option<ReadBuf>,
    buf_fresh: Option<ReadBuf>,
    violations: Vec<Violation>,
    dropped: Vec<Obj>,
    ring_dropped_at: Option<usize>,
    /// Number of submissions queued (unsubmitted) right before the Ring was dropped.
    queued_at_ring_drop: Vec<Sqe>,
    /// Property under which memory the kernel finds freed / changed is reported (C12, or C01 when the
    /// world runs under C01: "no matter when ... the Ring itself is dropped").
    memory_label: &'static str,
}

impl C12World {
    pub fn new(scenarios: std::rc::Rc<Vec<Scenario>>) -> C12World {
        C12World::labelled(scenarios, "C12")
    }

    pub fn labelled(scenarios: std::rc::Rc<Vec<Scenario>>, memory_label: &'static str) -> C12World {
        C12World {
            memory_label,
            scenarios,
            sc: None,
            ring: None,
            sq: None,
            sq_clone: None,
            fd: None,
            fd_raw: -1,
            direct: None,
            direct_origin: None,
            ops: Vec::new(),
            op_borrows_fd: Vec::new(),
            wakers: Vec::new(),
            pool: None,
            buf_owned: None,
            buf_fresh: None,
            violations: Vec::new(),
            dropped: Vec::new(),
            ring_dropped_at: None,
            queued_at_ring_drop: Vec::new(),
        }
    }

    fn enter(&mut self) {
        talloc::track(|| {
            let _ = self.ring.as_mut().unwrap().poll(Some(Duration::ZERO));
        });
    }

    fn poll_op(&mut self, i: usize) -> Seen {
        let mut op = self.ops[i].take().unwrap();
        let seen = {
            let mut cx = Context::from_waker(&self.wakers[i].waker);
            op.poll(&mut cx)
        };
        self.ops[i] = Some(op);
        seen
    }

    fn setup(&mut self, sc: Scenario) {
        simk::reset(simk::SetupPlan::default());
        simk::with(|k| k.zc_cancel_notif_immediate = true);
        talloc::set_on_free(Some(simk::on_free));
        let need_table = sc.direct_fd;
        let need_pool = sc.pool || sc.buf_owned || sc.buf_fresh || sc.ops.iter().any(|(k, _)| k.needs_pool());
        talloc::track(|| {
            let mut c = Ring::config().with_submission_queue_size(sc.sq);
            if let Some(cq) = sc.cq {
                c = c.with_completion_queue_size(cq);
            }
            if need_table {
                c = c.with_direct_descriptors(4);
            }
            if sc.sqpoll {
                c = c.with_kernel_thread();
            }
            let ring = c.build().expect("ring");
            let sq = ring.sq();
            self.fd_raw = simk::with(|k| k.new_regular_pub());
            self.fd = Some(Box::new(unsafe { AsyncFd::from_raw_fd(self.fd_raw, sq.clone()) }));
            if sc.sq_clone {
                self.sq_clone = Some(sq.clone());
            }
            if need_pool {
                self.pool = Some(ReadBufPool::new(sq.clone(), 2, 8).expect("pool"));
            }
            self.ring = Some(ring);
            self.sq = Some(sq);
        });
        let fd: &'static AsyncFd = unsafe { &*std::ptr::from_ref::<AsyncFd>(self.fd.as_ref().unwrap()) };
        // Helpers: run an operation to completion.
        if sc.direct_fd {
            let env = ops::Env { sq: self.sq.as_ref().unwrap(), fd, pool: None, nth: 90 };
            let mut op = ops::make(Kind::OpenDirect, &env);
            let w = HWaker::new(90);
            let mut cx = Context::from_waker(&w.waker);
            assert_eq!(op.poll(&mut cx), Seen::Pending);
            self.enter();
            let s = simk::with(|k| k.inflight()[0]);
            simk::with(|k| k.complete(s, Out::Default));
            self.enter();
            assert!(matches!(op.poll(&mut cx), Seen::Ready(_)));
            self.direct = op.held.borrow_mut().pop();
            self.direct_origin = Some(s);
            talloc::track(|| drop(op));
        }
        if sc.stdio {
            let sq = self.sq.as_ref().unwrap().clone();
            talloc::track(|| {
                drop(a10::io::stdin(sq.clone()));
                drop(a10::io::stdout(sq.clone()));
                drop(a10::io::stderr(sq));
            });
        }
        if sc.closed_fd {
            // An explicit close, run to completion: afterwards nothing of that descriptor may be left.
            let raw = simk::with(|k| k.new_regular_pub());
            let extra = talloc::track(|| unsafe { AsyncFd::from_raw_fd(raw, self.sq.as_ref().unwrap().clone()) });
            simk::with(|k| k.hold_user_close = true);
            let mut op = ops::make_close(extra);
            let w = HWaker::new(92);
            let mut cx = Context::from_waker(&w.waker);
            assert_eq!(op.poll(&mut cx), Seen::Pending);
            self.enter();
            let s = simk::with(|k| *k.inflight().last().unwrap());
            simk::with(|k| k.complete(s, Out::Default));
            self.enter();
            assert!(matches!(op.poll(&mut cx), Seen::Ready(_)));
            simk::with(|k| k.hold_user_close = false);
            talloc::track(|| drop(op));
        }
        if sc.buf_owned {
            let env = ops::Env { sq: self.sq.as_ref().unwrap(), fd, pool: self.pool.as_ref(), nth: 91 };
            let mut op = ops::make(Kind::ReadPool, &env);
            let w = HWaker::new(91);
            let mut cx = Context::from_waker(&w.waker);
            assert_eq!(op.poll(&mut cx), Seen::Pending);
            self.enter();
            let s = simk::with(|k| k.inflight()[0]);
            simk::with(|k| k.complete(s, Out::Res(3)));
            self.enter();
            assert!(matches!(op.poll(&mut cx), Seen::Ready(_)));
            self.buf_owned = op.bufs.borrow_mut().pop();
            talloc::track(|| drop(op));
        }
        if sc.buf_fresh {
            self.buf_fresh = Some(talloc::track(|| self.pool.as_ref().unwrap().get()));
        }
        if !sc.pool {
            // The scenario has no pool handle of its own: only buffers / operations keep it alive.
            let p = self.pool.take();
            talloc::track(|| drop(p));
        }
        let pool_for_ops = self.pool.clone();
        for (i, (kind, state)) in sc.ops.iter().enumerate() {
            let tmp_pool;
            let pool_ref = if kind.needs_pool() {
                match &pool_for_ops {
                    Some(p) => Some(p),
                    None => {
                        tmp_pool = talloc::track(|| ReadBufPool::new(self.sq.as_ref().unwrap().clone(), 2, 8).expect("pool"));
                        Some(&tmp_pool)
                    }
                }
            } else {
                None
            };
            let env = ops::Env { sq: self.sq.as_ref().unwrap(), fd, pool: pool_ref, nth: i };
            let op = ops::make(*kind, &env);
            self.ops.push(Some(op));
            self.op_borrows_fd.push(!matches!(kind, Kind::OpenFile | Kind::OpenDirect | Kind::Socket | Kind::SocketDirect | Kind::Pipe | Kind::PipeDirect | Kind::CreateDir | Kind::Rename | Kind::RemoveFile | Kind::WaitId));
            self.wakers.push(HWaker::new(i as u32 + 1));
            match state {
                OpState::NotStarted => {}
                OpState::Queued => {
                    assert_eq!(self.poll_op(i), Seen::Pending);
                }
                OpState::InFlight | OpState::AbandonedCancelQueued | OpState::AbandonedCancelLost | OpState::FinishedUnpolled | OpState::MidStream => {
                    assert_eq!(self.poll_op(i), Seen::Pending);
                    self.enter();
                    let ud = simk::with(|k| k.reqs.last().unwrap().user_data);
                    match state {
                        OpState::AbandonedCancelQueued => {
                            let op = self.ops[i].take();
                            talloc::track(|| drop(op));
                        }
                        OpState::AbandonedCancelLost => {
                            simk::with(|k| {
                                k.cancel_policy.insert(ud, simk::CancelMode::Lose);
                            });
                            let op = self.ops[i].take();
                            talloc::track(|| drop(op));
                            self.enter();
                        }
                        OpState::FinishedUnpolled => {
                            let s = simk::with(|k| k.inflight_by_ud(ud).unwrap());
                            simk::with(|k| k.complete(s, Out::Default));
                            if simk::with(|k| k.req(s).awaiting_notif) {
                                simk::with(|k| k.complete(s, Out::Notif));
                            }
                            self.enter();
                        }
                        OpState::MidStream => {
                            let s = simk::with(|k| k.inflight_by_ud(ud).unwrap());
                            simk::with(|k| k.complete(s, Out::More(i32::MIN)));
                            self.enter();
                        }
                        _ => {}
                    }
                }
            }
        }
        simk::with(|k| k.sync_cancel = sc.sync_cancel);
        if sc.sqpoll {
            // The kernel thread consumes what is queued whenever a10 enters.
        }
        self.sc = Some(sc);
        self.absorb();
    }

    fn absorb(&mut self) {
        for (class, msg) in simk::with(|k| std::mem::take(&mut k.violations)) {
            let class = format!("memory/{class}");
            self.violations.push(Violation::new(self.memory_label, &class, &msg));
        }
    }

    fn live(&self) -> Vec<Obj> {
        let mut v = Vec::new();
        for i in 0..self.ops.len() {
            if self.ops[i].is_some() {
                v.push(Obj::Op(i));
            }
        }
        if self.buf_owned.is_some() {
            v.push(Obj::BufOwned);
        }
        if self.buf_fresh.is_some() {
            v.push(Obj::BufFresh);
        }
        if self.pool.is_some() {
            v.push(Obj::Pool);
        }
        if self.direct.is_some() {
            v.push(Obj::DirectFd);
        }
        let borrowed = (0..self.ops.len()).any(|i| self.ops[i].is_some() && self.op_borrows_fd[i]);
        if self.fd.is_some() && !borrowed {
            v.push(Obj::Fd);
        }
        if self.sq_clone.is_some() {
            v.push(Obj::SqClone);
        }
        if self.ring.is_some() {
            v.push(Obj::Ring);
        }
        v
    }

    fn drop_obj(&mut self, o: Obj) {
        self.dropped.push(o);
        match o {
            Obj::Ring => {
                self.ring_dropped_at = Some(self.dropped.len());
                self.queued_at_ring_drop = simk::with(|k| {
                    let r = &k.rings[0];
                    let (h, t) = (r.sq_head(), r.sq_tail());
                    (0..t.wrapping_sub(h).min(r.sq_entries)).map(|j| unsafe { *r.sqe_slot(h.wrapping_add(j)) }).collect()
                });
                let ring = self.ring.take();
                // The Ring's own queue handle goes with it.
                let sq = self.sq.take();
                talloc::track(|| {
                    drop(sq);
                    drop(ring);
                });
            }
            Obj::SqClone => {
                let x = self.sq_clone.take();
                talloc::track(|| drop(x));
            }
            Obj::Fd => {
                let x = self.fd.take();
                talloc::track(|| drop(x));
            }
            Obj::DirectFd => {
                let x = self.direct.take();
                talloc::track(|| drop(x));
            }
            Obj::Op(i) => {
                let x = self.ops[i].take();
                talloc::track(|| drop(x));
            }
            Obj::Pool => {
                let x = self.pool.take();
                talloc::track(|| drop(x));
            }
            Obj::BufOwned => {
                let x = self.buf_owned.take();
                talloc::track(|| drop(x));
            }
            Obj::BufFresh => {
                let x = self.buf_fresh.take();
                talloc::track(|| drop(x));
            }
        }
        self.absorb();
    }

    fn v(&mut self, sig: &str, msg: String) {
        let sc = self.sc.clone();
        self.violations.push(Violation::new("C12", sig, &format!("{msg} [scenario {sc:?}; drop order {:?}]", self.dropped)));
    }

    /// Was object `o` dropped after the Ring?
    fn after_ring(&self, o: Obj) -> bool {
        match (self.dropped.iter().position(|x| *x == Obj::Ring), self.dropped.iter().position(|x| *x == o)) {
            (Some(r), Some(p)) => p > r,
            _ => false,
        }
    }

    fn end_checks(&mut self) {
        let sc = self.sc.clone().unwrap();
        // If the kernel fails to cancel what is running, a10 can't reclaim it:
        // only safety (no crash, no use-after-free, no double free/close/unmap)
        // is judged in those scenarios.
        let kernel_cancels = sc.sync_cancel == SyncCancelMode::All;
        // Mapping balance.
        let events = mapwatch::events();
        let mmaps: Vec<&MapEvent> = events.iter().filter(|e| matches!(e, MapEvent::Mmap { failed: false, .. })).collect();
        let unmaps: Vec<&MapEvent> = events.iter().filter(|e| matches!(e, MapEvent::Munmap { .. })).collect();
        let left = mapwatch::mappings();
        if !left.is_empty() && kernel_cancels {
            self.v("mapping-leaked", format!("{} ring mapping(s) still mapped after every handle was dropped: {left:?}", left.len()));
        }
        if unmaps.len() > mmaps.len() {
            self.v("unmapped-twice", format!("{} munmap calls for {} mappings", unmaps.len(), mmaps.len()));
        }
        for u in &unmaps {
            if let MapEvent::Munmap { exact: false, addr, len, .. } = u {
                self.v("unmap-wrong-range", format!("munmap({addr:#x}, {len}) does not match the mapping it hits"));
            }
        }
        // The ring fd is closed after the mappings are gone.
        let close_pos = events.iter().position(|e| matches!(e, MapEvent::CloseRing { .. }));
        let last_unmap = events.iter().rposition(|e| matches!(e, MapEvent::Munmap { .. }));
        match (close_pos, last_unmap) {
            (None, _) if kernel_cancels => self.v("ring-fd-leaked", "the ring descriptor was never closed".into()),
            (None, _) => {}
            (Some(c), Some(u)) if c < u => self.v("ring-fd-closed-early", "the ring descriptor was closed before its mappings were unmapped".into()),
            _ => {}
        }
        // Clean-up requests queued when the Ring was dropped must have been submitted.
        let consumed: Vec<Sqe> = simk::with(|k| k.log.iter().filter_map(|e| if let simk::Event::Consumed { sqe, .. } = e { Some(*sqe) } else { None }).collect());
        for q in self.queued_at_ring_drop.clone() {
            if !consumed.contains(&q) {
                self.v(&format!("queued-not-submitted/{}", opcode_name(q.opcode())), format!("a {} request queued before the Ring was dropped was never submitted", opcode_name(q.opcode())));
            }
        }
        // Descriptors.
        let descs = simk::with(|k| {
            k.sync_closes();
            k.descs.clone()
        });
        for d in &descs {
            if d.open && kernel_cancels {
                if d.origin != 0 && !matches!(d.kind, simk::DescKind::Fixed { .. } if Some(d.origin) == self.direct_origin) {
                    // Returned by the kernel for one of the scenario's operations
                    // whose result was never taken.
                    let opname = simk::with(|k| k.reqs.iter().find(|r| r.serial == d.origin).map(|r| opcode_name(r.opcode)).unwrap_or("?"));
                    self.v(&format!("unclosed/returned-to-dropped-op:{opname}"), format!("descriptor {:?} returned for an operation that was dropped without taking its result was never closed", d.kind));
                    continue;
                }
                let (what, obj) = match d.kind {
                    simk::DescKind::Regular(_) => ("regular", Obj::Fd),
                    simk::DescKind::Fixed { .. } => ("direct", Obj::DirectFd),
                };
                let when = if self.after_ring(obj) { "dropped-after-ring" } else { "dropped-before-ring" };
                self.v(&format!("unclosed/{what}/{when}"), format!("descriptor {:?} was never closed", d.kind));
            }
            if d.closes.len() > 1 {
                self.v("closed-twice", format!("descriptor {:?} closed {} times ({:?})", d.kind, d.closes.len(), d.closes));
            }
        }
        let _ = sc;
    }
}

impl World for C12World {
    type Action = Action;

    fn enabled(&mut self) -> Vec<(Action, u32)> {
        if self.sc.is_none() {
            return (0..self.scenarios.len()).map(|i| (Action::Pick(i), 0)).collect();
        }
        self.live().into_iter().map(|o| (Action::Drop(o), 0)).collect()
    }

    fn apply(&mut self, a: &Action) {
        match a {
            Action::Pick(i) => {
                let sc = self.scenarios[*i].clone();
                self.setup(sc);
            }
            Action::Drop(o) => self.drop_obj(*o),
        }
    }

    fn take_violations(&mut self) -> Vec<Violation> {
        std::mem::take(&mut self.violations)
    }

    fn key(&mut self) -> u64 {
        crate::report::hash_str(&format!("{:?}{:?}", self.sc, self.dropped))
    }

    fn observation(&self) -> u64 {
        crate::report::hash_str(&format!("{:?}", self.dropped))
    }

    fn finish(self) -> Vec<Violation> {
        let mut this = std::mem::ManuallyDrop::new(self);
        if this.sc.is_none() {
            return Vec::new();
        }
        // Drop what is left in a fixed order (Ring last).
        loop {
            let live = this.live();
            let Some(o) = live.first().copied() else { break };
            this.drop_obj(o);
            if !this.violations.is_empty() {
                simk::shutdown();
                talloc::disarm();
                return std::mem::take(&mut this.violations);
            }
        }
        this.end_checks();
        let abandoned: Vec<String> = this
            .sc
            .as_ref()
            .unwrap()
            .ops
            .iter()
            .enumerate()
            .filter(|(i, _)| this.after_ring(Obj::Op(*i)))
            .map(|(_, (k, s))| format!("{k:?}:{s:?}"))
            .collect();
        simk::shutdown();
        let rep = talloc::disarm();
        if rep.double_frees > 0 {
            this.v("double-free", format!("{} double free(s)", rep.double_frees));
        }
        let kernel_cancels = this.sc.as_ref().unwrap().sync_cancel == SyncCancelMode::All;
        if !rep.leaked.is_empty() && kernel_cancels {
            let total: usize = rep.leaked.iter().map(|b| b.size).sum();
            let class = if abandoned.is_empty() {
                if this.after_ring(Obj::BufOwned) || this.after_ring(Obj::BufFresh) || this.after_ring(Obj::Pool) {
                    "pool-object-dropped-after-ring".to_string()
                } else if this.after_ring(Obj::Fd) || this.after_ring(Obj::DirectFd) {
                    "fd-dropped-after-ring".to_string()
                } else {
                    "everything-dropped-before-ring".to_string()
                }
            } else {
                format!("op-dropped-after-ring:{}", abandoned[0])
            };
            this.v(&format!("leak/{class}"), format!("{} block(s), {total} bytes still allocated after every object was dropped", rep.leaked.len()));
        }
        std::mem::take(&mut this.violations)
    }
}

pub fn scenarios(quick: bool) -> Vec<Scenario> {
    use Kind::*;
    use OpState::*;
    let mut v = Vec::new();
    let base = Scenario { ops: vec![], sq_clone: false, direct_fd: false, pool: false, buf_owned: false, buf_fresh: false, sync_cancel: SyncCancelMode::All, sqpoll: false, sq: 8, cq: None, closed_fd: false, stdio: false };
    // One operation in every state, with and without the other object kinds.
    let single: Vec<(Kind, OpState)> = vec![
        (ReadVec, NotStarted),
        (ReadVec, Queued),
        (ReadVec, InFlight),
        (ReadVec, AbandonedCancelQueued),
        (ReadVec, AbandonedCancelLost),
        (ReadVec, FinishedUnpolled),
        (SendZc, InFlight),
        (SendZc, FinishedUnpolled),
        (MultishotRead, InFlight),
        (MultishotRead, MidStream),
        (MultishotAccept, MidStream),
        (OpenFile, Queued),
        (OpenFile, InFlight),
        (OpenFile, FinishedUnpolled),
        (RecvFrom, InFlight),
        (WriteVectored2, Queued),
    ];
    for op in &single {
        v.push(Scenario { ops: vec![*op], ..base.clone() });
        v.push(Scenario { ops: vec![*op], sq_clone: true, direct_fd: true, ..base.clone() });
        if !quick {
            v.push(Scenario { ops: vec![*op], sqpoll: true, ..base.clone() });
        }
        for mode in [SyncCancelMode::Fail(libc::EINVAL), SyncCancelMode::Nothing] {
            if matches!(op.1, InFlight | Queued | MidStream | AbandonedCancelQueued) {
                v.push(Scenario { ops: vec![*op], sync_cancel: mode, ..base.clone() });
            }
        }
    }
    // Small queues: what is queued at the time of the drops fills (or overfills) the queue.
    for op in &single {
        if matches!(op.1, NotStarted) {
            continue;
        }
        for sq in [1u32, 2] {
            v.push(Scenario { ops: vec![*op], sq, direct_fd: true, ..base.clone() });
            if !quick {
                v.push(Scenario { ops: vec![*op], sq, sq_clone: true, ..base.clone() });
            }
        }
    }
    // Standard stream handles used (and dropped) on the ring.
    v.push(Scenario { stdio: true, ..base.clone() });
    v.push(Scenario { ops: vec![(WriteVec, Queued)], stdio: true, direct_fd: true, ..base.clone() });
    // A descriptor closed explicitly before the teardown.
    v.push(Scenario { closed_fd: true, ..base.clone() });
    v.push(Scenario { ops: vec![(ReadVec, InFlight)], closed_fd: true, sq_clone: true, ..base.clone() });
    // A completion queue so small that what the final cancellation produces overflows it.
    for ops in [vec![(ReadVec, InFlight), (WriteVec, InFlight), (RecvFrom, InFlight)], vec![(ReadVec, InFlight), (SendZc, InFlight)], vec![(ReadVec, AbandonedCancelLost), (WriteVec, InFlight), (MultishotRead, MidStream)]] {
        v.push(Scenario { ops: ops.clone(), sq: 2, cq: Some(2), ..base.clone() });
        if !quick {
            v.push(Scenario { ops: ops.clone(), sq: 1, cq: Some(2), ..base.clone() });
            v.push(Scenario { ops, sq: 2, cq: Some(2), direct_fd: true, ..base.clone() });
        }
    }
    // Pool objects.
    v.push(Scenario { pool: true, ..base.clone() });
    v.push(Scenario { pool: true, buf_owned: true, buf_fresh: true, ..base.clone() });
    v.push(Scenario { buf_owned: true, ..base.clone() });
    v.push(Scenario { buf_fresh: true, sq_clone: true, ..base.clone() });
    v.push(Scenario { ops: vec![(MultishotRead, MidStream)], pool: true, buf_owned: true, ..base.clone() });
    v.push(Scenario { ops: vec![(ReadPool, InFlight)], pool: true, ..base.clone() });
    // Two operations.
    for (a, b) in [
        ((ReadVec, InFlight), (WriteVec, Queued)),
        ((ReadVec, AbandonedCancelQueued), (SendZc, InFlight)),
        ((MultishotRead, MidStream), (ReadVec, FinishedUnpolled)),
        ((OpenFile, InFlight), (ReadVec, NotStarted)),
    ] {
        v.push(Scenario { ops: vec![a, b], ..base.clone() });
        if !quick {
            v.push(Scenario { ops: vec![a, b], direct_fd: true, pool: true, ..base.clone() });
        }
    }
    if !quick {
        v.push(Scenario { ops: vec![(ReadVec, InFlight), (WriteVec, Queued), (MultishotRead, MidStream)], sq_clone: true, ..base.clone() });
        // Every pair of operation states, on a roomy and on a two-entry queue.
        let pairs: Vec<(Kind, OpState)> = vec![
            (ReadVec, Queued),
            (ReadVec, InFlight),
            (ReadVec, AbandonedCancelQueued),
            (ReadVec, AbandonedCancelLost),
            (ReadVec, FinishedUnpolled),
            (SendZc, InFlight),
            (MultishotRead, MidStream),
            (MultishotAccept, MidStream),
            (OpenFile, InFlight),
            (ReadPool, InFlight),
        ];
        for (i, a) in pairs.iter().enumerate() {
            for b in &pairs[i..] {
                v.push(Scenario { ops: vec![*a, *b], ..base.clone() });
                v.push(Scenario { ops: vec![*a, *b], sq: 2, direct_fd: true, ..base.clone() });
            }
        }
        // Three operations plus every other kind of object.
        v.push(Scenario { ops: vec![(ReadVec, InFlight), (SendZc, InFlight), (MultishotRead, MidStream)], sq_clone: true, direct_fd: true, pool: true, buf_owned: true, ..base.clone() });
    }
    v
}
