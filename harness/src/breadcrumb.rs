//! Breadcrumb: the history a worker is about to run, in a shared mapping, so
//! that the driver can pick it up if the worker dies.
#![allow(dead_code)]

use std::sync::atomic::{AtomicPtr, Ordering};

const SIZE: usize = 4096;
static PTR: AtomicPtr<u8> = AtomicPtr::new(std::ptr::null_mut());

pub fn init(path: &str) {
    let c = std::ffi::CString::new(path).unwrap();
    unsafe {
        let fd = libc::open(c.as_ptr(), libc::O_RDWR | libc::O_CREAT | libc::O_TRUNC | libc::O_CLOEXEC, 0o644);
        assert!(fd >= 0, "breadcrumb: can't open {path}");
        assert!(libc::ftruncate(fd, SIZE as i64) == 0);
        let p = libc::syscall(libc::SYS_mmap, 0usize, SIZE, libc::PROT_READ | libc::PROT_WRITE, libc::MAP_SHARED, fd, 0usize);
        assert!(p != -1);
        libc::syscall(libc::SYS_close, fd);
        PTR.store(p as *mut u8, Ordering::SeqCst);
    }
}

/// Record `choices` (as text) plus an optional tag.
pub fn set(choices: &[usize]) {
    set_tagged("", choices);
}

pub fn set_tagged(tag: &str, choices: &[usize]) {
    let p = PTR.load(Ordering::Relaxed);
    if p.is_null() {
        return;
    }
    let mut buf = [0u8; SIZE];
    let mut n = 0;
    for b in tag.bytes() {
        if n < SIZE - 2 {
            buf[n] = b;
            n += 1;
        }
    }
    buf[n] = b'|';
    n += 1;
    for c in choices {
        let s = itoa(*c);
        for b in s.iter().take_while(|b| **b != 0) {
            if n < SIZE - 2 {
                buf[n] = *b;
                n += 1;
            }
        }
        if n < SIZE - 2 {
            buf[n] = b',';
            n += 1;
        }
    }
    buf[n] = b'\n';
    unsafe { std::ptr::copy_nonoverlapping(buf.as_ptr(), p, n + 1) };
}

fn itoa(mut v: usize) -> [u8; 24] {
    let mut tmp = [0u8; 24];
    let mut i = 0;
    if v == 0 {
        tmp[0] = b'0';
        return tmp;
    }
    let mut digits = [0u8; 24];
    while v > 0 {
        digits[i] = b'0' + (v % 10) as u8;
        v /= 10;
        i += 1;
    }
    for j in 0..i {
        tmp[j] = digits[i - 1 - j];
    }
    tmp
}

/// Parse a breadcrumb file: (tag, choices).
pub fn read(path: &str) -> Option<(String, Vec<usize>)> {
    let data = std::fs::read(path).ok()?;
    let end = data.iter().position(|b| *b == b'\n')?;
    let line = std::str::from_utf8(&data[..end]).ok()?;
    let (tag, rest) = line.split_once('|')?;
    let choices = rest.split(',').filter(|s| !s.is_empty()).filter_map(|s| s.parse().ok()).collect();
    Some((tag.to_string(), choices))
}
