//! C15: ReadBuf edits behave as a capacity-bounded byte vector confined to its slot.
#![allow(dead_code)]

use std::ops::Bound;
use std::task::Context;
use std::time::Duration;

use a10::io::{ReadBuf, ReadBufPool};
use a10::{AsyncFd, Ring, SubmissionQueue};

use crate::abi::*;
use crate::ops::{self, Kind, Seen};
use crate::report::Violation;
use crate::seqx::World;
use crate::simk::{self, Out};
use crate::talloc;
use crate::waker::HWaker;

const POOL: u16 = 4;
const MAXV: usize = usize::MAX;

#[derive(Clone, Debug, PartialEq, Eq)]
pub struct Case {
    pub buf_size: u32,
    pub fill: usize,
    pub slot: u16,
}

#[derive(Clone, Copy, Debug, PartialEq, Eq)]
pub enum Edit {
    Truncate(usize),
    Clear,
    /// remove((start bound, end bound)): 0 = unbounded, 1 = included, 2 = excluded.
    Remove(u8, usize, u8, usize),
    SetLen(usize),
    Extend(usize),
    /// Write through spare_capacity_mut, then set_len(len + n).
    SpareWrite(usize),
    /// Another kernel read into the buffer, delivering n bytes.
    ReadMore(usize),
    /// The same through another operation: 0 recv, 1 recv_from, 2 read_vectored([buf]), 3 recv_vectored([buf]).
    ReadMoreVia(u8, usize),
    /// Overwrite the content through as_mut_slice.
    Scribble,
    /// Use the buffer as the source of a write: the kernel must read exactly the held bytes.
    WriteOut,
}

#[derive(Clone, Debug, PartialEq, Eq)]
pub enum Action {
    Pick(usize),
    Do(Edit),
}

pub struct C15World {
    cases: std::rc::Rc<Vec<Case>>,
    case: Option<Case>,
    ring: Option<Ring>,
    sq: Option<SubmissionQueue>,
    fd: Option<&'static AsyncFd>,
    pool: Option<ReadBufPool>,
    buf: Option<ReadBuf>,
    /// Reference model.
    model: Vec<u8>,
    /// Other buffers held so that the wanted slot could be selected.
    parked: Vec<ReadBuf>,
    slab: (usize, usize),
    slot_addr: usize,
    violations: Vec<Violation>,
    counter: u8,
}

fn bound(kind: u8, v: usize) -> Bound<usize> {
    match kind {
        0 => Bound::Unbounded,
        1 => Bound::Included(v),
        _ => Bound::Excluded(v),
    }
}

impl C15World {
    pub fn new(cases: std::rc::Rc<Vec<Case>>) -> C15World {
        C15World {
            cases,
            case: None,
            ring: None,
            sq: None,
            fd: None,
            pool: None,
            buf: None,
            model: Vec::new(),
            parked: Vec::new(),
            slab: (0, 0),
            slot_addr: 0,
            violations: Vec::new(),
            counter: 0,
        }
    }

    fn bad(&mut self, sig: &str, msg: String) {
        let c = self.case.clone();
        self.violations.push(Violation::new("C15", sig, &format!("{msg} [case {c:?}]")));
    }

    fn enter(&mut self) {
        talloc::track(|| {
            let _ = self.ring.as_mut().unwrap().poll(Some(Duration::ZERO));
        });
    }

    fn read_pool(&mut self, n: usize) -> ReadBuf {
        let env = ops::Env { sq: self.sq.as_ref().unwrap(), fd: self.fd.unwrap(), pool: self.pool.as_ref(), nth: 0 };
        let mut op = ops::make(Kind::ReadPool, &env);
        let w = HWaker::new(1);
        let mut cx = Context::from_waker(&w.waker);
        assert_eq!(op.poll(&mut cx), Seen::Pending);
        self.enter();
        let s = simk::with(|k| *k.inflight().last().unwrap());
        simk::with(|k| k.complete(s, Out::Res(n as i32)));
        self.enter();
        assert!(matches!(op.poll(&mut cx), Seen::Ready(_)));
        let b = op.bufs.borrow_mut().pop().unwrap();
        talloc::track(|| drop(op));
        b
    }

    fn setup(&mut self, c: Case) {
        simk::reset(simk::SetupPlan::default());
        talloc::set_on_free(Some(simk::on_free));
        talloc::track(|| {
            let ring = Ring::config().with_submission_queue_size(4).build().expect("ring");
            let sq = ring.sq();
            let raw = simk::with(|k| k.new_regular_pub());
            let fd: &'static AsyncFd = Box::leak(Box::new(unsafe { AsyncFd::from_raw_fd(raw, sq.clone()) }));
            self.pool = Some(ReadBufPool::new(sq.clone(), POOL, c.buf_size).expect("pool"));
            self.ring = Some(ring);
            self.sq = Some(sq);
            self.fd = Some(fd);
        });
        // Slab bounds and canary.
        let bufs: Vec<(usize, u32)> = simk::with(|k| {
            let pb = &k.rings[0].pbufs[0];
            (0..pb.entries as usize).map(|i| unsafe { std::ptr::read_volatile((pb.addr + i * 16) as *const BufRingEntry) }).map(|e| (e.addr as usize, e.len)).collect()
        });
        let base = bufs.iter().map(|b| b.0).min().unwrap();
        self.slab = (base, POOL as usize * c.buf_size as usize);
        for i in 0..self.slab.1 {
            unsafe { ((base + i) as *mut u8).write_volatile(0xC0 | (i as u8 & 0x0f)) };
        }
        // The kernel hands out buffers in ring order: park the ones before the wanted slot.
        for _ in 0..c.slot {
            let b = self.read_pool(0);
            self.parked.push(b);
        }
        let b = self.read_pool(c.fill);
        self.slot_addr = b.as_ptr() as usize;
        let want_addr = base + c.slot as usize * c.buf_size as usize;
        if self.slot_addr != want_addr {
            self.bad("wrong-slot", format!("buffer for slot {} is at {:#x}, expected {want_addr:#x}", c.slot, self.slot_addr));
        }
        self.model = b.to_vec();
        self.buf = Some(b);
        self.case = Some(c);
        // Re-canary the parked slots (the kernel wrote nothing there, but be exact).
        self.check("setup");
    }

    /// Compare the ReadBuf with the model and the rest of the slab with the canary.
    fn check(&mut self, what: &str) {
        let c = self.case.clone().unwrap_or(Case { buf_size: 0, fill: 0, slot: 0 });
        let Some(b) = self.buf.as_ref() else { return };
        let got = b.to_vec();
        let (len, cap, empty) = (b.len(), b.capacity(), b.is_empty());
        let ptr = b.as_ptr() as usize;
        let view_wrong: Option<String> = {
            // Every read-only view is the same bytes at the same place.
            use std::borrow::Borrow;
            let views: [(&str, &[u8]); 4] = [("as_slice", b.as_slice()), ("AsRef", AsRef::<[u8]>::as_ref(b)), ("Borrow", Borrow::<[u8]>::borrow(b)), ("Deref", &b[..])];
            let mut wrong = None;
            for (name, v) in views {
                if v != &got[..] || (!v.is_empty() && v.as_ptr() as usize != ptr) {
                    wrong = Some(format!("after {what}: the {name} view shows {v:02x?} at {:#x}, the buffer holds {got:02x?} at {ptr:#x}", v.as_ptr() as usize));
                    break;
                }
            }
            // As a read target (BufMut): the spare part of the slot.
            let sc = a10::io::BufMut::spare_capacity(b) as usize;
            let hs = a10::io::BufMut::has_spare_capacity(b);
            if sc != cap - got.len().min(cap) || hs != (sc > 0) {
                wrong = Some(format!("after {what}: BufMut::spare_capacity()={sc} has_spare_capacity()={hs}, capacity {cap} - len {}", got.len()));
            }
            // As a write source (Buf): exactly the held bytes.
            let (pp, pl) = unsafe { a10::io::Buf::parts(b) };
            if pl as usize != got.len() || (pl > 0 && pp as usize != ptr) || a10::io::Buf::len(b) != got.len() || a10::io::Buf::is_empty(b) != got.is_empty() {
                wrong = Some(format!("after {what}: Buf::parts() = ({:#x}, {pl}), len()={}, the buffer holds {} bytes at {ptr:#x}", pp as usize, a10::io::Buf::len(b), got.len()));
            }
            wrong
        };
        if got != self.model {
            let (m, g) = (format!("{:02x?}", self.model), format!("{got:02x?}"));
            self.bad("content-differs", format!("after {what}: ReadBuf holds {g}, a byte vector would hold {m}"));
        }
        if len != self.model.len() || empty != self.model.is_empty() || cap != c.buf_size as usize {
            self.bad("len-differs", format!("after {what}: len={len} is_empty={empty} capacity={cap}, vector len {} capacity {}", self.model.len(), c.buf_size));
        }
        if ptr != self.slot_addr && c.buf_size != 0 {
            self.bad("moved", format!("after {what}: the buffer moved from {:#x} to {ptr:#x}", self.slot_addr));
        }
        if let Some(m) = view_wrong {
            self.bad("view-differs", m);
        }
        // Outside the slot nothing may change.
        let (base, size) = self.slab;
        let slot_lo = self.slot_addr - base;
        let slot_hi = slot_lo + c.buf_size as usize;
        for i in 0..size {
            if i >= slot_lo && i < slot_hi {
                continue;
            }
            let v = unsafe { ((base + i) as *const u8).read_volatile() };
            if v != 0xC0 | (i as u8 & 0x0f) {
                self.bad("wrote-outside-slot", format!("after {what}: byte {i} of the pool (outside slot [{slot_lo},{slot_hi})) changed to {v:#x}"));
                break;
            }
        }
    }

    fn next_byte(&mut self) -> u8 {
        self.counter = self.counter.wrapping_add(1);
        0x30 + (self.counter & 0x3f)
    }

    fn edit(&mut self, e: Edit) {
        let cap = self.case.as_ref().unwrap().buf_size as usize;
        let mut b = self.buf.take().unwrap();
        let what = format!("{e:?}");
        match e {
            Edit::Truncate(k) => {
                b.truncate(k);
                self.model.truncate(k);
            }
            Edit::Clear => {
                b.clear();
                self.model.clear();
            }
            Edit::Remove(sk, sv, ek, ev) => {
                let range = (bound(sk, sv), bound(ek, ev));
                let mut m = self.model.clone();
                let model_panics = std::panic::catch_unwind(std::panic::AssertUnwindSafe(|| {
                    m.drain(range);
                }))
                .is_err();
                crate::seqx::take_panic();
                let got_panics = std::panic::catch_unwind(std::panic::AssertUnwindSafe(|| {
                    b.remove(range);
                }))
                .is_err();
                crate::seqx::take_panic();
                if model_panics != got_panics {
                    let msg = if model_panics {
                        format!("remove({range:?}) on a buffer of {} bytes was accepted, a byte vector rejects that range", self.model.len())
                    } else {
                        format!("remove({range:?}) on a buffer of {} bytes panicked, a byte vector accepts that range", self.model.len())
                    };
                    let sig = if model_panics { "invalid-range-accepted" } else { "valid-range-rejected" };
                    self.buf = Some(b);
                    self.bad(sig, msg);
                    self.check(&what);
                    return;
                }
                if !model_panics {
                    self.model = m;
                }
            }
            Edit::SetLen(k) => {
                // Safety contract: k <= capacity and the bytes are initialised
                // (the slab is fully initialised with the canary / earlier data).
                let old = self.model.len();
                unsafe { b.set_len(k) };
                if k <= old {
                    self.model.truncate(k);
                } else {
                    // Newly exposed bytes: whatever the slot holds.
                    let extra: Vec<u8> = (old..k).map(|i| unsafe { ((self.slot_addr + i) as *const u8).read_volatile() }).collect();
                    self.model.extend_from_slice(&extra);
                }
            }
            Edit::Extend(n) => {
                let data: Vec<u8> = (0..n).map(|_| self.next_byte()).collect();
                let r = b.extend_from_slice(&data);
                let fits = self.model.len() + n <= cap;
                if fits != r.is_ok() {
                    self.buf = Some(b);
                    self.bad("extend-capacity", format!("extend_from_slice of {n} bytes onto {} bytes (capacity {cap}) returned {r:?}", self.model.len()));
                    return;
                }
                if fits {
                    self.model.extend_from_slice(&data);
                }
            }
            Edit::SpareWrite(n) => {
                let spare = b.spare_capacity_mut();
                let want_spare = cap - self.model.len();
                if spare.len() != want_spare {
                    let sl = spare.len();
                    self.buf = Some(b);
                    self.bad("spare-capacity", format!("spare_capacity_mut has {sl} bytes, capacity {cap} - len {} = {want_spare}", self.model.len()));
                    return;
                }
                let n = n.min(want_spare);
                let mut data = Vec::new();
                for i in 0..n {
                    self.counter = self.counter.wrapping_add(1);
                    let v = 0x70 + (self.counter & 0x0f);
                    b.spare_capacity_mut()[i].write(v);
                    data.push(v);
                }
                let new_len = self.model.len() + n;
                unsafe { b.set_len(new_len) };
                self.model.extend_from_slice(&data);
            }
            Edit::ReadMore(_) | Edit::ReadMoreVia(..) => {
                let (via, n) = match e {
                    Edit::ReadMore(n) => (255u8, n),
                    Edit::ReadMoreVia(v, n) => (v, n),
                    _ => unreachable!(),
                };
                let spare = cap - self.model.len();
                let n = n.min(spare);
                let fd = self.fd.unwrap();
                use std::future::Future;
                use std::pin::Pin;
                type Fut = Pin<Box<dyn Future<Output = std::io::Result<ReadBuf>>>>;
                let mut fut: Fut = talloc::track(|| -> Fut {
                    match via {
                        0 => Box::pin(fd.recv(b)),
                        1 => Box::pin(async move { fd.recv_from::<_, std::net::SocketAddr>(b).await.map(|(b, _, _)| b) }),
                        2 => Box::pin(async move { fd.read_vectored([b]).await.map(|[b]| b) }),
                        3 => Box::pin(async move { fd.recv_vectored([b]).await.map(|([b], _)| b) }),
                        _ => Box::pin(fd.read(b)),
                    }
                });
                let w = HWaker::new(9);
                let mut cx = Context::from_waker(&w.waker);
                let first = talloc::track(|| fut.as_mut().poll(&mut cx));
                assert!(first.is_pending());
                self.enter();
                let s = simk::with(|k| *k.inflight().last().unwrap());
                // Where does the kernel write? Exactly the spare part of this buffer's slot.
                let (targets, pool, desc) = simk::with(|k| {
                    let r = k.req(s);
                    let t: Vec<(usize, usize)> = r.foot.iter().filter(|f| f.write && matches!(f.what, "buffer" | "iovec-target") && f.len > 0).map(|f| (f.addr, f.len)).collect();
                    (t, r.pool, r.sqe.describe())
                });
                let want: Vec<(usize, usize)> = if spare > 0 { vec![(self.slot_addr + self.model.len(), spare)] } else { vec![] };
                if pool || targets != want {
                    self.bad("reread-target", format!("a read (variant {via}) into the owned buffer lets the kernel write {targets:x?} (buffer select: {pool}); expected {want:x?} — {desc}"));
                }
                simk::with(|k| k.complete(s, Out::Res(n as i32)));
                let data: Vec<u8> = simk::with(|k| k.req(s).outs.last().unwrap().data.clone());
                self.enter();
                match talloc::track(|| fut.as_mut().poll(&mut cx)) {
                    std::task::Poll::Ready(Ok(nb)) => {
                        b = nb;
                        self.model.extend_from_slice(&data);
                    }
                    other => {
                        let s = format!("{:?}", other.map(|r| r.map(|_| ())));
                        self.bad("reread-failed", format!("reading again into the buffer returned {s}"));
                        return;
                    }
                }
                talloc::track(|| drop(fut));
            }
            Edit::WriteOut => {
                let fd = self.fd.unwrap();
                use a10::Extract;
                use std::future::Future;
                let mut fut = Box::pin(talloc::track(|| fd.write(b).extract()));
                let w = HWaker::new(9);
                let mut cx = Context::from_waker(&w.waker);
                let first = talloc::track(|| fut.as_mut().poll(&mut cx));
                assert!(first.is_pending());
                self.enter();
                let s = simk::with(|k| *k.inflight().last().unwrap());
                let (sqe, offered) = simk::with(|k| {
                    let r = k.req(s);
                    let offered: Vec<u8> = r.foot.iter().filter(|f| f.what == "buffer" && !f.write).flat_map(|f| f.snapshot.clone()).collect();
                    (r.sqe, offered)
                });
                if sqe.opcode() != OP_WRITE || sqe.len() as usize != self.model.len() || (sqe.len() > 0 && sqe.addr() as usize != self.slot_addr) || offered != self.model {
                    self.bad("write-source", format!("writing the buffer out offers the kernel {offered:02x?} ({}); it holds {:02x?} at {:#x}", sqe.describe(), self.model, self.slot_addr));
                }
                simk::with(|k| k.complete(s, Out::Default));
                self.enter();
                match talloc::track(|| fut.as_mut().poll(&mut cx)) {
                    std::task::Poll::Ready(Ok((nb, n))) => {
                        if n != self.model.len() {
                            self.bad("write-source", format!("the kernel took {} bytes, the write returned {n}", self.model.len()));
                        }
                        b = nb;
                    }
                    other => {
                        let s = format!("{:?}", other.map(|r| r.map(|_| ())));
                        self.bad("write-failed", format!("writing the buffer out returned {s}"));
                        return;
                    }
                }
                talloc::track(|| drop(fut));
            }
            Edit::Scribble => {
                for (i, v) in b.as_mut_slice().iter_mut().enumerate() {
                    *v = 0x50 + i as u8;
                }
                for (i, v) in self.model.iter_mut().enumerate() {
                    *v = 0x50 + i as u8;
                }
            }
        }
        self.buf = Some(b);
        self.check(&what);
    }

    fn edits(&self) -> Vec<Edit> {
        let cap = self.case.as_ref().unwrap().buf_size as usize;
        let vals: Vec<usize> = (0..=cap + 1).chain([MAXV - 1, MAXV]).collect();
        let mut v = Vec::new();
        v.push(Edit::Clear);
        for k in &vals {
            v.push(Edit::Truncate(*k));
        }
        for k in 0..=cap {
            v.push(Edit::SetLen(k));
        }
        for n in 0..=cap + 1 {
            v.push(Edit::Extend(n));
        }
        for n in [0, 1, cap] {
            v.push(Edit::SpareWrite(n));
            v.push(Edit::ReadMore(n));
        }
        for via in 0..4u8 {
            v.push(Edit::ReadMoreVia(via, 1));
        }
        v.push(Edit::Scribble);
        v.push(Edit::WriteOut);
        // Every range form.
        v.push(Edit::Remove(0, 0, 0, 0));
        for a in &vals {
            v.push(Edit::Remove(1, *a, 0, 0));
            v.push(Edit::Remove(2, *a, 0, 0));
            v.push(Edit::Remove(0, 0, 1, *a));
            v.push(Edit::Remove(0, 0, 2, *a));
            for b in &vals {
                v.push(Edit::Remove(1, *a, 2, *b));
                v.push(Edit::Remove(1, *a, 1, *b));
                v.push(Edit::Remove(2, *a, 2, *b));
                v.push(Edit::Remove(2, *a, 1, *b));
            }
        }
        v
    }
}

impl World for C15World {
    type Action = Action;

    fn enabled(&mut self) -> Vec<(Action, u32)> {
        if self.case.is_none() {
            return (0..self.cases.len()).map(|i| (Action::Pick(i), 0)).collect();
        }
        self.edits().into_iter().map(|e| (Action::Do(e), 0)).collect()
    }

    fn apply(&mut self, a: &Action) {
        match a {
            Action::Pick(i) => {
                let c = self.cases[*i].clone();
                self.setup(c);
            }
            Action::Do(e) => self.edit(*e),
        }
    }

    fn take_violations(&mut self) -> Vec<Violation> {
        std::mem::take(&mut self.violations)
    }

    fn key(&mut self) -> u64 {
        crate::report::hash_str(&format!("{:?}{:?}", self.case, self.model))
    }

    fn observation(&self) -> u64 {
        crate::report::hash_str(&format!("{:?}", self.model))
    }

    fn finish(self) -> Vec<Violation> {
        let mut this = std::mem::ManuallyDrop::new(self);
        if this.case.is_none() {
            return Vec::new();
        }
        let c = this.case.clone().unwrap();
        // Release: the slot given back must be the original one.
        let tail_before = simk::with(|k| unsafe { &*((k.rings[0].pbufs[0].addr + 14) as *const std::sync::atomic::AtomicU16) }.load(std::sync::atomic::Ordering::SeqCst));
        let b = this.buf.take();
        talloc::track(|| drop(b));
        let (tail_after, entry) = simk::with(|k| {
            let pb = &k.rings[0].pbufs[0];
            let t = unsafe { &*((pb.addr + 14) as *const std::sync::atomic::AtomicU16) }.load(std::sync::atomic::Ordering::SeqCst);
            let idx = (tail_before as u32 & (pb.entries - 1)) as usize;
            (t, unsafe { std::ptr::read_volatile((pb.addr + idx * 16) as *const BufRingEntry) })
        });
        if tail_after != tail_before.wrapping_add(1) {
            this.bad("release-count", format!("dropping the buffer moved the ring tail from {tail_before} to {tail_after}"));
        } else if entry.bid != c.slot || entry.addr as usize != this.slot_addr || entry.len != c.buf_size {
            let slot_addr = this.slot_addr;
            this.bad("released-wrong-slot", format!("release gave back bid={} addr={:#x} len={}, the buffer was slot {} at {:#x} size {}", entry.bid, entry.addr, entry.len, c.slot, slot_addr, c.buf_size));
        }
        let (parked, pool, fd, ring, sq) = (std::mem::take(&mut this.parked), this.pool.take(), this.fd.take(), this.ring.take(), this.sq.take());
        talloc::track(|| {
            drop(parked);
            drop(pool);
            if let Some(fd) = fd {
                drop(unsafe { Box::from_raw(std::ptr::from_ref(fd).cast_mut()) });
            }
            let mut ring = ring;
            let _ = ring.as_mut().unwrap().poll(Some(Duration::ZERO));
            drop(ring);
            drop(sq);
        });
        simk::shutdown();
        talloc::disarm();
        std::mem::take(&mut this.violations)
    }
}

pub fn cases(quick: bool) -> Vec<Case> {
    let mut v = Vec::new();
    let sizes: &[u32] = if quick { &[1, 2, 3] } else { &[1, 2, 3, 4, 6, 8] };
    for &b in sizes {
        for fill in 0..=b as usize {
            for slot in [0u16, 1, 3] {
                if quick && slot == 1 && fill != b as usize {
                    continue;
                }
                v.push(Case { buf_size: b, fill, slot });
            }
        }
    }
    v
}
