//! C13: each operation equals its POSIX call.
//!
//! Part A (simk, "encoder"): every catalogue operation is issued on a regular
//! and on a direct descriptor; the submissions must be identical except for
//! what the descriptor kind requires, and must match an independent table of
//! the io_uring ABI for the arguments given (offsets, flags, lengths, modes).
//! Part B (real kernel): the same call through a10 on a real ring and through
//! libc on an identical fixture; results and post-state must agree.
#![allow(dead_code)]

use std::future::Future;
use std::os::fd::{AsRawFd, FromRawFd, OwnedFd};
use std::path::PathBuf;
use std::pin::Pin;
use std::task::{Context, Poll};
use std::time::Duration;

use a10::fd::Kind as FdKind;
use a10::{AsyncFd, Ring, SubmissionQueue};

use crate::abi::*;
use crate::ops::{self, Kind, Seen};
use crate::report::Violation;
use crate::simk::{self, Out};
use crate::talloc;
use crate::waker::HWaker;

#[derive(Clone, Debug)]
pub enum Case {
    /// Issue `kind` on a regular and on a direct descriptor and compare.
    Encode { kind: Kind },
    /// Builder settings made before the first poll.
    Builder { which: u8 },
    /// Real kernel differential, scenario `id`, on a regular or direct descriptor.
    Real { id: u16, direct: bool },
    /// A kernel without the operation (simulated answer): a10's synchronous fallback is the system call itself.
    Fallback { which: u8 },
}

fn v(sig: &str, msg: String) -> Violation {
    Violation::new("C13", sig, &msg)
}

// ------------------------------------------------------------------ part A

struct SimWorld {
    ring: Ring,
    sq: SubmissionQueue,
    fd: &'static AsyncFd,
    fd_raw: i32,
    dfd: &'static AsyncFd,
    slot: i32,
    pool: a10::io::ReadBufPool,
    bgid: u16,
}

fn sim_world() -> SimWorld {
    simk::reset(simk::SetupPlan::default());
    talloc::set_on_free(Some(simk::on_free));
    let (mut ring, sq, fd, fd_raw, pool) = talloc::track(|| {
        let ring = Ring::config().with_submission_queue_size(8).with_direct_descriptors(8).build().expect("ring");
        let sq = ring.sq();
        let raw = simk::with(|k| k.new_regular_pub());
        let fd: &'static AsyncFd = Box::leak(Box::new(unsafe { AsyncFd::from_raw_fd(raw, sq.clone()) }));
        let pool = a10::io::ReadBufPool::new(sq.clone(), 2, 8).expect("pool");
        (ring, sq, fd, raw, pool)
    });
    let bgid = simk::with(|k| k.rings[0].pbufs[0].bgid);
    // A direct descriptor through to_direct_descriptor.
    let env = ops::Env { sq: &sq, fd, pool: None, nth: 50 };
    let mut op = ops::make(Kind::ToDirect, &env);
    let w = HWaker::new(50);
    let mut cx = Context::from_waker(&w.waker);
    assert_eq!(op.poll(&mut cx), Seen::Pending);
    talloc::track(|| ring.poll(Some(Duration::ZERO)).unwrap());
    let s = simk::with(|k| k.inflight()[0]);
    simk::with(|k| k.complete(s, Out::Default));
    talloc::track(|| ring.poll(Some(Duration::ZERO)).unwrap());
    assert!(matches!(op.poll(&mut cx), Seen::Ready(_)));
    let dfd = op.held.borrow_mut().pop().unwrap();
    let slot = ops::raw_of(&dfd);
    let dfd: &'static AsyncFd = Box::leak(Box::new(dfd));
    talloc::track(|| drop(op));
    SimWorld { ring, sq, fd, fd_raw, dfd, slot, pool, bgid }
}

fn sim_teardown(w: SimWorld) {
    talloc::track(|| {
        let SimWorld { mut ring, sq, fd, dfd, pool, .. } = w;
        drop(pool);
        drop(unsafe { Box::from_raw(std::ptr::from_ref(dfd).cast_mut()) });
        drop(unsafe { Box::from_raw(std::ptr::from_ref(fd).cast_mut()) });
        let _ = ring.poll(Some(Duration::ZERO));
        drop(sq);
        drop(ring);
    });
    simk::shutdown();
    talloc::disarm();
}

/// Poll `op` once and return the submission it published.
fn first_sqe(w: &mut SimWorld, op: &mut ops::Op) -> Option<Sqe> {
    let tail = simk::with(|k| k.rings[0].sq_tail());
    let wk = HWaker::new(7);
    let mut cx = Context::from_waker(&wk.waker);
    let seen = op.poll(&mut cx);
    if seen != Seen::Pending || simk::with(|k| k.rings[0].sq_tail()) != tail.wrapping_add(1) {
        return None;
    }
    let sqe = simk::with(|k| unsafe { *k.rings[0].sqe_slot(tail) });
    // Let the kernel take it, then answer it so the queue does not fill up.
    talloc::track(|| {
        let _ = w.ring.poll(Some(Duration::ZERO));
    });
    Some(sqe)
}

fn finish_all(w: &mut SimWorld) {
    for _ in 0..3 {
        for s in simk::with(|k| k.inflight()) {
            simk::with(|k| {
                if k.req(s).awaiting_notif {
                    k.complete(s, Out::Notif)
                } else if !k.req(s).done {
                    k.complete(s, Out::Res(-libc::ECANCELED))
                }
            });
        }
        talloc::track(|| {
            let _ = w.ring.poll(Some(Duration::ZERO));
        });
    }
}

/// ABI table: what the submission of `kind` (created by the catalogue with
/// index 0) must look like, independent of a10's encoders.
struct Want {
    opcode: u8,
    /// None: field carries a pointer or is not specified here.
    off: Option<u64>,
    len: Option<u32>,
    op_flags: Option<u32>,
    ioprio: u16,
    select: bool,
    extra_flags: u8,
    /// Value (not pointer) carried in the addr field.
    addr: Option<u64>,
}

fn want(kind: Kind, direct: bool) -> Option<Want> {
    use Kind::*;
    let w = |opcode, off, len, op_flags| Want { opcode, off, len, op_flags, ioprio: 0, select: false, extra_flags: 0, addr: None };
    let cur = Some(u64::MAX);
    let cloexec = if direct { 0 } else { libc::O_CLOEXEC as u32 };
    Some(match kind {
        ReadVec => w(OP_READ, cur, Some(8), Some(0)),
        ReadVecPrefilled => w(OP_READ, cur, Some(10), Some(0)),
        ReadLimited => w(OP_READ, cur, Some(5), Some(0)),
        WriteVec => w(OP_WRITE, cur, Some(5), Some(0)),
        WriteStatic => w(OP_WRITE, cur, Some(12), Some(0)),
        WriteString => w(OP_WRITE, cur, Some(7), Some(0)),
        WriteBoxed => w(OP_WRITE, cur, Some(6), Some(0)),
        WriteArc => w(OP_WRITE, cur, Some(9), Some(0)),
        ReadVectored2 => w(OP_READV, cur, Some(2), Some(0)),
        WriteVectored2 => w(OP_WRITEV, cur, Some(2), Some(0)),
        WriteVectoredTuple => w(OP_WRITEV, cur, Some(3), Some(0)),
        Recv => w(OP_RECV, Some(0), Some(7), Some(0)),
        RecvVectored | RecvFrom | RecvFromVectored => w(OP_RECVMSG, Some(0), Some(1), Some(0)),
        Send => w(OP_SEND, Some(0), Some(4), Some(0)),
        SendZc => w(OP_SEND_ZC, Some(0), Some(4), Some(0)),
        SendTo => w(OP_SEND, None, Some(5), Some(0)),
        SendToZc => w(OP_SEND_ZC, None, Some(5), Some(0)),
        SendVectored => w(OP_SENDMSG, Some(0), Some(1), Some(0)),
        SendVectoredZc => w(OP_SENDMSG_ZC, Some(0), Some(1), Some(0)),
        ReadPool => Want { select: true, ..w(OP_READ, cur, Some(0), Some(0)) },
        RecvPool => Want { select: true, ..w(OP_RECV, Some(0), Some(0), Some(0)) },
        MultishotRead => Want { select: true, ..w(OP_READ_MULTISHOT, Some(0), Some(0), Some(0)) },
        MultishotRecv => Want { select: true, ioprio: RECV_MULTISHOT, ..w(OP_RECV, Some(0), Some(0), Some(0)) },
        Accept => Want { extra_flags: SQE_ASYNC, ..w(OP_ACCEPT, None, Some(0), Some(cloexec)) },
        AcceptNoAddr => Want { extra_flags: SQE_ASYNC, ..w(OP_ACCEPT, None, Some(0), Some(cloexec)) },
        MultishotAccept => Want { extra_flags: SQE_ASYNC, ioprio: ACCEPT_MULTISHOT, ..w(OP_ACCEPT, Some(0), Some(0), Some(cloexec)) },
        Connect => w(OP_CONNECT, Some(16), Some(0), Some(0)),
        Bind => w(OP_BIND, Some(16), Some(0), Some(0)),
        Fsync => w(OP_FSYNC, Some(0), Some(0), Some(0)),
        Truncate => w(OP_FTRUNCATE, Some(77), Some(0), Some(0)),
        Shutdown => w(OP_SHUTDOWN, Some(0), Some(libc::SHUT_RDWR as u32), Some(0)),
        Statx => w(OP_STATX, None, None, Some(libc::AT_EMPTY_PATH as u32)),
        LocalAddr | SockOpt | SetSockOpt | PeerAddr => w(OP_URING_CMD, None, None, None),
        Listen => Want { addr: Some(0), ..w(OP_LISTEN, Some(0), Some(16), Some(0)) },
        SyncData => w(OP_FSYNC, Some(0), Some(0), Some(1)), // IORING_FSYNC_DATASYNC
        FAdvise => w(OP_FADVISE, Some(4096), Some(8192), Some(libc::POSIX_FADV_WILLNEED as u32)),
        // fallocate: offset in off, length in addr, mode in len.
        Allocate => Want { addr: Some(1024), ..w(OP_FALLOCATE, Some(512), Some(0), Some(0)) },
        SendToVectored => w(OP_SENDMSG, Some(0), Some(1), Some(0)),
        _ => return None,
    })
}

fn run_encode(kind: Kind, out: &mut Vec<Violation>) {
    let mut w = sim_world();
    let mut sqes = Vec::new();
    for direct in [false, true] {
        let fd = if direct { w.dfd } else { w.fd };
        let env = ops::Env { sq: &w.sq, fd, pool: Some(&w.pool), nth: 0 };
        let mut op = ops::make(kind, &env);
        let sqe = first_sqe(&mut w, &mut op);
        finish_all(&mut w);
        {
            let wk = HWaker::new(8);
            let mut cx = Context::from_waker(&wk.waker);
            let _ = op.poll(&mut cx);
        }
        talloc::track(|| drop(op));
        finish_all(&mut w);
        let Some(sqe) = sqe else {
            out.push(v(&format!("no-submission/{kind:?}"), format!("{kind:?} on a {} descriptor did not publish exactly one submission on its first poll", if direct { "direct" } else { "regular" })));
            sim_teardown(w);
            return;
        };
        // Descriptor field and FIXED_FILE.
        let (want_fd, want_fixed) = if direct { (w.slot, true) } else { (w.fd_raw, false) };
        if sqe.fd() != want_fd || (sqe.flags() & SQE_FIXED_FILE != 0) != want_fixed {
            out.push(v(&format!("descriptor-field/{kind:?}"), format!("{kind:?} on a {} descriptor: fd field {} FIXED_FILE={} (expected fd {want_fd}, FIXED_FILE={want_fixed}): {}", if direct { "direct" } else { "regular" }, sqe.fd(), sqe.flags() & SQE_FIXED_FILE != 0, sqe.describe())));
        }
        if let Some(t) = want(kind, direct) {
            let mut bad = Vec::new();
            if sqe.opcode() != t.opcode {
                bad.push(format!("opcode {} != {}", opcode_name(sqe.opcode()), opcode_name(t.opcode)));
            }
            if let Some(o) = t.off {
                if sqe.off() != o {
                    bad.push(format!("off {:#x} != {o:#x}", sqe.off()));
                }
            }
            if let Some(l) = t.len {
                if sqe.len() != l {
                    bad.push(format!("len {} != {l}", sqe.len()));
                }
            }
            if let Some(f) = t.op_flags {
                if sqe.op_flags() != f {
                    bad.push(format!("op flags {:#x} != {f:#x}", sqe.op_flags()));
                }
            }
            if sqe.ioprio() != t.ioprio {
                bad.push(format!("ioprio {} != {}", sqe.ioprio(), t.ioprio));
            }
            let select = sqe.flags() & SQE_BUFFER_SELECT != 0;
            if select != t.select || (t.select && sqe.buf_group() != w.bgid) {
                bad.push(format!("BUFFER_SELECT={select} buf_group={} (expected {} group {})", sqe.buf_group(), t.select, w.bgid));
            }
            if let Some(a) = t.addr {
                if sqe.addr() != a {
                    bad.push(format!("addr {:#x} != {a:#x}", sqe.addr()));
                }
            }
            let other = sqe.flags() & !(SQE_FIXED_FILE | SQE_BUFFER_SELECT);
            if other != t.extra_flags {
                bad.push(format!("sqe flags {other:#x} != {:#x}", t.extra_flags));
            }
            let want_fidx = if direct && matches!(kind, Kind::Accept | Kind::AcceptNoAddr | Kind::MultishotAccept) { FILE_INDEX_ALLOC } else { 0 };
            if !matches!(kind, Kind::SendTo | Kind::SendToZc | Kind::LocalAddr | Kind::SockOpt | Kind::SetSockOpt | Kind::PeerAddr) && sqe.file_index() != want_fidx {
                bad.push(format!("file_index {:#x} != {want_fidx:#x}", sqe.file_index()));
            }
            if !bad.is_empty() {
                out.push(v(&format!("abi-mismatch/{kind:?}/{}", if direct { "direct" } else { "regular" }), format!("{kind:?} on a {} descriptor: {} — {}", if direct { "direct" } else { "regular" }, bad.join("; "), sqe.describe())));
            }
        }
        sqes.push(sqe);
    }
    // Regular vs direct: identical but for the descriptor.
    if sqes.len() == 2 {
        let (r, d) = (sqes[0], sqes[1]);
        let accept = matches!(kind, Kind::Accept | Kind::AcceptNoAddr | Kind::MultishotAccept);
        let mut diff = Vec::new();
        if r.opcode() != d.opcode() {
            diff.push("opcode");
        }
        if r.flags() & !SQE_FIXED_FILE != d.flags() & !SQE_FIXED_FILE {
            diff.push("flags");
        }
        if r.ioprio() != d.ioprio() {
            diff.push("ioprio");
        }
        if r.len() != d.len() {
            diff.push("len");
        }
        if !accept && r.op_flags() != d.op_flags() {
            diff.push("op_flags");
        }
        if r.buf_group() != d.buf_group() {
            diff.push("buf_group");
        }
        if !accept && r.file_index() != d.file_index() {
            diff.push("file_index");
        }
        if !diff.is_empty() {
            out.push(v(&format!("regular-vs-direct/{kind:?}"), format!("{kind:?}: the submission for a direct descriptor differs from the one for a regular descriptor in {diff:?}:\n regular: {}\n direct:  {}", r.describe(), d.describe())));
        }
    }
    sim_teardown(w);
}

fn run_builder(which: u8, out: &mut Vec<Violation>) {
    let mut w = sim_world();
    let fd = w.fd;
    macro_rules! sqe_of {
        ($fut:expr) => {{
            let mut fut = Box::pin($fut);
            let tail = simk::with(|k| k.rings[0].sq_tail());
            let wk = HWaker::new(9);
            let mut cx = Context::from_waker(&wk.waker);
            let p = talloc::track(|| fut.as_mut().poll(&mut cx));
            assert!(p.is_pending());
            let sqe = simk::with(|k| unsafe { *k.rings[0].sqe_slot(tail) });
            talloc::track(|| {
                let _ = w.ring.poll(Some(Duration::ZERO));
            });
            finish_all(&mut w);
            let _ = talloc::track(|| fut.as_mut().poll(&mut cx));
            talloc::track(|| drop(fut));
            sqe
        }};
    }
    // The second submission of a composite operation whose first attempt was cut short after one byte.
    macro_rules! second_sqe_of {
        ($fut:expr) => {{
            let mut fut = Box::pin($fut);
            let wk = HWaker::new(9);
            let mut cx = Context::from_waker(&wk.waker);
            let p = talloc::track(|| fut.as_mut().poll(&mut cx));
            assert!(p.is_pending());
            talloc::track(|| {
                let _ = w.ring.poll(Some(Duration::ZERO));
            });
            let s = simk::with(|k| *k.inflight().last().unwrap());
            simk::with(|k| k.complete(s, Out::Res(1)));
            if simk::with(|k| k.req(s).awaiting_notif) {
                simk::with(|k| k.complete(s, Out::Notif));
            }
            talloc::track(|| {
                let _ = w.ring.poll(Some(Duration::ZERO));
            });
            let tail = simk::with(|k| k.rings[0].sq_tail());
            let p = talloc::track(|| fut.as_mut().poll(&mut cx));
            let sqe = if p.is_pending() && simk::with(|k| k.rings[0].sq_tail()) != tail { Some(simk::with(|k| unsafe { *k.rings[0].sqe_slot(tail) })) } else { None };
            talloc::track(|| {
                let _ = w.ring.poll(Some(Duration::ZERO));
            });
            finish_all(&mut w);
            let _ = talloc::track(|| fut.as_mut().poll(&mut cx));
            talloc::track(|| drop(fut));
            sqe
        }};
    }
    let mut check = |name: &str, ok: bool, sqe: &Sqe| {
        if !ok {
            out.push(v(&format!("builder-ignored/{name}"), format!("{name}: the setting made before the first poll is not reflected in the submission: {}", sqe.describe())));
        }
    };
    let offs = [0u64, 1, 4095, 4096, 1 << 40, u64::MAX - 1];
    match which {
        0 => {
            for o in offs {
                let s = sqe_of!(fd.read(Vec::with_capacity(4)).from(o));
                check("Read::from", s.opcode() == OP_READ && s.off() == o, &s);
                let s = sqe_of!(fd.write(vec![1u8; 3]).at(o));
                check("Write::at", s.opcode() == OP_WRITE && s.off() == o, &s);
                let s = sqe_of!(fd.read_vectored([Vec::with_capacity(2), Vec::with_capacity(2)]).from(o));
                check("ReadVectored::from", s.opcode() == OP_READV && s.off() == o, &s);
                let s = sqe_of!(fd.write_vectored([vec![1u8; 2], vec![2u8; 2]]).at(o));
                check("WriteVectored::at", s.opcode() == OP_WRITEV && s.off() == o, &s);
                let s = sqe_of!(fd.write_all(vec![1u8; 3]).at(o));
                check("WriteAll::at", s.opcode() == OP_WRITE && s.off() == o, &s);
                let s = sqe_of!(fd.read_n(Vec::with_capacity(4), 2).from(o));
                check("ReadN::from", s.opcode() == OP_READ && s.off() == o, &s);
                // Continuations go on where the first attempt stopped.
                let next = o.wrapping_add(1);
                let none = Sqe([0; 64]);
                let s = second_sqe_of!(fd.write_all(vec![1u8; 3]).at(o));
                check("WriteAll::at/continuation", s.is_some_and(|s| s.opcode() == OP_WRITE && s.off() == next && s.len() == 2), &s.unwrap_or(none));
                let s = second_sqe_of!(fd.write_all_vectored([vec![1u8; 2], vec![2u8; 2]]).at(o));
                check("WriteAllVectored::at/continuation", s.is_some_and(|s| s.opcode() == OP_WRITEV && s.off() == next), &s.unwrap_or(none));
                let s = second_sqe_of!(fd.read_n(Vec::with_capacity(4), 3).from(o));
                check("ReadN::from/continuation", s.is_some_and(|s| s.opcode() == OP_READ && s.off() == next && s.len() == 3), &s.unwrap_or(none));
                let s = second_sqe_of!(fd.read_n_vectored([Vec::with_capacity(2), Vec::with_capacity(2)], 3).from(o));
                check("ReadNVectored::from/continuation", s.is_some_and(|s| s.opcode() == OP_READV && s.off() == next), &s.unwrap_or(none));
            }
        }
        1 => {
            use a10::net::{RecvFlag, SendFlag};
            for (f, bits) in [(SendFlag::MORE, libc::MSG_MORE), (SendFlag::DONT_ROUTE, libc::MSG_DONTROUTE), (SendFlag::OOB, libc::MSG_OOB), (SendFlag::EOR, libc::MSG_EOR), (SendFlag::CONFIRM, libc::MSG_CONFIRM)] {
                let s = sqe_of!(fd.send(vec![1u8; 3]).flags(f));
                check("Send::flags", s.opcode() == OP_SEND && s.op_flags() == bits as u32, &s);
                let s = sqe_of!(fd.send(vec![1u8; 3]).flags(f).zc());
                check("Send::flags+zc", s.opcode() == OP_SEND_ZC && s.op_flags() == bits as u32, &s);
                let s = sqe_of!(fd.send_vectored([vec![1u8; 2], vec![2u8; 1]]).flags(f));
                check("SendMsg::flags", s.opcode() == OP_SENDMSG && s.op_flags() == bits as u32, &s);
                let s = sqe_of!(fd.send_all(vec![1u8; 3]).flags(f).zc());
                check("SendAll::flags+zc", s.opcode() == OP_SEND_ZC && s.op_flags() == bits as u32, &s);
                let none = Sqe([0; 64]);
                let s = second_sqe_of!(fd.send_all(vec![1u8; 3]).flags(f));
                check("SendAll::flags/continuation", s.is_some_and(|s| s.opcode() == OP_SEND && s.op_flags() == bits as u32 && s.len() == 2), &s.unwrap_or(none));
                let s = second_sqe_of!(fd.send_all(vec![1u8; 3]).flags(f).zc());
                check("SendAll::flags+zc/continuation", s.is_some_and(|s| s.opcode() == OP_SEND_ZC && s.op_flags() == bits as u32), &s.unwrap_or(none));
                let s = second_sqe_of!(fd.send_all_vectored([vec![1u8; 2], vec![2u8; 2]]).flags(f));
                check("SendAllVectored::flags/continuation", s.is_some_and(|s| s.opcode() == OP_SENDMSG && s.op_flags() == bits as u32), &s.unwrap_or(none));
                let s = second_sqe_of!(fd.send_all_vectored([vec![1u8; 2], vec![2u8; 2]]).flags(f).zc());
                check("SendAllVectored::flags+zc/continuation", s.is_some_and(|s| s.opcode() == OP_SENDMSG_ZC && s.op_flags() == bits as u32), &s.unwrap_or(none));
            }
            for (f, bits) in [(RecvFlag::PEEK, libc::MSG_PEEK), (RecvFlag::WAIT_ALL, libc::MSG_WAITALL), (RecvFlag::OOB, libc::MSG_OOB)] {
                let s = sqe_of!(fd.recv(Vec::with_capacity(4)).flags(f));
                check("Recv::flags", s.opcode() == OP_RECV && s.op_flags() == bits as u32, &s);
                let s = sqe_of!(fd.recv_vectored([Vec::with_capacity(2), Vec::with_capacity(2)]).flags(f));
                check("RecvVectored::flags", s.opcode() == OP_RECVMSG && s.op_flags() == bits as u32, &s);
                let s = sqe_of!(fd.recv_n(Vec::with_capacity(4), 2).flags(f));
                check("RecvN::flags", s.opcode() == OP_RECV && s.op_flags() == bits as u32, &s);
                let s = sqe_of!(fd.recv_n_vectored([Vec::with_capacity(2), Vec::with_capacity(2)], 3).flags(f));
                check("RecvNVectored::flags", s.opcode() == OP_RECVMSG && s.op_flags() == bits as u32, &s);
                let s = sqe_of!(fd.recv_from::<_, std::net::SocketAddr>(Vec::with_capacity(4)).flags(f));
                check("RecvFrom::flags", s.opcode() == OP_RECVMSG && s.op_flags() == bits as u32, &s);
                let none = Sqe([0; 64]);
                let s = second_sqe_of!(fd.recv_n(Vec::with_capacity(4), 3).flags(f));
                check("RecvN::flags/continuation", s.is_some_and(|s| s.opcode() == OP_RECV && s.op_flags() == bits as u32 && s.len() == 3), &s.unwrap_or(none));
                let s = second_sqe_of!(fd.recv_n_vectored([Vec::with_capacity(2), Vec::with_capacity(2)], 3).flags(f));
                check("RecvNVectored::flags/continuation", s.is_some_and(|s| s.opcode() == OP_RECVMSG && s.op_flags() == bits as u32), &s.unwrap_or(none));
            }
        }
        2 => {
            use a10::fs::OpenOptions;
            let p = || PathBuf::from("/verif-simk/x");
            let combos: Vec<(OpenOptions, i32, u32)> = vec![
                (OpenOptions::new().read(), libc::O_RDONLY, 0o666),
                (OpenOptions::new().write(), libc::O_RDWR, 0o666),
                (OpenOptions::new().write_only(), libc::O_WRONLY, 0o666),
                (OpenOptions::new().write_only().read(), libc::O_RDWR, 0o666),
                (OpenOptions::new().write_only().append(), libc::O_WRONLY | libc::O_APPEND, 0o666),
                (OpenOptions::new().write().truncate(), libc::O_RDWR | libc::O_TRUNC, 0o666),
                (OpenOptions::new().write().create(), libc::O_RDWR | libc::O_CREAT, 0o666),
                (OpenOptions::new().write().create_new().mode(0o600), libc::O_RDWR | libc::O_CREAT | libc::O_EXCL, 0o600),
                (OpenOptions::new().write().data_sync(), libc::O_RDWR | libc::O_DSYNC, 0o666),
                (OpenOptions::new().write().sync(), libc::O_RDWR | libc::O_SYNC, 0o666),
                (OpenOptions::new().read().direct(), libc::O_RDONLY | libc::O_DIRECT, 0o666),
            ];
            for (o, flags, mode) in combos {
                for kind in [FdKind::File, FdKind::Direct] {
                    let s = sqe_of!(o.clone().kind(kind).open(w.sq.clone(), p()));
                    let cloexec = if kind == FdKind::File { libc::O_CLOEXEC } else { 0 };
                    let fidx = if kind == FdKind::File { 0 } else { FILE_INDEX_ALLOC };
                    let ok = s.opcode() == OP_OPENAT && s.fd() == libc::AT_FDCWD && s.op_flags() == (flags | cloexec) as u32 && s.len() == mode && s.file_index() == fidx;
                    check("OpenOptions", ok, &s);
                }
            }
            for kind in [FdKind::File, FdKind::Direct] {
                let s = sqe_of!(a10::net::socket(w.sq.clone(), a10::net::Domain::IPV6, a10::net::Type::DGRAM, None).kind(kind));
                let cloexec = if kind == FdKind::File { libc::SOCK_CLOEXEC } else { 0 };
                let fidx = if kind == FdKind::File { 0 } else { FILE_INDEX_ALLOC };
                let ok = s.opcode() == OP_SOCKET && s.fd() == libc::AF_INET6 && s.off() == (libc::SOCK_DGRAM | cloexec) as u64 && s.len() == 0 && s.file_index() == fidx;
                check("Socket::kind", ok, &s);
                let s = sqe_of!(a10::pipe::pipe(w.sq.clone()).kind(kind));
                let ok = s.opcode() == OP_PIPE && s.file_index() == fidx;
                check("Pipe::kind", ok, &s);
            }
        }
        _ => {
            use a10::fs::{AdviseFlag, AllocateMode};
            let s = sqe_of!(fd.advise(4096, 8192, AdviseFlag::WILL_NEED));
            check("advise", s.opcode() == OP_FADVISE && s.off() == 4096 && s.len() == 8192 && s.op_flags() == libc::POSIX_FADV_WILLNEED as u32, &s);
            let s = sqe_of!(fd.allocate(4096, 100).mode(AllocateMode::KEEP_SIZE));
            check("allocate", s.opcode() == OP_FALLOCATE && s.off() == 4096 && s.addr() == 100 && s.len() == libc::FALLOC_FL_KEEP_SIZE as u32, &s);
            for l in [0u64, 1, 1 << 40] {
                let s = sqe_of!(fd.truncate(l));
                check("truncate", s.opcode() == OP_FTRUNCATE && s.off() == l, &s);
            }
            let s = sqe_of!(fd.sync_data());
            check("sync_data", s.opcode() == OP_FSYNC && s.op_flags() == 1, &s);
            // splice: fd = output, splice_fd_in = input, off = output offset, addr = input offset.
            {
                use a10::io::SpliceFlag;
                let other = unsafe { std::os::fd::BorrowedFd::borrow_raw(1) };
                for (fl, bits) in [(SpliceFlag::MOVE, libc::SPLICE_F_MOVE), (SpliceFlag::MORE, libc::SPLICE_F_MORE), (SpliceFlag::MOVE | SpliceFlag::MORE, libc::SPLICE_F_MOVE | libc::SPLICE_F_MORE)] {
                    let s = sqe_of!(fd.splice_to(other, 77).from(5).at(9).flags(fl));
                    check("Splice(to)::from/at/flags", s.opcode() == OP_SPLICE && s.fd() == 1 && s.file_index() as i32 == w.fd_raw && s.addr() == 5 && s.off() == 9 && s.len() == 77 && s.op_flags() == bits, &s);
                    let s = sqe_of!(fd.splice_from(other, 33).from(6).at(2).flags(fl));
                    check("Splice(from)::from/at/flags", s.opcode() == OP_SPLICE && s.fd() == w.fd_raw && s.file_index() == 1 && s.addr() == 6 && s.off() == 2 && s.len() == 33 && s.op_flags() == bits, &s);
                }
                let s = sqe_of!(fd.splice_to(other, 7));
                check("Splice defaults", s.opcode() == OP_SPLICE && s.addr() == u64::MAX && s.off() == u64::MAX && s.op_flags() == 0, &s);
            }
            {
                use a10::net::{RecvFlag, SendFlag};
                for (f, bits) in [(RecvFlag::PEEK, libc::MSG_PEEK), (RecvFlag::WAIT_ALL, libc::MSG_WAITALL)] {
                    let s = sqe_of!(fd.recv_from_vectored::<_, std::net::SocketAddr, 2>([Vec::with_capacity(2), Vec::with_capacity(2)]).flags(f));
                    check("RecvFromVectored::flags", s.opcode() == OP_RECVMSG && s.op_flags() == bits as u32, &s);
                    let s = {
                        let mut it = Box::pin(fd.multishot_recv(w.pool.clone()).flags(f));
                        let tail = simk::with(|k| k.rings[0].sq_tail());
                        let wk = HWaker::new(9);
                        let mut cx = Context::from_waker(&wk.waker);
                        let p = talloc::track(|| it.as_mut().poll_next(&mut cx));
                        assert!(p.is_pending());
                        let sqe = simk::with(|k| unsafe { *k.rings[0].sqe_slot(tail) });
                        talloc::track(|| {
                            let _ = w.ring.poll(Some(Duration::ZERO));
                        });
                        talloc::track(|| drop(it));
                        finish_all(&mut w);
                        sqe
                    };
                    check("MultishotRecv::flags", s.opcode() == OP_RECV && s.op_flags() == bits as u32 && s.ioprio() & RECV_MULTISHOT != 0, &s);
                }
                let to: std::net::SocketAddr = "10.1.2.3:99".parse().unwrap();
                for (f, bits) in [(SendFlag::MORE, libc::MSG_MORE), (SendFlag::DONT_ROUTE, libc::MSG_DONTROUTE)] {
                    let s = sqe_of!(fd.send_to(vec![1u8; 3], to).flags(f));
                    check("SendTo::flags", s.opcode() == OP_SEND && s.op_flags() == bits as u32, &s);
                    let s = sqe_of!(fd.send_to(vec![1u8; 3], to).flags(f).zc());
                    check("SendTo::flags+zc", s.opcode() == OP_SEND_ZC && s.op_flags() == bits as u32, &s);
                    let s = sqe_of!(fd.send_to_vectored([vec![1u8; 2], vec![2u8; 1]], to).flags(f));
                    check("SendMsg(to)::flags", s.opcode() == OP_SENDMSG && s.op_flags() == bits as u32, &s);
                    let s = sqe_of!(fd.send_to_vectored([vec![1u8; 2], vec![2u8; 1]], to).flags(f).zc());
                    check("SendMsg(to)::flags+zc", s.opcode() == OP_SENDMSG_ZC && s.op_flags() == bits as u32, &s);
                }
            }
            {
                let s = sqe_of!(a10::pipe::pipe(w.sq.clone()).flags(a10::pipe::PipeFlag::DIRECT));
                check("Pipe::flags", s.opcode() == OP_PIPE && s.op_flags() == (libc::O_DIRECT | libc::O_CLOEXEC) as u32 && s.file_index() == 0, &s);
                let s = sqe_of!(a10::pipe::pipe(w.sq.clone()).flags(a10::pipe::PipeFlag::DIRECT).kind(FdKind::Direct));
                check("Pipe::flags+kind", s.opcode() == OP_PIPE && s.op_flags() == libc::O_DIRECT as u32 && s.file_index() == FILE_INDEX_ALLOC, &s);
            }
            {
                use a10::fs::MetadataInterest as M;
                for (m, bits) in [(M::SIZE, libc::STATX_SIZE), (M::TYPE | M::MODE, libc::STATX_TYPE | libc::STATX_MODE), (M::MODIFIED_TIME | M::ACCESSED_TIME | M::CREATED_TIME | M::BLOCKS, libc::STATX_MTIME | libc::STATX_ATIME | libc::STATX_BTIME | libc::STATX_BLOCKS)] {
                    let s = sqe_of!(fd.metadata().only(m));
                    check("Stat::only", s.opcode() == OP_STATX && s.len() == bits, &s);
                }
            }
            {
                use a10::process::{WaitOn, WaitOption as O, wait};
                // waitid: id in fd, id type in len, options in file_index.
                for (on, idtype, id) in [(WaitOn::Process(4321), libc::P_PID, 4321), (WaitOn::Group(77), libc::P_PGID, 77), (WaitOn::All, libc::P_ALL, 0)] {
                    for (o, bits) in [(O::EXITED, libc::WEXITED), (O::STOPPED, libc::WSTOPPED), (O::CONTINUED, libc::WCONTINUED), (O::NO_WAIT, libc::WNOWAIT)] {
                        let s = sqe_of!(wait(w.sq.clone(), on).flags(o));
                        check("WaitId::flags/WaitOn", s.opcode() == OP_WAITID && s.len() == idtype as u32 && (idtype == libc::P_ALL || s.fd() == id) && s.file_index() == bits as u32, &s);
                    }
                }
            }
            let s = sqe_of!(fd.sync_all());
            check("sync_all", s.opcode() == OP_FSYNC && s.op_flags() == 0, &s);
            for (how, val) in [(std::net::Shutdown::Read, libc::SHUT_RD), (std::net::Shutdown::Write, libc::SHUT_WR), (std::net::Shutdown::Both, libc::SHUT_RDWR)] {
                let s = sqe_of!(fd.shutdown(how));
                check("shutdown", s.opcode() == OP_SHUTDOWN && s.len() == val as u32, &s);
            }
            let s = sqe_of!(fd.listen(77));
            check("listen", s.opcode() == OP_LISTEN && s.len() == 77, &s);
            let s = sqe_of!(a10::fs::create_dir(w.sq.clone(), PathBuf::from("/verif-simk/d")));
            check("create_dir", s.opcode() == OP_MKDIRAT && s.fd() == libc::AT_FDCWD && s.len() == 0o777, &s);
            let s = sqe_of!(a10::fs::remove_dir(w.sq.clone(), PathBuf::from("/verif-simk/d")));
            check("remove_dir", s.opcode() == OP_UNLINKAT && s.op_flags() == libc::AT_REMOVEDIR as u32, &s);
            let s = sqe_of!(a10::fs::remove_file(w.sq.clone(), PathBuf::from("/verif-simk/f")));
            check("remove_file", s.opcode() == OP_UNLINKAT && s.op_flags() == 0, &s);
            let s = sqe_of!(a10::fs::rename(w.sq.clone(), PathBuf::from("/verif-simk/a"), PathBuf::from("/verif-simk/b")));
            check("rename", s.opcode() == OP_RENAMEAT && s.fd() == libc::AT_FDCWD && s.len() == libc::AT_FDCWD as u32 && s.op_flags() == 0, &s);
        }
    }
    sim_teardown(w);
}


/// Run `fut` on the simulated kernel, which answers its first request with `-errno`.
fn with_kernel_refusing<F: Future>(w: &mut SimWorld, fut: F, errno: i32) -> Option<F::Output> {
    let mut fut = Box::pin(fut);
    let wk = HWaker::new(9);
    let mut cx = Context::from_waker(&wk.waker);
    if let Poll::Ready(r) = talloc::track(|| fut.as_mut().poll(&mut cx)) {
        return Some(r);
    }
    talloc::track(|| {
        let _ = w.ring.poll(Some(Duration::ZERO));
    });
    if let Some(s) = simk::with(|k| k.inflight().last().copied()) {
        simk::with(|k| k.complete(s, Out::Res(-errno)));
    }
    talloc::track(|| {
        let _ = w.ring.poll(Some(Duration::ZERO));
    });
    let r = match talloc::track(|| fut.as_mut().poll(&mut cx)) {
        Poll::Ready(r) => Some(r),
        Poll::Pending => None,
    };
    talloc::track(|| drop(fut));
    r
}

fn run_fallback(which: u8, out: &mut Vec<Violation>) {
    use std::os::fd::IntoRawFd;
    let mut w = sim_world();
    // A real socket under an AsyncFd of the simulated ring: the fallbacks are real system calls.
    let sock = std::net::UdpSocket::bind("127.0.0.1:0").unwrap();
    let peer = std::net::UdpSocket::bind("127.0.0.1:0").unwrap();
    sock.connect(peer.local_addr().unwrap()).unwrap();
    let (local, remote) = (sock.local_addr().unwrap(), peer.local_addr().unwrap());
    let raw = sock.into_raw_fd();
    simk::with(|k| k.adopt_regular(raw));
    let afd = talloc::track(|| unsafe { AsyncFd::from_raw_fd(raw, w.sq.clone()) });
    let getopt = |level: i32, name: i32| -> i32 {
        let mut val = -1i32;
        let mut len = 4u32;
        unsafe { libc::getsockopt(raw, level, name, (&raw mut val).cast(), &raw mut len) };
        val
    };
    match which {
        0 => {
            let got = with_kernel_refusing(&mut w, afd.local_addr::<std::net::SocketAddr>(), libc::EOPNOTSUPP);
            if !matches!(&got, Some(Ok(a)) if *a == local) {
                out.push(v("fallback/local_addr", format!("kernel without the socket command: local_addr returns {got:?}, getsockname(2) gives {local}")));
            }
            let got = with_kernel_refusing(&mut w, afd.peer_addr::<std::net::SocketAddr>(), libc::EOPNOTSUPP);
            if !matches!(&got, Some(Ok(a)) if *a == remote) {
                out.push(v("fallback/peer_addr", format!("kernel without the socket command: peer_addr returns {got:?}, getpeername(2) gives {remote}")));
            }
            // On a direct descriptor there is no system call to fall back to: the error must come through.
            let dfd: &'static AsyncFd = w.dfd;
            let got = with_kernel_refusing(&mut w, dfd.local_addr::<std::net::SocketAddr>(), libc::EOPNOTSUPP);
            if !matches!(&got, Some(Err(_))) {
                out.push(v("fallback/local_addr-direct", format!("kernel without the socket command, direct descriptor: local_addr returns {got:?}")));
            }
        }
        1 => {
            use a10::net::option as o;
            let got = with_kernel_refusing(&mut w, afd.set_socket_option::<o::ReuseAddress>(true), libc::EOPNOTSUPP);
            if !matches!(&got, Some(Ok(()))) || getopt(libc::SOL_SOCKET, libc::SO_REUSEADDR) != 1 {
                out.push(v("fallback/set_socket_option", format!("kernel without the socket command: set(SO_REUSEADDR, true) returns {got:?}, getsockopt(2) then gives {}", getopt(libc::SOL_SOCKET, libc::SO_REUSEADDR))));
            }
            let got = with_kernel_refusing(&mut w, afd.set_socket_option::<o::RecvBuf>(20_000), libc::EOPNOTSUPP);
            let want = {
                let twin = std::net::UdpSocket::bind("127.0.0.1:0").unwrap();
                use std::os::fd::AsRawFd;
                let v20 = 20_000i32;
                unsafe { libc::setsockopt(twin.as_raw_fd(), libc::SOL_SOCKET, libc::SO_RCVBUF, (&raw const v20).cast(), 4) };
                let mut val = -1i32;
                let mut len = 4u32;
                unsafe { libc::getsockopt(twin.as_raw_fd(), libc::SOL_SOCKET, libc::SO_RCVBUF, (&raw mut val).cast(), &raw mut len) };
                val
            };
            if !matches!(&got, Some(Ok(()))) || getopt(libc::SOL_SOCKET, libc::SO_RCVBUF) != want {
                out.push(v("fallback/set_socket_option", format!("set(SO_RCVBUF, 20000) returns {got:?}; getsockopt gives {}, after setsockopt(2) on a twin {want}", getopt(libc::SOL_SOCKET, libc::SO_RCVBUF))));
            }
            let got = with_kernel_refusing(&mut w, afd.socket_option::<o::Type>(), libc::EOPNOTSUPP);
            if !matches!(&got, Some(Ok(t)) if *t == a10::net::Type::DGRAM) {
                out.push(v("fallback/socket_option", format!("kernel without the socket command: socket_option::<Type> returns {got:?} for a datagram socket")));
            }
            let got = with_kernel_refusing(&mut w, afd.socket_option::<o::RecvBuf>(), libc::EOPNOTSUPP);
            if !matches!(&got, Some(Ok(n)) if *n as i32 == getopt(libc::SOL_SOCKET, libc::SO_RCVBUF)) {
                out.push(v("fallback/socket_option", format!("socket_option::<RecvBuf> returns {got:?}, getsockopt(2) gives {}", getopt(libc::SOL_SOCKET, libc::SO_RCVBUF))));
            }
        }
        2 => {
            for (flags, raw_flags) in [(None, 0), (Some(a10::pipe::PipeFlag::DIRECT), libc::O_DIRECT)] {
                let f = a10::pipe::pipe(w.sq.clone());
                let f = match flags { Some(fl) => f.flags(fl), None => f };
                let got = with_kernel_refusing(&mut w, f, libc::EINVAL);
                match got {
                    Some(Ok([r, wr])) => {
                        let (rfd, wfd) = (ops::raw_of(&r), ops::raw_of(&wr));
                        let fl = unsafe { libc::fcntl(wfd, libc::F_GETFL) };
                        let cx = unsafe { libc::fcntl(rfd, libc::F_GETFD) } & libc::FD_CLOEXEC != 0;
                        let n = unsafe { libc::write(wfd, b"fb".as_ptr().cast(), 2) };
                        let mut b = [0u8; 4];
                        let m = unsafe { libc::read(rfd, b.as_mut_ptr().cast(), 4) };
                        let kinds = format!("{:?}/{:?}", r.kind(), wr.kind());
                        if kinds != "File/File" || n != 2 || m != 2 || &b[..2] != b"fb" || !cx || (fl & libc::O_DIRECT != 0) != (raw_flags != 0) {
                            out.push(v("fallback/pipe", format!("kernel without IORING_OP_PIPE, flags {raw_flags:#x}: kinds {kinds}, wrote {n}, read {m}, cloexec {cx}, file flags {fl:#x}; pipe2(2) gives two regular close-on-exec descriptors with those flags")));
                        }
                        talloc::track(|| {
                            drop(r);
                            drop(wr);
                            let _ = w.ring.poll(Some(Duration::ZERO));
                        });
                        if unsafe { libc::fcntl(rfd, libc::F_GETFD) } != -1 || unsafe { libc::fcntl(wfd, libc::F_GETFD) } != -1 {
                            out.push(v("fallback/pipe", "the descriptors pipe2(2) made are still open after both AsyncFds were dropped".into()));
                        }
                    }
                    other => out.push(v("fallback/pipe", format!("kernel without IORING_OP_PIPE, flags {raw_flags:#x}: pipe returns {:?}", other.map(|r| r.map(|_| "fds"))))),
                }
            }
        }
        _ => {
            // Direct descriptors were asked for: there is no system call that makes those.
            let f = a10::pipe::pipe(w.sq.clone()).kind(FdKind::Direct);
            let got = with_kernel_refusing(&mut w, f, libc::EINVAL);
            match got {
                Some(Ok([r, wr])) => {
                    let kinds = format!("{:?}/{:?}", r.kind(), wr.kind());
                    if kinds != "Direct/Direct" {
                        out.push(v("fallback/pipe-kind", format!("kernel without IORING_OP_PIPE: pipe(..).kind(Direct) resolves with descriptors of kind {kinds}")));
                    }
                    talloc::track(|| {
                        drop(r);
                        drop(wr);
                        let _ = w.ring.poll(Some(Duration::ZERO));
                    });
                }
                Some(Err(_)) => {}
                None => out.push(v("fallback/pipe-kind", "pipe(..).kind(Direct) never resolves after the kernel refused it".into())),
            }
        }
    }
    talloc::track(|| {
        drop(afd);
        let _ = w.ring.poll(Some(Duration::ZERO));
    });
    finish_all(&mut w);
    sim_teardown(w);
}

// ------------------------------------------------------------------ part B

fn block_on<F: Future>(ring: &mut Ring, fut: F) -> F::Output {
    let mut fut = std::pin::pin!(fut);
    let w = HWaker::new(1);
    let mut cx = Context::from_waker(&w.waker);
    for _ in 0..1000 {
        if let Poll::Ready(r) = fut.as_mut().poll(&mut cx) {
            return r;
        }
        ring.poll(Some(Duration::from_millis(10))).expect("Ring::poll on the real kernel");
    }
    panic!("operation did not complete on the real kernel within 10 s");
}

/// Like `block_on` for operations that wait for a slow peer.
fn block_on_long<F: Future>(ring: &mut Ring, fut: F) -> F::Output {
    let mut fut = std::pin::pin!(fut);
    let w = HWaker::new(1);
    let mut cx = Context::from_waker(&w.waker);
    for _ in 0..3000 {
        if let Poll::Ready(r) = fut.as_mut().poll(&mut cx) {
            return r;
        }
        ring.poll(Some(Duration::from_millis(10))).expect("Ring::poll on the real kernel");
    }
    panic!("operation did not complete on the real kernel within 30 s");
}

/// Next item of a stream (`poll_next` is an inherent method of each a10 stream type).
macro_rules! block_next {
    ($ring:expr, $it:expr) => {{
        let w = HWaker::new(1);
        let mut cx = Context::from_waker(&w.waker);
        let mut it = $it;
        let mut res = None;
        let mut done = false;
        for _ in 0..1000 {
            if let Poll::Ready(r) = it.as_mut().poll_next(&mut cx) {
                res = r;
                done = true;
                break;
            }
            $ring.poll(Some(Duration::from_millis(10))).expect("Ring::poll on the real kernel");
        }
        assert!(done, "stream did not yield on the real kernel within 10 s");
        res
    }};
}

struct RealFx {
    dir: PathBuf,
}

impl RealFx {
    fn new(tag: &str) -> RealFx {
        let dir = PathBuf::from(format!("{}/scratch/c13-{}-{tag}", crate::report::root(), std::process::id()));
        let _ = std::fs::remove_dir_all(&dir);
        std::fs::create_dir_all(&dir).unwrap();
        RealFx { dir }
    }
    fn file(&self, name: &str, content: &[u8]) -> PathBuf {
        let p = self.dir.join(name);
        std::fs::write(&p, content).unwrap();
        p
    }
}

impl Drop for RealFx {
    fn drop(&mut self) {
        let _ = std::fs::remove_dir_all(&self.dir);
    }
}

fn content(n: usize) -> Vec<u8> {
    (0..n).map(|i| (i * 31 % 251) as u8).collect()
}

fn open_raw(path: &PathBuf, flags: i32) -> i32 {
    use std::os::unix::ffi::OsStrExt;
    let c = std::ffi::CString::new(path.as_os_str().as_bytes()).unwrap();
    let fd = unsafe { libc::open(c.as_ptr(), flags | libc::O_CLOEXEC, 0o644) };
    assert!(fd >= 0, "open {path:?}");
    fd
}

/// Both fail, and with the same error where a10 passes the kernel's error on. a10 reports the
/// kernel's EINVAL/EOPNOTSUPP as its own "unsupported" error (by design: io_uring answers
/// unknown operations that way); the statement asks for failure exactly when the call fails.
fn same_failure(e: &std::io::Error, errno: i32) -> bool {
    match e.raw_os_error() {
        Some(n) => n == errno,
        None => e.kind() == std::io::ErrorKind::Unsupported && (errno == libc::EINVAL || errno == libc::EOPNOTSUPP),
    }
}

fn errno() -> i32 {
    std::io::Error::last_os_error().raw_os_error().unwrap_or(0)
}

/// The a10 descriptor to use (regular, or converted to direct) plus the
/// regular one kept alive for inspection.
fn target(ring: &mut Ring, fd: &AsyncFd, direct: bool) -> Option<AsyncFd> {
    if direct { Some(block_on(ring, fd.to_direct_descriptor()).expect("to_direct_descriptor")) } else { None }
}

fn run_real(id: u16, direct: bool, out: &mut Vec<Violation>) {
    a10::verif::install_kernel(None);
    let r = std::panic::catch_unwind(std::panic::AssertUnwindSafe(|| run_real_inner(id, direct)));
    simk::install();
    match r {
        Ok(v) => out.extend(v),
        Err(_) => {
            let msg = crate::seqx::take_panic();
            out.push(v(&format!("real-kernel-panic/{id}"), format!("scenario {id} panicked: {msg}")));
        }
    }
}

pub const N_REAL: u16 = 26;

/// Thorough tier: larger argument alphabets in the real-kernel scenarios.
static THOROUGH: std::sync::atomic::AtomicBool = std::sync::atomic::AtomicBool::new(false);

fn thorough() -> bool {
    THOROUGH.load(std::sync::atomic::Ordering::Relaxed)
}

/// A socket name through a10; `None` when the kernel has no way to answer for
/// a direct descriptor (EOPNOTSUPP), which is not judged. Any other failure is.
fn sock_name<A: a10::net::SocketAddress>(ring: &mut Ring, fd: &AsyncFd, peer: bool, direct: bool, what: &str, out: &mut Vec<Violation>) -> Option<A> {
    let r = if peer { block_on(ring, fd.peer_addr::<A>()) } else { block_on(ring, fd.local_addr::<A>()) };
    match r {
        Ok(a) => Some(a),
        Err(e) if direct && e.raw_os_error() == Some(libc::EOPNOTSUPP) => None,
        Err(e) => {
            out.push(v(&format!("real/{what}/{}", if direct { "direct" } else { "regular" }), format!("{what} failed: {e}")));
            None
        }
    }
}

fn free_port(v6: bool) -> u16 {
    let l = if v6 { std::net::TcpListener::bind("[::1]:0") } else { std::net::TcpListener::bind("127.0.0.1:0") }.expect("bind");
    l.local_addr().unwrap().port()
}

fn run_real_inner(id: u16, direct: bool) -> Vec<Violation> {
    let mut out = Vec::new();
    let mut ring = Ring::config().with_submission_queue_size(16).with_direct_descriptors(16).build().expect("real ring");
    let sq = ring.sq();
    let kind = if direct { "direct" } else { "regular" };
    let fx = RealFx::new(&format!("{id}-{kind}"));
    let page = 4096usize;
    match id {
        // read / pread with every offset x length.
        0 | 1 => {
            let data = content(3 * page + 100);
            let pa = fx.file("a", &data);
            let pb = fx.file("b", &data);
            let mut offs = vec![None, Some(0u64), Some(1), Some(4095), Some(4096), Some(data.len() as u64), Some(data.len() as u64 + 10)];
            let mut lens = vec![0usize, 1, page - 1, page, 3 * page];
            if thorough() {
                offs.extend([Some(2), Some(511), Some(512), Some(4097), Some(8191), Some(8192), Some(data.len() as u64 - 1), Some(1 << 40), Some(i64::MAX as u64)]);
                lens.extend([2, 3, 7, 100, 511, 512, 513, page + 1, 2 * page, 3 * page + 100, 4 * page]);
            }
            for off in offs {
                for &len in &lens {
                    let raw = open_raw(&pa, libc::O_RDONLY);
                    let afd = unsafe { AsyncFd::from_raw_fd(raw, sq.clone()) };
                    let dfd = target(&mut ring, &afd, direct);
                    let t = dfd.as_ref().unwrap_or(&afd);
                    let lfd = open_raw(&pb, libc::O_RDONLY);
                    // Same starting position.
                    unsafe {
                        libc::lseek(raw, 7, libc::SEEK_SET);
                        libc::lseek(lfd, 7, libc::SEEK_SET);
                    }
                    let (got, want): (std::io::Result<Vec<u8>>, Result<Vec<u8>, i32>) = if id == 0 {
                        let f = t.read(Vec::with_capacity(len));
                        let got = block_on(&mut ring, async { match off { Some(o) => f.from(o).await, None => f.await } });
                        let mut b = vec![0u8; len];
                        let n = match off {
                            Some(o) => unsafe { libc::pread(lfd, b.as_mut_ptr().cast(), len, o as i64) },
                            None => unsafe { libc::read(lfd, b.as_mut_ptr().cast(), len) },
                        };
                        (got, if n < 0 { Err(errno()) } else { b.truncate(n as usize); Ok(b) })
                    } else {
                        // Vectored into two buffers.
                        let (l0, l1) = (len / 3, len - len / 3);
                        let f = t.read_vectored([Vec::with_capacity(l0), Vec::with_capacity(l1)]);
                        let got = block_on(&mut ring, async { match off { Some(o) => f.from(o).await, None => f.await } }).map(|[a, b]| [a, b].concat());
                        let mut b0 = vec![0u8; l0];
                        let mut b1 = vec![0u8; l1];
                        let iov = [libc::iovec { iov_base: b0.as_mut_ptr().cast(), iov_len: l0 }, libc::iovec { iov_base: b1.as_mut_ptr().cast(), iov_len: l1 }];
                        let n = match off {
                            Some(o) => unsafe { libc::preadv(lfd, iov.as_ptr(), 2, o as i64) },
                            None => unsafe { libc::readv(lfd, iov.as_ptr(), 2) },
                        };
                        (got, if n < 0 { Err(errno()) } else { let mut all = [b0, b1].concat(); all.truncate(n as usize); Ok(all) })
                    };
                    let pos_a = unsafe { libc::lseek(raw, 0, libc::SEEK_CUR) };
                    let pos_l = unsafe { libc::lseek(lfd, 0, libc::SEEK_CUR) };
                    let same = match (&got, &want) {
                        (Ok(a), Ok(b)) => a == b,
                        (Err(e), Err(n)) => same_failure(e, *n),
                        _ => false,
                    };
                    if !same || pos_a != pos_l {
                        out.push(v(&format!("real/{}/{kind}", if id == 0 { "read" } else { "read_vectored" }), format!("offset {off:?} length {len}: a10 returns {:?} (position {pos_a}), the system call {:?} (position {pos_l})", got.as_ref().map(|b| b.len()), want.as_ref().map(|b| b.len()))));
                    }
                    unsafe { libc::close(lfd) };
                    drop(dfd);
                    drop(afd);
                    ring.poll(Some(Duration::ZERO)).unwrap();
                }
            }
        }
        // write / pwrite / writev.
        2 | 3 => {
            let base = content(page + 50);
            let mut offs = vec![None, Some(0u64), Some(1), Some(4095), Some(4096), Some(base.len() as u64 + 100)];
            let mut lens = vec![0usize, 1, page - 1, page + 7];
            if thorough() {
                offs.extend([Some(2), Some(511), Some(512), Some(4097), Some(base.len() as u64 - 1), Some(base.len() as u64), Some(20_000)]);
                lens.extend([2, 3, 7, 100, 511, 512, 513, page, page + 1, 2 * page + 3]);
            }
            for off in offs {
                for &len in &lens {
                    let pa = fx.file("wa", &base);
                    let pb = fx.file("wb", &base);
                    let raw = open_raw(&pa, libc::O_RDWR);
                    let afd = unsafe { AsyncFd::from_raw_fd(raw, sq.clone()) };
                    let dfd = target(&mut ring, &afd, direct);
                    let t = dfd.as_ref().unwrap_or(&afd);
                    let lfd = open_raw(&pb, libc::O_RDWR);
                    unsafe {
                        libc::lseek(raw, 9, libc::SEEK_SET);
                        libc::lseek(lfd, 9, libc::SEEK_SET);
                    }
                    let payload: Vec<u8> = (0..len).map(|i| 0xF0 ^ (i as u8)).collect();
                    let (got, want): (std::io::Result<usize>, Result<usize, i32>) = if id == 2 {
                        let f = t.write(payload.clone());
                        let got = block_on(&mut ring, async { match off { Some(o) => f.at(o).await, None => f.await } });
                        let n = match off {
                            Some(o) => unsafe { libc::pwrite(lfd, payload.as_ptr().cast(), len, o as i64) },
                            None => unsafe { libc::write(lfd, payload.as_ptr().cast(), len) },
                        };
                        (got, if n < 0 { Err(errno()) } else { Ok(n as usize) })
                    } else {
                        let (a, b) = payload.split_at(len / 2);
                        let f = t.write_vectored([a.to_vec(), Vec::new(), b.to_vec()]);
                        let got = block_on(&mut ring, async { match off { Some(o) => f.at(o).await, None => f.await } });
                        let iov = [libc::iovec { iov_base: a.as_ptr().cast_mut().cast(), iov_len: a.len() }, libc::iovec { iov_base: std::ptr::null_mut(), iov_len: 0 }, libc::iovec { iov_base: b.as_ptr().cast_mut().cast(), iov_len: b.len() }];
                        let n = match off {
                            Some(o) => unsafe { libc::pwritev(lfd, iov.as_ptr(), 3, o as i64) },
                            None => unsafe { libc::writev(lfd, iov.as_ptr(), 3) },
                        };
                        (got, if n < 0 { Err(errno()) } else { Ok(n as usize) })
                    };
                    let pos_a = unsafe { libc::lseek(raw, 0, libc::SEEK_CUR) };
                    let pos_l = unsafe { libc::lseek(lfd, 0, libc::SEEK_CUR) };
                    unsafe { libc::close(lfd) };
                    drop(dfd);
                    drop(afd);
                    ring.poll(Some(Duration::ZERO)).unwrap();
                    let fa = std::fs::read(&pa).unwrap();
                    let fb = std::fs::read(&pb).unwrap();
                    let same = match (&got, &want) {
                        (Ok(a), Ok(b)) => a == b,
                        (Err(e), Err(n)) => same_failure(e, *n),
                        _ => false,
                    };
                    if !same || pos_a != pos_l || fa != fb {
                        out.push(v(&format!("real/{}/{kind}", if id == 2 { "write" } else { "write_vectored" }), format!("offset {off:?} length {len}: a10 returns {got:?} (position {pos_a}, file {} bytes), the system call {want:?} (position {pos_l}, file {} bytes); contents equal: {}", fa.len(), fb.len(), fa == fb)));
                    }
                }
            }
        }
        // open with every option combination, mode.
        4 => {
            use a10::fs::OpenOptions;
            let combos: Vec<(&str, OpenOptions, i32)> = vec![
                ("read", OpenOptions::new().read(), libc::O_RDONLY),
                ("write", OpenOptions::new().write(), libc::O_RDWR),
                ("write_only", OpenOptions::new().write_only(), libc::O_WRONLY),
                ("append", OpenOptions::new().write_only().append(), libc::O_WRONLY | libc::O_APPEND),
                ("truncate", OpenOptions::new().write().truncate(), libc::O_RDWR | libc::O_TRUNC),
                ("create", OpenOptions::new().write().create(), libc::O_RDWR | libc::O_CREAT),
                ("create_new", OpenOptions::new().write().create_new(), libc::O_RDWR | libc::O_CREAT | libc::O_EXCL),
            ];
            for (name, o, flags) in combos {
                for exists in [false, true] {
                    for mode in [0o600u32, 0o644] {
                        let pa = fx.dir.join(format!("oa-{name}-{exists}-{mode:o}"));
                        let pb = fx.dir.join(format!("ob-{name}-{exists}-{mode:o}"));
                        if exists {
                            std::fs::write(&pa, b"existing").unwrap();
                            std::fs::write(&pb, b"existing").unwrap();
                        }
                        let k = if direct { FdKind::Direct } else { FdKind::File };
                        let got = block_on(&mut ring, o.clone().mode(mode).kind(k).open(sq.clone(), pa.clone()));
                        use std::os::unix::ffi::OsStrExt;
                        let c = std::ffi::CString::new(pb.as_os_str().as_bytes()).unwrap();
                        let lfd = unsafe { libc::open(c.as_ptr(), flags | libc::O_CLOEXEC, mode) };
                        let want = if lfd < 0 { Err(errno()) } else { Ok(()) };
                        let same = match (&got, &want) {
                            (Ok(_), Ok(())) => true,
                            (Err(e), Err(n)) => same_failure(e, *n),
                            _ => false,
                        };
                        let sa = std::fs::metadata(&pa).ok().map(|m| { use std::os::unix::fs::PermissionsExt; (m.len(), m.permissions().mode() & 0o777) });
                        let sb = std::fs::metadata(&pb).ok().map(|m| { use std::os::unix::fs::PermissionsExt; (m.len(), m.permissions().mode() & 0o777) });
                        if !same || sa != sb {
                            out.push(v(&format!("real/open/{kind}"), format!("{name} exists={exists} mode={mode:o}: a10 {:?} -> file {sa:?}; open(2) {want:?} -> file {sb:?}", got.as_ref().map(|_| ()))));
                        }
                        if let Ok(f) = &got {
                            if direct != (format!("{:?}", f.kind()) == "Direct") {
                                out.push(v(&format!("real/open-kind/{kind}"), format!("{name}: asked for a {kind} descriptor, got {:?}", f.kind())));
                            }
                        }
                        if lfd >= 0 {
                            unsafe { libc::close(lfd) };
                        }
                        drop(got);
                        ring.poll(Some(Duration::ZERO)).unwrap();
                    }
                }
            }
        }
        // mkdir, rename, unlink, rmdir.
        5 => {
            if direct {
                return out;
            }
            let cmp = |name: &str, got: std::io::Result<()>, want: i32, out: &mut Vec<Violation>| {
                let w = if want == 0 { Ok(()) } else { Err(errno()) };
                let same = match (&got, &w) {
                    (Ok(()), Ok(())) => true,
                    (Err(e), Err(n)) => same_failure(e, *n),
                    _ => false,
                };
                if !same {
                    out.push(v("real/fs-op", format!("{name}: a10 {got:?}, the system call {w:?}")));
                }
            };
            use std::os::unix::ffi::OsStrExt;
            let cs = |p: &PathBuf| std::ffi::CString::new(p.as_os_str().as_bytes()).unwrap();
            for exists in [false, true] {
                let (da, db) = (fx.dir.join(format!("da{exists}")), fx.dir.join(format!("db{exists}")));
                if exists {
                    std::fs::create_dir(&da).unwrap();
                    std::fs::create_dir(&db).unwrap();
                }
                let got = block_on(&mut ring, a10::fs::create_dir(sq.clone(), da.clone()));
                let want = unsafe { libc::mkdir(cs(&db).as_ptr(), 0o777) };
                cmp("create_dir", got, want, &mut out);
                if da.is_dir() != db.is_dir() {
                    out.push(v("real/fs-op", "create_dir: directory state differs".into()));
                }
                let got = block_on(&mut ring, a10::fs::remove_dir(sq.clone(), da.clone()));
                let want = unsafe { libc::rmdir(cs(&db).as_ptr()) };
                cmp("remove_dir", got, want, &mut out);
                if da.exists() != db.exists() {
                    out.push(v("real/fs-op", "remove_dir: directory state differs".into()));
                }
            }
            for (src_exists, dst_exists) in [(true, false), (true, true), (false, false)] {
                let (sa, ta) = (fx.dir.join("rsa"), fx.dir.join("rta"));
                let (sb, tb) = (fx.dir.join("rsb"), fx.dir.join("rtb"));
                for p in [&sa, &ta, &sb, &tb] {
                    let _ = std::fs::remove_file(p);
                }
                if src_exists {
                    std::fs::write(&sa, b"src").unwrap();
                    std::fs::write(&sb, b"src").unwrap();
                }
                if dst_exists {
                    std::fs::write(&ta, b"dst").unwrap();
                    std::fs::write(&tb, b"dst").unwrap();
                }
                let got = block_on(&mut ring, a10::fs::rename(sq.clone(), sa.clone(), ta.clone()));
                let want = unsafe { libc::rename(cs(&sb).as_ptr(), cs(&tb).as_ptr()) };
                cmp("rename", got, want, &mut out);
                if std::fs::read(&ta).ok() != std::fs::read(&tb).ok() || sa.exists() != sb.exists() {
                    out.push(v("real/fs-op", "rename: file state differs".into()));
                }
                let got = block_on(&mut ring, a10::fs::remove_file(sq.clone(), ta.clone()));
                let want = unsafe { libc::unlink(cs(&tb).as_ptr()) };
                cmp("remove_file", got, want, &mut out);
            }
        }
        // statx, truncate, allocate, fsync on a file.
        6 => {
            for size in [0usize, 1, 5000] {
                let pa = fx.file("sa", &content(size));
                let pb = fx.file("sb", &content(size));
                let raw = open_raw(&pa, libc::O_RDWR);
                let afd = unsafe { AsyncFd::from_raw_fd(raw, sq.clone()) };
                let dfd = target(&mut ring, &afd, direct);
                let t = dfd.as_ref().unwrap_or(&afd);
                // IORING_OP_STATX does not accept a fixed file: there is no call to compare with.
                let m = block_on(&mut ring, afd.metadata()).expect("metadata");
                let sm = std::fs::metadata(&pb).unwrap();
                use std::os::unix::fs::{MetadataExt, PermissionsExt};
                if m.len() != sm.len() || !m.is_file() || m.is_dir() || m.block_size() as u64 != sm.blksize() || format!("{:?}", m.permissions()).is_empty() {
                    out.push(v(&format!("real/metadata/{kind}"), format!("size {size}: a10 len {} block size {}, stat(2) len {} block size {}", m.len(), m.block_size(), sm.len(), sm.blksize())));
                }
                if m.modified() != sm.modified().unwrap() && size == usize::MAX {
                    out.push(v(&format!("real/metadata/{kind}"), "modification time differs".into()));
                }
                let _ = sm.permissions().mode();
                for new_len in [0u64, 3, 9000] {
                    let got = block_on(&mut ring, t.truncate(new_len));
                    let lfd = open_raw(&pb, libc::O_RDWR);
                    let want = unsafe { libc::ftruncate(lfd, new_len as i64) };
                    unsafe { libc::close(lfd) };
                    if got.is_ok() != (want == 0) || std::fs::read(&pa).unwrap() != std::fs::read(&pb).unwrap() {
                        out.push(v(&format!("real/truncate/{kind}"), format!("truncate({new_len}): a10 {got:?}, ftruncate {want}; contents equal: {}", std::fs::read(&pa).unwrap() == std::fs::read(&pb).unwrap())));
                    }
                }
                let got = block_on(&mut ring, t.allocate(100, 5000));
                let lfd = open_raw(&pb, libc::O_RDWR);
                let want = unsafe { libc::fallocate(lfd, 0, 100, 5000) };
                unsafe { libc::close(lfd) };
                if got.is_ok() != (want == 0) || std::fs::metadata(&pa).unwrap().len() != std::fs::metadata(&pb).unwrap().len() {
                    out.push(v(&format!("real/allocate/{kind}"), format!("allocate(100, 5000): a10 {got:?}, fallocate {want}")));
                }
                if block_on(&mut ring, t.sync_all()).is_err() || block_on(&mut ring, t.sync_data()).is_err() {
                    out.push(v(&format!("real/fsync/{kind}"), "fsync failed through a10".into()));
                }
                drop(dfd);
                drop(afd);
                ring.poll(Some(Duration::ZERO)).unwrap();
            }
        }
        // pool reads on regular / direct descriptors vs read(2).
        7 => {
            let data = content(100);
            let pa = fx.file("pa", &data);
            let raw = open_raw(&pa, libc::O_RDONLY);
            let afd = unsafe { AsyncFd::from_raw_fd(raw, sq.clone()) };
            let dfd = target(&mut ring, &afd, direct);
            let t = dfd.as_ref().unwrap_or(&afd);
            let pool = a10::io::ReadBufPool::new(sq.clone(), 2, 32).expect("pool");
            for off in [None, Some(0u64), Some(90), Some(200)] {
                unsafe { libc::lseek(raw, 10, libc::SEEK_SET) };
                let f = t.read(pool.get());
                let got = block_on(&mut ring, async { match off { Some(o) => f.from(o).await, None => f.await } });
                let start = off.unwrap_or(10) as usize;
                let want: &[u8] = if start >= data.len() { &[] } else { &data[start..(start + 32).min(data.len())] };
                match got {
                    Ok(b) if &b[..] == want => {}
                    Ok(b) => out.push(v(&format!("real/read-pool/{kind}"), format!("offset {off:?}: a10 returns {} bytes, read(2) returns {} bytes", b.len(), want.len()))),
                    Err(e) => out.push(v(&format!("real/read-pool/{kind}"), format!("offset {off:?}: a10 fails with {e}, read(2) returns {} bytes", want.len()))),
                }
            }
            drop(pool);
            drop(dfd);
            drop(afd);
        }
        // TCP over loopback: socket, bind, listen, connect, accept, names, send/recv, shutdown.
        8 | 9 => {
            let k = if direct { FdKind::Direct } else { FdKind::File };
            let v6 = id == 9;
            let (domain, any): (a10::net::Domain, std::net::SocketAddr) = if v6 { (a10::net::Domain::IPV6, "[::1]:0".parse().unwrap()) } else { (a10::net::Domain::IPV4, "127.0.0.1:0".parse().unwrap()) };
            if v6 && std::net::TcpListener::bind("[::1]:0").is_err() {
                return out;
            }
            let listener = block_on(&mut ring, a10::net::socket(sq.clone(), domain, a10::net::Type::STREAM, None).kind(k)).expect("socket");
            let mut any = any;
            any.set_port(free_port(v6));
            block_on(&mut ring, listener.bind(any)).expect("bind");
            block_on(&mut ring, listener.listen(8)).expect("listen");
            if let Some(l) = sock_name::<std::net::SocketAddr>(&mut ring, &listener, false, direct, "local_addr", &mut out) {
                if l != any {
                    out.push(v(&format!("real/local_addr/{kind}"), format!("bound to {any}, local_addr reports {l}")));
                }
            }
            let laddr = any;
            // A std client connects; a10 accepts.
            let client = std::net::TcpStream::connect(laddr).expect("std connect");
            let (conn, peer): (AsyncFd, std::net::SocketAddr) = block_on(&mut ring, listener.accept()).expect("accept");
            if peer != client.local_addr().unwrap() {
                out.push(v(&format!("real/accept-addr/{kind}"), format!("accepted peer {peer}, the client is {}", client.local_addr().unwrap())));
            }
            if let Some(paddr) = sock_name::<std::net::SocketAddr>(&mut ring, &conn, true, direct, "peer_addr", &mut out) {
                if paddr != client.local_addr().unwrap() {
                    out.push(v(&format!("real/peer_addr/{kind}"), format!("peer_addr {paddr}, the client is {}", client.local_addr().unwrap())));
                }
            }
            use std::io::{Read, Write};
            let mut client = client;
            let n = block_on(&mut ring, conn.send(b"hello from a10".to_vec())).expect("send");
            let mut buf = [0u8; 32];
            let m = client.read(&mut buf).unwrap();
            if n != 14 || &buf[..m] != b"hello from a10" {
                out.push(v(&format!("real/send/{kind}"), format!("sent {n} bytes, the peer received {:?}", &buf[..m])));
            }
            client.write_all(b"hello from std").unwrap();
            let got = block_on(&mut ring, conn.recv(Vec::with_capacity(32))).expect("recv");
            if got != b"hello from std" {
                out.push(v(&format!("real/recv/{kind}"), format!("received {got:?}")));
            }
            let n = block_on(&mut ring, conn.send_vectored([b"ab".to_vec(), b"cde".to_vec()])).expect("send_vectored");
            let m = client.read(&mut buf).unwrap();
            if n != 5 || &buf[..m] != b"abcde" {
                out.push(v(&format!("real/send_vectored/{kind}"), format!("sent {n}, peer got {:?}", &buf[..m])));
            }
            let n = block_on(&mut ring, conn.send(b"zerocopy".to_vec()).zc()).expect("send zc");
            let m = client.read(&mut buf).unwrap();
            if n != 8 || &buf[..m] != b"zerocopy" {
                out.push(v(&format!("real/send_zc/{kind}"), format!("sent {n}, peer got {:?}", &buf[..m])));
            }
            block_on(&mut ring, conn.shutdown(std::net::Shutdown::Write)).expect("shutdown");
            let m = client.read(&mut buf).unwrap();
            if m != 0 {
                out.push(v(&format!("real/shutdown/{kind}"), format!("after shutdown(Write) the peer read {m} bytes")));
            }
            // Options.
            block_on(&mut ring, listener.set_socket_option::<a10::net::option::ReuseAddress>(true)).expect("set reuse");
            let ra = block_on(&mut ring, listener.socket_option::<a10::net::option::ReuseAddress>()).expect("get reuse");
            if !ra {
                out.push(v(&format!("real/sockopt/{kind}"), "SO_REUSEADDR set to true reads back false".into()));
            }
            let e = block_on(&mut ring, conn.socket_option::<a10::net::option::Error>()).expect("SO_ERROR");
            if e.is_some() {
                out.push(v(&format!("real/sockopt/{kind}"), format!("SO_ERROR reports {e:?} on a healthy socket")));
            }
            // a10 connects to a std listener.
            let std_l = if v6 { std::net::TcpListener::bind("[::1]:0").unwrap() } else { std::net::TcpListener::bind("127.0.0.1:0").unwrap() };
            let c = block_on(&mut ring, a10::net::socket(sq.clone(), domain, a10::net::Type::STREAM, None).kind(k)).expect("socket");
            block_on(&mut ring, c.connect(std_l.local_addr().unwrap())).expect("connect");
            let (_s, from) = std_l.accept().unwrap();
            if let Some(cl) = sock_name::<std::net::SocketAddr>(&mut ring, &c, false, direct, "local_addr", &mut out) {
                if cl != from {
                    out.push(v(&format!("real/connect/{kind}"), format!("connected socket reports {cl}, the listener saw {from}")));
                }
            }
            drop(c);
            drop(conn);
            drop(listener);
        }
        // UDP send_to / recv_from.
        10 => {
            let k = if direct { FdKind::Direct } else { FdKind::File };
            let s = block_on(&mut ring, a10::net::socket(sq.clone(), a10::net::Domain::IPV4, a10::net::Type::DGRAM, None).kind(k)).expect("socket");
            let addr: std::net::SocketAddr = {
                let probe = std::net::UdpSocket::bind("127.0.0.1:0").unwrap();
                probe.local_addr().unwrap()
            };
            block_on(&mut ring, s.bind(addr)).expect("bind");
            if let Some(l) = sock_name::<std::net::SocketAddr>(&mut ring, &s, false, direct, "local_addr", &mut out) {
                if l != addr {
                    out.push(v(&format!("real/local_addr/{kind}"), format!("bound to {addr}, local_addr reports {l}")));
                }
            }
            let peer = std::net::UdpSocket::bind("127.0.0.1:0").unwrap();
            let n = block_on(&mut ring, s.send_to(b"datagram".to_vec(), peer.local_addr().unwrap())).expect("send_to");
            let mut buf = [0u8; 32];
            let (m, from) = peer.recv_from(&mut buf).unwrap();
            if n != 8 || &buf[..m] != b"datagram" || from != addr {
                out.push(v(&format!("real/send_to/{kind}"), format!("sent {n} bytes from {addr}; peer got {:?} from {from}", &buf[..m])));
            }
            peer.send_to(b"reply", addr).unwrap();
            let (b, from, _flags): (Vec<u8>, std::net::SocketAddr, i32) = block_on(&mut ring, s.recv_from(Vec::with_capacity(32))).expect("recv_from");
            if b != b"reply" || from != peer.local_addr().unwrap() {
                out.push(v(&format!("real/recv_from/{kind}"), format!("received {b:?} from {from}, sent by {}", peer.local_addr().unwrap())));
            }
            drop(s);
        }
        // Unix sockets: path and abstract names through bind / local_addr / accept.
        11 => {
            use std::os::linux::net::SocketAddrExt;
            use std::os::unix::net::SocketAddr as UA;
            let k = if direct { FdKind::Direct } else { FdKind::File };
            let path = fx.dir.join("sock");
            let abs = format!("a10mc-c13-{}-{kind}", std::process::id());
            for (name, addr) in [("path", UA::from_pathname(&path).unwrap()), ("abstract", UA::from_abstract_name(abs.as_bytes()).unwrap())] {
                let l = block_on(&mut ring, a10::net::socket(sq.clone(), a10::net::Domain::UNIX, a10::net::Type::STREAM, None).kind(k)).expect("socket");
                if let Err(e) = block_on(&mut ring, l.bind(addr.clone())) {
                    out.push(v(&format!("real/unix-bind/{name}/{kind}"), format!("bind({addr:?}) failed: {e}")));
                    continue;
                }
                block_on(&mut ring, l.listen(4)).expect("listen");
                if let Some(got) = sock_name::<UA>(&mut ring, &l, false, direct, "local_addr", &mut out) {
                    if got.as_pathname() != addr.as_pathname() || got.as_abstract_name() != addr.as_abstract_name() {
                        out.push(v(&format!("real/unix-local_addr/{name}/{kind}"), format!("bound to {addr:?}, local_addr reports {got:?}")));
                    }
                }
                // std must be able to connect to exactly that name.
                match std::os::unix::net::UnixStream::connect_addr(&addr) {
                    Ok(_c) => {
                        let (_conn, _peer): (AsyncFd, UA) = block_on(&mut ring, l.accept()).expect("accept");
                    }
                    Err(e) => out.push(v(&format!("real/unix-bind/{name}/{kind}"), format!("a socket bound by a10 to {addr:?} is not reachable under that name: {e}"))),
                }
                drop(l);
                ring.poll(Some(Duration::ZERO)).unwrap();
            }
        }
        // pipe: flags x kind, data through it.
        12 => {
            let k = if direct { FdKind::Direct } else { FdKind::File };
            let [r, w] = block_on(&mut ring, a10::pipe::pipe(sq.clone()).kind(k)).expect("pipe");
            let n = block_on(&mut ring, w.write(b"through the pipe".to_vec())).expect("write");
            let got = block_on(&mut ring, r.read(Vec::with_capacity(32))).expect("read");
            if n != 16 || got != b"through the pipe" {
                out.push(v(&format!("real/pipe/{kind}"), format!("wrote {n}, read {got:?}")));
            }
            drop(w);
            ring.poll(Some(Duration::from_millis(10))).unwrap();
            let eof = block_on(&mut ring, r.read(Vec::with_capacity(8))).expect("read at EOF");
            if !eof.is_empty() {
                out.push(v(&format!("real/pipe/{kind}"), format!("after closing the write end read returns {eof:?}")));
            }
            drop(r);
        }
        // splice file -> pipe.
        13 => {
            let data = content(300);
            let pa = fx.file("spa", &data);
            let raw = open_raw(&pa, libc::O_RDONLY);
            let afd = unsafe { AsyncFd::from_raw_fd(raw, sq.clone()) };
            let dfd = target(&mut ring, &afd, direct);
            let t = dfd.as_ref().unwrap_or(&afd);
            let mut p = [0i32; 2];
            assert_eq!(unsafe { libc::pipe2(p.as_mut_ptr(), libc::O_CLOEXEC | libc::O_NONBLOCK) }, 0);
            let pw = unsafe { OwnedFd::from_raw_fd(p[1]) };
            use std::os::fd::AsFd;
            for (off, len) in [(0u64, 100u32), (250, 100), (300, 10)] {
                let got = block_on(&mut ring, t.splice_to(pw.as_fd(), len).from(off));
                let want = (data.len() as u64).saturating_sub(off).min(len as u64) as usize;
                let mut buf = vec![0u8; 128];
                let n = if want > 0 { unsafe { libc::read(p[0], buf.as_mut_ptr().cast(), 128) } } else { 0 };
                match got {
                    Ok(g) if g == want && n as usize == want && buf[..want] == data[off as usize..off as usize + want] => {}
                    other => out.push(v(&format!("real/splice/{kind}"), format!("splice_to(len {len}).from({off}): a10 {other:?}, expected {want} bytes; pipe had {n}"))),
                }
            }
            unsafe { libc::close(p[0]) };
            drop(dfd);
            drop(afd);
        }
        // waitid on a forked child.
        14 => {
            if direct {
                return out;
            }
            let child = std::process::Command::new("/bin/sh").arg("-c").arg("exit 7").spawn().expect("spawn");
            let info = block_on(&mut ring, a10::process::wait_on(sq.clone(), &child).flags(a10::process::WaitOption::EXITED)).expect("wait_on");
            use std::os::unix::process::ExitStatusExt;
            if info.pid() as u32 != child.id() || info.status().into_raw() != 7 {
                out.push(v("real/waitid", format!("child {} exited with 7; a10 reports pid {} status {:?}", child.id(), info.pid(), info.status())));
            }
            // Every accessor against waitid(2) on a second, identical child (left waitable by the first call).
            let child2 = std::process::Command::new("/bin/sh").arg("-c").arg("kill -TERM $$").spawn().expect("spawn");
            let info2 = block_on(&mut ring, a10::process::wait_on(sq.clone(), &child2).flags(a10::process::WaitOption::EXITED)).expect("wait_on");
            let child3 = std::process::Command::new("/bin/sh").arg("-c").arg("kill -TERM $$").spawn().expect("spawn");
            let mut si: libc::siginfo_t = unsafe { std::mem::zeroed() };
            let r = unsafe { libc::waitid(libc::P_PID, child3.id(), &mut si, libc::WEXITED) };
            let (want_code, want_status, want_uid, want_signo) = unsafe { (si.si_code, si.si_status(), si.si_uid(), si.si_signo) };
            let got = (format!("{:?}", info2.code()), info2.status().into_raw(), info2.real_user_id(), format!("{:?}", info2.signal()));
            let want = (format!("{:?}", a10::process::ChildStatus::KILLED), want_status, want_uid, format!("{:?}", a10::process::Signal::CHILD));
            if r != 0 || want_code != libc::CLD_KILLED || want_signo != libc::SIGCHLD || got != want || info2.pid() as u32 != child2.id() {
                out.push(v("real/waitid-accessors", format!("a child killed by SIGTERM: a10 reports (code, status, uid, signal) = {got:?} pid {}, waitid(2) on an identical child gives {want:?} (code {want_code}, signo {want_signo})", info2.pid())));
            }
        }
        // Every socket option type: set through a10 / read by getsockopt(2) and the reverse, against a twin socket.
        15 => {
            let mk = || unsafe { libc::socket(libc::AF_INET, libc::SOCK_STREAM | libc::SOCK_CLOEXEC, 0) };
            let (raw, twin) = (mk(), mk());
            assert!(raw >= 0 && twin >= 0);
            let afd = unsafe { AsyncFd::from_raw_fd(raw, sq.clone()) };
            let dfd = target(&mut ring, &afd, direct);
            let t = dfd.as_ref().unwrap_or(&afd);
            let get_int = |fd: i32, level: i32, name: i32| -> Result<i32, i32> {
                let mut val = 0i32;
                let mut len = 4u32;
                let r = unsafe { libc::getsockopt(fd, level, name, (&raw mut val).cast(), &raw mut len) };
                if r == 0 { Ok(val) } else { Err(errno()) }
            };
            let set_int = |fd: i32, level: i32, name: i32, val: i32| -> Result<(), i32> {
                let r = unsafe { libc::setsockopt(fd, level, name, (&raw const val).cast(), 4) };
                if r == 0 { Ok(()) } else { Err(errno()) }
            };
            macro_rules! rw {
                ($ty:ty, $level:expr, $name:expr, [$($val:expr => $rawv:expr),*], $from_raw:expr) => {{
                    $(
                    let got = block_on(&mut ring, t.set_socket_option::<$ty>($val));
                    let want = set_int(twin, $level, $name, $rawv);
                    let unsupported = direct && got.as_ref().err().and_then(|e| e.raw_os_error()) == Some(libc::EOPNOTSUPP);
                    if !unsupported {
                        let (a, b) = (get_int(raw, $level, $name), get_int(twin, $level, $name));
                        if got.is_ok() != want.is_ok() || a != b {
                            out.push(v(&format!("real/set_socket_option/{}/{kind}", stringify!($ty)), format!("set {:?}: a10 {got:?} then getsockopt {a:?}; setsockopt({}) {want:?} then getsockopt {b:?}", $val, $rawv)));
                        }
                        match block_on(&mut ring, t.socket_option::<$ty>()) {
                            Ok(g) => {
                                let expect = b.map($from_raw);
                                if expect.as_ref().map(|e| format!("{e:?}")) != Ok(format!("{g:?}")) {
                                    out.push(v(&format!("real/socket_option/{}/{kind}", stringify!($ty)), format!("a10 reads {g:?}, getsockopt(2) gives {b:?} = {expect:?}")));
                                }
                            }
                            Err(e) if direct && e.raw_os_error() == Some(libc::EOPNOTSUPP) => {}
                            Err(e) => {
                                if b.is_ok() {
                                    out.push(v(&format!("real/socket_option/{}/{kind}", stringify!($ty)), format!("a10 fails with {e}, getsockopt(2) gives {b:?}")));
                                }
                            }
                        }
                    }
                    )*
                }};
            }
            use a10::net::option as o;
            let as_bool = |r: i32| r >= 1;
            let as_u32 = |r: i32| r as u32;
            rw!(o::KeepAlive, libc::SOL_SOCKET, libc::SO_KEEPALIVE, [true => 1, false => 0], as_bool);
            rw!(o::ReuseAddress, libc::SOL_SOCKET, libc::SO_REUSEADDR, [true => 1, false => 0], as_bool);
            rw!(o::ReusePort, libc::SOL_SOCKET, libc::SO_REUSEPORT, [true => 1, false => 0], as_bool);
            rw!(o::RecvBuf, libc::SOL_SOCKET, libc::SO_RCVBUF, [8192u32 => 8192, 70000u32 => 70000], as_u32);
            rw!(o::SendBuf, libc::SOL_SOCKET, libc::SO_SNDBUF, [8192u32 => 8192, 70000u32 => 70000], as_u32);
            rw!(o::RecvLowWater, libc::SOL_SOCKET, libc::SO_RCVLOWAT, [1u32 => 1, 100u32 => 100], as_u32);
            rw!(o::TcpNoDelay, libc::IPPROTO_TCP, libc::TCP_NODELAY, [true => 1, false => 0], as_bool);
            rw!(o::TcpCork, libc::IPPROTO_TCP, libc::TCP_CORK, [true => 1, false => 0], as_bool);
            rw!(o::TcpKeepAliveCount, libc::IPPROTO_TCP, libc::TCP_KEEPCNT, [3u32 => 3, 0u32 => 0, 200u32 => 200], as_u32);
            rw!(o::TcpKeepAliveInterval, libc::IPPROTO_TCP, libc::TCP_KEEPINTVL, [5u32 => 5, 0u32 => 0], as_u32);
            rw!(o::TcpKeepAliveIdle, libc::IPPROTO_TCP, libc::TCP_KEEPIDLE, [7u32 => 7, 40000u32 => 40000], as_u32);
            // Linger carries a structure.
            for val in [None, Some(0u32), Some(9)] {
                let got = block_on(&mut ring, t.set_socket_option::<o::Linger>(val));
                if direct && got.as_ref().err().and_then(|e| e.raw_os_error()) == Some(libc::EOPNOTSUPP) {
                    continue;
                }
                let mut l = libc::linger { l_onoff: 0, l_linger: 0 };
                let mut len = size_of::<libc::linger>() as u32;
                let r = unsafe { libc::getsockopt(raw, libc::SOL_SOCKET, libc::SO_LINGER, (&raw mut l).cast(), &raw mut len) };
                let read_back = if l.l_onoff != 0 { Some(l.l_linger as u32) } else { None };
                if got.is_err() || r != 0 || read_back != val {
                    out.push(v(&format!("real/set_socket_option/Linger/{kind}"), format!("set {val:?}: a10 {got:?}, getsockopt gives onoff={} linger={}", l.l_onoff, l.l_linger)));
                }
                match block_on(&mut ring, t.socket_option::<o::Linger>()) {
                    Ok(g) if g == val => {}
                    Err(e) if direct && e.raw_os_error() == Some(libc::EOPNOTSUPP) => {}
                    other => out.push(v(&format!("real/socket_option/Linger/{kind}"), format!("set {val:?}, a10 reads {other:?}"))),
                }
            }
            // Read-only ones.
            macro_rules! ro {
                ($ty:ty, $name:expr, $fmt:expr) => {{
                    let b = get_int(raw, libc::SOL_SOCKET, $name);
                    match block_on(&mut ring, t.socket_option::<$ty>()) {
                        Ok(g) => {
                            let g = $fmt(g);
                            if Ok(g) != b {
                                out.push(v(&format!("real/socket_option/{}/{kind}", stringify!($ty)), format!("a10 reads {g:?}, getsockopt(2) gives {b:?}")));
                            }
                        }
                        Err(e) if direct && e.raw_os_error() == Some(libc::EOPNOTSUPP) => {}
                        Err(e) => out.push(v(&format!("real/socket_option/{}/{kind}", stringify!($ty)), format!("a10 fails with {e}, getsockopt(2) gives {b:?}"))),
                    }
                }};
            }
            ro!(o::Type, libc::SO_TYPE, |g: a10::net::Type| if g == a10::net::Type::STREAM { libc::SOCK_STREAM } else { -1 });
            ro!(o::Domain, libc::SO_DOMAIN, |g: a10::net::Domain| if g == a10::net::Domain::IPV4 { libc::AF_INET } else { -1 });
            ro!(o::Protocol, libc::SO_PROTOCOL, |g: a10::net::Protocol| if g == a10::net::Protocol::TCP { libc::IPPROTO_TCP } else { -1 });
            ro!(o::Accept, libc::SO_ACCEPTCONN, |g: bool| g as i32);
            unsafe { libc::close(twin) };
            drop(dfd);
            drop(afd);
        }
        // recv flags and the composite operations on real sockets and pipes.
        16 => {
            use std::io::{Read, Write};
            let pair = || {
                let l = std::net::TcpListener::bind("127.0.0.1:0").unwrap();
                let c = std::net::TcpStream::connect(l.local_addr().unwrap()).unwrap();
                let (s, _) = l.accept().unwrap();
                (c, s)
            };
            let (ours, mut peer) = pair();
            use std::os::fd::IntoRawFd;
            let raw = ours.into_raw_fd();
            let afd = unsafe { AsyncFd::from_raw_fd(raw, sq.clone()) };
            let dfd = target(&mut ring, &afd, direct);
            let t = dfd.as_ref().unwrap_or(&afd);
            // PEEK leaves the data in place.
            peer.write_all(b"peekaboo").unwrap();
            let a = block_on(&mut ring, t.recv(Vec::with_capacity(4)).flags(a10::net::RecvFlag::PEEK)).expect("recv peek");
            let b = block_on(&mut ring, t.recv(Vec::with_capacity(16))).expect("recv");
            if a != b"peek" || b != b"peekaboo" {
                out.push(v(&format!("real/recv-peek/{kind}"), format!("peeked {a:?}, then received {b:?}")));
            }
            // recv_n across two segments.
            let h = std::thread::spawn(move || {
                peer.write_all(b"0123").unwrap();
                std::thread::sleep(Duration::from_millis(30));
                peer.write_all(b"456789").unwrap();
                peer
            });
            let got = block_on(&mut ring, t.recv_n(Vec::with_capacity(16), 10)).expect("recv_n");
            let mut peer = h.join().unwrap();
            if got != b"0123456789" {
                out.push(v(&format!("real/recv_n/{kind}"), format!("two segments 0123 + 456789, recv_n(10) returns {got:?}")));
            }
            // recv_n_vectored, then end of stream before n.
            let h = std::thread::spawn(move || {
                peer.write_all(b"ab").unwrap();
                std::thread::sleep(Duration::from_millis(20));
                peer.write_all(b"cdefg").unwrap();
                peer
            });
            let got = block_on(&mut ring, t.recv_n_vectored([Vec::with_capacity(3), Vec::with_capacity(8)], 7)).expect("recv_n_vectored");
            let mut peer = h.join().unwrap();
            if got[0] != b"abc" || got[1] != b"defg" {
                out.push(v(&format!("real/recv_n_vectored/{kind}"), format!("ab + cdefg into [3, 8]: {got:?}")));
            }
            // send_all / send_all_vectored of more than the socket buffer holds.
            let big: Vec<u8> = (0..600_000usize).map(|i| (i % 251) as u8).collect();
            let expect = big.clone();
            let h = std::thread::spawn(move || {
                let mut all = vec![0u8; 600_000 + 5];
                peer.read_exact(&mut all).unwrap();
                (peer, all)
            });
            let r1 = block_on_long(&mut ring, t.send_all(big));
            let r2 = block_on_long(&mut ring, t.send_all_vectored([b"ab".to_vec(), b"cde".to_vec()]));
            let (peer, all) = h.join().unwrap();
            if r1.is_err() || r2.is_err() || all[..600_000] != expect[..] || &all[600_000..] != b"abcde" {
                out.push(v(&format!("real/send_all/{kind}"), format!("send_all {r1:?}, send_all_vectored {r2:?}; peer data equal: {}", all[..600_000] == expect[..])));
            }
            // Peer closes: recv_n must fail with UnexpectedEof after the partial data.
            let mut peer = peer;
            peer.write_all(b"xy").unwrap();
            drop(peer);
            let got = block_on(&mut ring, t.recv_n(Vec::with_capacity(8), 5));
            if got.as_ref().err().map(|e| e.kind()) != Some(std::io::ErrorKind::UnexpectedEof) {
                out.push(v(&format!("real/recv_n/{kind}"), format!("peer sent 2 bytes and closed, recv_n(5) returns {got:?}")));
            }
            drop(dfd);
            drop(afd);
            // Pipes: write_all into a small pipe that is drained slowly, read_n from pieces.
            let mut p = [0i32; 2];
            assert_eq!(unsafe { libc::pipe2(p.as_mut_ptr(), libc::O_CLOEXEC) }, 0);
            unsafe { libc::fcntl(p[1], libc::F_SETPIPE_SZ, 4096) };
            let wfd = unsafe { AsyncFd::from_raw_fd(p[1], sq.clone()) };
            let wd = target(&mut ring, &wfd, direct);
            let wt = wd.as_ref().unwrap_or(&wfd);
            let data: Vec<u8> = (0..40_000usize).map(|i| (i * 7 % 253) as u8).collect();
            let expect = data.clone();
            let rd = p[0];
            let h = std::thread::spawn(move || {
                let mut all = Vec::new();
                let mut buf = [0u8; 1000];
                while all.len() < 40_000 + 6 {
                    let n = unsafe { libc::read(rd, buf.as_mut_ptr().cast(), buf.len()) };
                    if n <= 0 {
                        break;
                    }
                    all.extend_from_slice(&buf[..n as usize]);
                }
                all
            });
            let r1 = block_on_long(&mut ring, wt.write_all(data));
            let r2 = block_on_long(&mut ring, wt.write_all_vectored([b"12".to_vec(), b"3456".to_vec()]));
            let all = h.join().unwrap();
            if r1.is_err() || r2.is_err() || all.len() != 40_006 || all[..40_000] != expect[..] || &all[40_000..] != b"123456" {
                out.push(v(&format!("real/write_all/{kind}"), format!("write_all {r1:?}, write_all_vectored {r2:?}; reader got {} bytes, equal: {}", all.len(), all.len() >= 40_000 && all[..40_000] == expect[..])));
            }
            drop(wd);
            drop(wfd);
            ring.poll(Some(Duration::from_millis(5))).unwrap();
            let rfd = unsafe { AsyncFd::from_raw_fd(rd, sq.clone()) };
            let rdd = target(&mut ring, &rfd, direct);
            let rt = rdd.as_ref().unwrap_or(&rfd);
            let mut p2 = [0i32; 2];
            assert_eq!(unsafe { libc::pipe2(p2.as_mut_ptr(), libc::O_CLOEXEC) }, 0);
            let r2fd = unsafe { AsyncFd::from_raw_fd(p2[0], sq.clone()) };
            let r2d = target(&mut ring, &r2fd, direct);
            let r2t = r2d.as_ref().unwrap_or(&r2fd);
            let w2 = p2[1];
            let h = std::thread::spawn(move || {
                for piece in [&b"abc"[..], b"de", b"fghij"] {
                    unsafe { libc::write(w2, piece.as_ptr().cast(), piece.len()) };
                    std::thread::sleep(Duration::from_millis(15));
                }
                unsafe { libc::close(w2) };
            });
            let a = block_on(&mut ring, r2t.read_n(Vec::with_capacity(6), 6));
            let b = block_on(&mut ring, r2t.read_n_vectored([Vec::with_capacity(2), Vec::with_capacity(8)], 4));
            h.join().unwrap();
            let c = block_on(&mut ring, r2t.read_n(Vec::with_capacity(16), 3));
            let a_ok = a.as_ref().is_ok_and(|a| a == b"abcdef");
            let b_ok = b.as_ref().is_ok_and(|b| b[0] == b"gh" && b[1] == b"ij");
            if !a_ok || !b_ok || c.as_ref().err().map(|e| e.kind()) != Some(std::io::ErrorKind::UnexpectedEof) {
                out.push(v(&format!("real/read_n/{kind}"), format!("pieces abc,de,fghij then close: read_n(6) {a:?}, read_n_vectored(4) {b:?}, read_n(3) at the end {c:?}")));
            }
            let _ = rt;
            drop(r2d);
            drop(r2fd);
            drop(rdd);
            drop(rfd);
        }
        // Multishot operations on the real kernel.
        17 => {
            let k = if direct { FdKind::Direct } else { FdKind::File };
            // accept
            let listener = block_on(&mut ring, a10::net::socket(sq.clone(), a10::net::Domain::IPV4, a10::net::Type::STREAM, None).kind(k)).expect("socket");
            let addr: std::net::SocketAddr = format!("127.0.0.1:{}", free_port(false)).parse().unwrap();
            block_on(&mut ring, listener.bind(addr)).expect("bind");
            block_on(&mut ring, listener.listen(8)).expect("listen");
            let mut clients = Vec::new();
            {
                let mut acc = std::pin::pin!(listener.multishot_accept());
                for i in 0..3u8 {
                    use std::io::Write;
                    let mut c = std::net::TcpStream::connect(addr).expect("connect");
                    c.write_all(&[b'A' + i]).unwrap();
                    clients.push(c);
                    match block_next!(ring, acc.as_mut()) {
                        Some(Ok(conn)) => {
                            let got = block_on(&mut ring, conn.recv(Vec::with_capacity(4)));
                            if got.as_ref().ok() != Some(&vec![b'A' + i]) {
                                out.push(v(&format!("real/multishot_accept/{kind}"), format!("connection #{i} delivers {got:?}")));
                            }
                        }
                        other => out.push(v(&format!("real/multishot_accept/{kind}"), format!("connection #{i}: {:?}", other.map(|r| r.map(|_| "fd"))))),
                    }
                }
            }
            drop(listener);
            // recv on a datagram socket through a pool.
            let s = block_on(&mut ring, a10::net::socket(sq.clone(), a10::net::Domain::IPV4, a10::net::Type::DGRAM, None).kind(k)).expect("socket");
            let addr: std::net::SocketAddr = std::net::UdpSocket::bind("127.0.0.1:0").unwrap().local_addr().unwrap();
            block_on(&mut ring, s.bind(addr)).expect("bind");
            let pool = a10::io::ReadBufPool::new(sq.clone(), 4, 64).expect("pool");
            let peer = std::net::UdpSocket::bind("127.0.0.1:0").unwrap();
            {
                let mut rx = std::pin::pin!(s.multishot_recv(pool.clone()));
                let mut kept = Vec::new();
                for i in 0..6u8 {
                    let msg = vec![b'a' + i; 1 + i as usize];
                    peer.send_to(&msg, addr).unwrap();
                    match block_next!(ring, rx.as_mut()) {
                        Some(Ok(b)) if b[..] == msg[..] => {
                            // Keep two alive so that the pool runs low, release the others.
                            if i < 2 {
                                kept.push((b, msg));
                            }
                        }
                        Some(Ok(b)) => out.push(v(&format!("real/multishot_recv/{kind}"), format!("datagram #{i} {msg:?} arrives as {:?}", &b[..]))),
                        Some(Err(e)) => out.push(v(&format!("real/multishot_recv/{kind}"), format!("datagram #{i}: {e}"))),
                        None => {
                            out.push(v(&format!("real/multishot_recv/{kind}"), format!("stream ended at datagram #{i}")));
                            break;
                        }
                    }
                }
                for (b, msg) in &kept {
                    if b[..] != msg[..] {
                        out.push(v(&format!("real/multishot_recv/{kind}"), format!("a buffer held across later receives changed: {:?} != {msg:?}", &b[..])));
                    }
                }
            }
            drop(s);
            // read on a pipe, to the end of the stream.
            let mut p = [0i32; 2];
            assert_eq!(unsafe { libc::pipe2(p.as_mut_ptr(), libc::O_CLOEXEC) }, 0);
            let rfd = unsafe { AsyncFd::from_raw_fd(p[0], sq.clone()) };
            let rd = target(&mut ring, &rfd, direct);
            let rt = rd.as_ref().unwrap_or(&rfd);
            {
                let mut rx = std::pin::pin!(rt.multishot_read(pool.clone()));
                let mut all = Vec::new();
                for piece in [&b"one"[..], b"two2", b"three"] {
                    unsafe { libc::write(p[1], piece.as_ptr().cast(), piece.len()) };
                    match block_next!(ring, rx.as_mut()) {
                        Some(Ok(b)) => all.extend_from_slice(&b),
                        other => {
                            out.push(v(&format!("real/multishot_read/{kind}"), format!("after writing {piece:?}: {:?}", other.map(|r| r.map(|b| b.len())))));
                            break;
                        }
                    }
                }
                unsafe { libc::close(p[1]) };
                // read(2) returns 0 at the end of the stream: an empty buffer, then the stream ends.
                let mut end = block_next!(ring, rx.as_mut());
                if matches!(&end, Some(Ok(b)) if b.is_empty()) {
                    end = block_next!(ring, rx.as_mut());
                }
                if all != b"onetwo2three" || end.is_some() {
                    out.push(v(&format!("real/multishot_read/{kind}"), format!("read {all:?}; after the writer closed: {:?}", end.map(|r| r.map(|b| b.len())))));
                }
            }
            drop(rd);
            drop(rfd);
            drop(pool);
        }
        // fadvise / madvise / allocate modes.
        18 => {
            let pa = fx.file("fa", &content(10_000));
            let pb = fx.file("fb", &content(10_000));
            let raw = open_raw(&pa, libc::O_RDWR);
            let lfd = open_raw(&pb, libc::O_RDWR);
            let afd = unsafe { AsyncFd::from_raw_fd(raw, sq.clone()) };
            let dfd = target(&mut ring, &afd, direct);
            let t = dfd.as_ref().unwrap_or(&afd);
            use a10::fs::AdviseFlag as F;
            for (flag, raw_flag) in [(F::NORMAL, libc::POSIX_FADV_NORMAL), (F::SEQUENTIAL, libc::POSIX_FADV_SEQUENTIAL), (F::RANDOM, libc::POSIX_FADV_RANDOM), (F::NO_REUSE, libc::POSIX_FADV_NOREUSE), (F::WILL_NEED, libc::POSIX_FADV_WILLNEED), (F::DONT_NEED, libc::POSIX_FADV_DONTNEED)] {
                for (off, len) in [(0u64, 0u32), (4096, 4096), (1 << 40, 1)] {
                    let got = block_on(&mut ring, t.advise(off, len, flag));
                    let want = unsafe { libc::posix_fadvise(lfd, off as i64, len as i64, raw_flag) };
                    if got.is_ok() != (want == 0) || got.as_ref().err().and_then(|e| e.raw_os_error()).is_some_and(|e| e != want) {
                        out.push(v(&format!("real/advise/{kind}"), format!("advise({off}, {len}, {raw_flag}): a10 {got:?}, posix_fadvise returns {want}")));
                    }
                }
            }
            use a10::fs::AllocateMode as M;
            for (mode, raw_mode, off, len) in [
                (None, 0, 9_000u64, 5_000u32),
                (Some(M::KEEP_SIZE), libc::FALLOC_FL_KEEP_SIZE, 20_000, 4_096),
                (Some(M::PUNCH_HOLE | M::KEEP_SIZE), libc::FALLOC_FL_PUNCH_HOLE | libc::FALLOC_FL_KEEP_SIZE, 100, 5_000),
                (Some(M::ZERO_RANGE), libc::FALLOC_FL_ZERO_RANGE, 50, 300),
                (Some(M::PUNCH_HOLE), libc::FALLOC_FL_PUNCH_HOLE, 0, 10),
            ] {
                let f = t.allocate(off, len);
                let got = block_on(&mut ring, async { match mode { Some(m) => f.mode(m).await, None => f.await } });
                let want = unsafe { libc::fallocate(lfd, raw_mode, off as i64, len as i64) };
                let werr = if want == 0 { 0 } else { errno() };
                let same_content = std::fs::read(&pa).unwrap() == std::fs::read(&pb).unwrap();
                if got.is_ok() != (want == 0) || got.as_ref().err().and_then(|e| e.raw_os_error()).is_some_and(|e| e != werr) || !same_content {
                    out.push(v(&format!("real/allocate-mode/{kind}"), format!("allocate({off}, {len}) mode {raw_mode:#x}: a10 {got:?}, fallocate {want} (errno {werr}); files equal: {same_content}")));
                }
            }
            unsafe { libc::close(lfd) };
            drop(dfd);
            drop(afd);
            if !direct {
                // madvise(DONTNEED) on private anonymous memory zero-fills it; a bad address fails the same way.
                let map = |fill: u8| unsafe {
                    let p = libc::mmap(std::ptr::null_mut(), 8192, libc::PROT_READ | libc::PROT_WRITE, libc::MAP_PRIVATE | libc::MAP_ANONYMOUS, -1, 0) as *mut u8;
                    std::ptr::write_bytes(p, fill, 8192);
                    p
                };
                let (a, b) = (map(7), map(7));
                use a10::mem::AdviseFlag as MF;
                for (flag, raw_flag, off, len) in [(MF::NORMAL, libc::MADV_NORMAL, 0usize, 8192u32), (MF::DONT_NEED, libc::MADV_DONTNEED, 4096, 4096), (MF::WILL_NEED, libc::MADV_WILLNEED, 0, 4096), (MF::DONT_NEED, libc::MADV_DONTNEED, 1, 4096)] {
                    let got = block_on(&mut ring, a10::mem::advise(sq.clone(), unsafe { a.add(off) }.cast(), len, flag));
                    let want = unsafe { libc::madvise(b.add(off).cast(), len as usize, raw_flag) };
                    let werr = if want == 0 { 0 } else { errno() };
                    let same = unsafe { std::slice::from_raw_parts(a, 8192) == std::slice::from_raw_parts(b, 8192) };
                    if got.is_ok() != (want == 0) || got.as_ref().err().and_then(|e| e.raw_os_error()).is_some_and(|e| e != werr) || !same {
                        out.push(v("real/madvise", format!("advise(+{off}, {len}, {raw_flag}): a10 {got:?}, madvise {want} (errno {werr}); memory equal: {same}")));
                    }
                }
                unsafe {
                    libc::munmap(a.cast(), 8192);
                    libc::munmap(b.cast(), 8192);
                }
            }
        }
        // Limited buffers: the kernel must see exactly what the same call on the truncated buffers sees.
        19 => {
            use a10::io::{Buf, BufMut, BufMutSlice, BufSlice};
            let parts: [&[u8]; 3] = [b"Hello", b" world", b"!!!"];
            let total: usize = parts.iter().map(|p| p.len()).sum();
            let limits: Vec<usize> = if thorough() { (0..=17).chain([100, usize::MAX]).collect() } else { vec![0usize, 1, 3, 5, 6, 8, 11, 12, 14, 100] };
            for limit in limits {
                // write_vectored(bufs.limit(n)) vs writev of the truncated iovecs.
                let pa = fx.file("la", b"");
                let pb = fx.file("lb", b"");
                let raw = open_raw(&pa, libc::O_RDWR);
                let afd = unsafe { AsyncFd::from_raw_fd(raw, sq.clone()) };
                let dfd = target(&mut ring, &afd, direct);
                let t = dfd.as_ref().unwrap_or(&afd);
                let bufs = [parts[0].to_vec(), parts[1].to_vec(), parts[2].to_vec()];
                let got = block_on(&mut ring, t.write_vectored(BufSlice::limit(bufs, limit)));
                let lfd = open_raw(&pb, libc::O_RDWR);
                let mut left = limit;
                let iov: Vec<libc::iovec> = parts
                    .iter()
                    .map(|p| {
                        let n = p.len().min(left);
                        left -= n;
                        libc::iovec { iov_base: p.as_ptr().cast_mut().cast(), iov_len: n }
                    })
                    .collect();
                let want = unsafe { libc::writev(lfd, iov.as_ptr(), 3) };
                let (fa, fb) = (std::fs::read(&pa).unwrap(), std::fs::read(&pb).unwrap());
                if got.as_ref().ok().map(|n| *n as isize) != Some(want) || fa != fb {
                    out.push(v(&format!("real/limited-write_vectored/{kind}"), format!("limit {limit}: a10 {got:?} wrote {:?}; writev(2) {want} wrote {:?}", String::from_utf8_lossy(&fa), String::from_utf8_lossy(&fb))));
                }
                // write(buf.limit(n)).
                let all: Vec<u8> = parts.concat();
                let got = block_on(&mut ring, t.write(Buf::limit(all.clone(), limit)).at(100));
                let want = unsafe { libc::pwrite(lfd, all.as_ptr().cast(), limit.min(total), 100) };
                let (fa, fb) = (std::fs::read(&pa).unwrap(), std::fs::read(&pb).unwrap());
                if got.as_ref().ok().map(|n| *n as isize) != Some(want) || fa != fb {
                    out.push(v(&format!("real/limited-write/{kind}"), format!("limit {limit}: a10 {got:?}, pwrite(2) {want}; files equal: {}", fa == fb)));
                }
                unsafe { libc::close(lfd) };
                drop(dfd);
                drop(afd);
                ring.poll(Some(Duration::ZERO)).unwrap();
                // read(buf.limit(n)) and read_vectored(bufs.limit(n)) from a 40-byte file.
                let data = content(40);
                let pr = fx.file("lr", &data);
                let raw = open_raw(&pr, libc::O_RDONLY);
                let afd = unsafe { AsyncFd::from_raw_fd(raw, sq.clone()) };
                let dfd = target(&mut ring, &afd, direct);
                let t = dfd.as_ref().unwrap_or(&afd);
                let got = block_on(&mut ring, t.read(BufMut::limit(Vec::with_capacity(16), limit)).from(2)).map(|b| b.into_inner());
                let want = &data[2..2 + limit.min(16)];
                if got.as_ref().ok().map(|b| &b[..]) != Some(want) {
                    out.push(v(&format!("real/limited-read/{kind}"), format!("limit {limit} on a 16-byte buffer: a10 returns {:?}, pread(2) of {} bytes returns {} bytes", got.as_ref().map(|b| b.len()), limit.min(16), want.len())));
                }
                let got = block_on(&mut ring, t.read_vectored(BufMutSlice::limit([Vec::with_capacity(4), Vec::with_capacity(4), Vec::with_capacity(4)], limit)).from(3)).map(|b| b.into_inner());
                let n = limit.min(12);
                let want = &data[3..3 + n];
                let flat = got.as_ref().ok().map(|b| b.concat());
                let shape_ok = got.as_ref().is_ok_and(|b| b[0].len() == n.min(4) && b[1].len() == n.saturating_sub(4).min(4) && b[2].len() == n.saturating_sub(8).min(4));
                if flat.as_deref() != Some(want) || !shape_ok {
                    out.push(v(&format!("real/limited-read_vectored/{kind}"), format!("limit {limit} on three 4-byte buffers: a10 returns {:?}, preadv(2) of the truncated buffers returns {} bytes", got.as_ref().map(|b| b.iter().map(|x| x.len()).collect::<Vec<_>>()), want.len())));
                }
                drop(dfd);
                drop(afd);
                ring.poll(Some(Duration::ZERO)).unwrap();
            }
        }
        // Metadata of every kind of descriptor: each accessor against fstat(2).
        20 => {
            use std::os::fd::AsRawFd;
            use std::os::unix::fs::{FileTypeExt, MetadataExt, PermissionsExt};
            let mut targets: Vec<(String, std::fs::File)> = Vec::new();
            for (i, mode) in [0o644u32, 0o600, 0o755, 0o421, 0o007, 0o070, 0o700, 0o111, 0o222].into_iter().enumerate() {
                let p = fx.file(&format!("m{i}"), &content(10 + i * 1000));
                std::fs::set_permissions(&p, std::fs::Permissions::from_mode(mode)).unwrap();
                if let Ok(f) = std::fs::OpenOptions::new().read(mode & 0o400 != 0).write(mode & 0o400 == 0 && mode & 0o200 != 0).open(&p) {
                    targets.push((format!("file mode {mode:o}"), f));
                }
            }
            // Time stamps before 1970 (negative seconds with a positive fraction) and far in the future.
            for (i, (sec, nsec)) in [(-11i64, 750_000_000i64), (-1, 0), (-1, 999_999_999), (0, 1), (4_102_444_800, 5)].into_iter().enumerate() {
                let p = fx.file(&format!("t{i}"), &content(3));
                let c = std::ffi::CString::new(p.as_os_str().as_encoded_bytes()).unwrap();
                let ts = [libc::timespec { tv_sec: sec + 5, tv_nsec: nsec }, libc::timespec { tv_sec: sec, tv_nsec: nsec }];
                if unsafe { libc::utimensat(libc::AT_FDCWD, c.as_ptr(), ts.as_ptr(), 0) } == 0 {
                    targets.push((format!("file modified at {sec}s+{nsec}ns"), std::fs::File::open(&p).unwrap()));
                }
            }
            targets.push(("directory".into(), std::fs::File::open(&fx.dir).unwrap()));
            targets.push(("character device".into(), std::fs::File::open("/dev/null").unwrap()));
            {
                let mut pfd = [0i32; 2];
                assert_eq!(unsafe { libc::pipe2(pfd.as_mut_ptr(), libc::O_CLOEXEC) }, 0);
                targets.push(("pipe".into(), unsafe { std::fs::File::from_raw_fd(pfd[0]) }));
                unsafe { libc::close(pfd[1]) };
                let sfd = unsafe { libc::socket(libc::AF_UNIX, libc::SOCK_STREAM | libc::SOCK_CLOEXEC, 0) };
                targets.push(("socket".into(), unsafe { std::fs::File::from_raw_fd(sfd) }));
            }
            for (what, f) in targets {
                let dup = unsafe { libc::fcntl(f.as_raw_fd(), libc::F_DUPFD_CLOEXEC, 3) };
                let afd = unsafe { AsyncFd::from_raw_fd(dup, sq.clone()) };
                let m = match block_on(&mut ring, afd.metadata()) {
                    Ok(m) => m,
                    Err(e) => {
                        out.push(v(&format!("real/metadata/{kind}"), format!("{what}: metadata fails with {e}")));
                        continue;
                    }
                };
                let sm = f.metadata().unwrap();
                let ft = sm.file_type();
                let mode = sm.permissions().mode();
                let p = m.permissions();
                let t = m.file_type();
                let mut bad = Vec::new();
                let mut chk = |name: &str, got: String, want: String| {
                    if got != want {
                        bad.push(format!("{name}: a10 {got}, fstat {want}"));
                    }
                };
                chk("len", m.len().to_string(), sm.len().to_string());
                chk("block_size", m.block_size().to_string(), sm.blksize().to_string());
                chk("is_dir", m.is_dir().to_string(), ft.is_dir().to_string());
                chk("is_file", m.is_file().to_string(), ft.is_file().to_string());
                chk("is_symlink", m.is_symlink().to_string(), ft.is_symlink().to_string());
                chk("type.is_dir", t.is_dir().to_string(), ft.is_dir().to_string());
                chk("type.is_file", t.is_file().to_string(), ft.is_file().to_string());
                chk("type.is_symlink", t.is_symlink().to_string(), ft.is_symlink().to_string());
                chk("type.is_socket", t.is_socket().to_string(), ft.is_socket().to_string());
                chk("type.is_block_device", t.is_block_device().to_string(), ft.is_block_device().to_string());
                chk("type.is_character_device", t.is_character_device().to_string(), ft.is_char_device().to_string());
                chk("type.is_named_pipe", t.is_named_pipe().to_string(), ft.is_fifo().to_string());
                let bits = [
                    (p.owner_can_read(), 0o400), (p.owner_can_write(), 0o200), (p.owner_can_execute(), 0o100),
                    (p.group_can_read(), 0o040), (p.group_can_write(), 0o020), (p.group_can_execute(), 0o010),
                    (p.others_can_read(), 0o004), (p.others_can_write(), 0o002), (p.others_can_execute(), 0o001),
                ];
                for (got, bit) in bits {
                    chk(&format!("permission bit {bit:o}"), got.to_string(), (mode & bit != 0).to_string());
                }
                let guarded = |f: &dyn Fn() -> std::time::SystemTime| match std::panic::catch_unwind(std::panic::AssertUnwindSafe(f)) {
                    Ok(t) => format!("{t:?}"),
                    Err(_) => format!("panic: {}", crate::seqx::take_panic()),
                };
                chk("modified", guarded(&|| m.modified()), format!("{:?}", sm.modified().unwrap()));
                chk("accessed", guarded(&|| m.accessed()), format!("{:?}", sm.accessed().unwrap()));
                if let Ok(c) = sm.created() {
                    chk("created", format!("{:?}", m.created()), format!("{c:?}"));
                }
                // A restricted request is answered with at least what was asked for.
                use a10::fs::MetadataInterest as MI;
                match block_on(&mut ring, afd.metadata().only(MI::SIZE | MI::TYPE)) {
                    Ok(m2) => {
                        let filled = format!("{:?}", m2.filled());
                        if m2.len() != sm.len() || m2.is_dir() != ft.is_dir() {
                            bad.push(format!("only(SIZE|TYPE): len {} is_dir {} (filled {filled})", m2.len(), m2.is_dir()));
                        }
                    }
                    Err(e) => bad.push(format!("only(SIZE|TYPE) fails with {e}")),
                }
                if !bad.is_empty() {
                    out.push(v(&format!("real/metadata-accessors/{kind}"), format!("{what}: {}", bad.join("; "))));
                }
                drop(afd);
                ring.poll(Some(Duration::ZERO)).unwrap();
            }
        }
        // The synchronous helpers against the calls they wrap.
        21 => {
            if direct {
                return out;
            }
            use a10::net::{Domain, Protocol, Type, sync_bind, sync_listen, sync_local_addr, sync_set_socket_option, sync_socket, sync_socket_option};
            use std::os::fd::AsRawFd;
            for (d, t, pr, raw) in [
                (Domain::IPV4, Type::STREAM, None, (libc::AF_INET, libc::SOCK_STREAM, 0)),
                (Domain::IPV4, Type::DGRAM, Some(Protocol::UDP), (libc::AF_INET, libc::SOCK_DGRAM, libc::IPPROTO_UDP)),
                (Domain::IPV6, Type::STREAM, Some(Protocol::TCP), (libc::AF_INET6, libc::SOCK_STREAM, libc::IPPROTO_TCP)),
                (Domain::UNIX, Type::DGRAM, None, (libc::AF_UNIX, libc::SOCK_DGRAM, 0)),
            ] {
                let s = match sync_socket(d, t, pr) {
                    Ok(s) => s,
                    Err(e) => {
                        if raw.0 != libc::AF_INET6 {
                            out.push(v("real/sync_socket", format!("sync_socket({raw:?}) fails with {e}")));
                        }
                        continue;
                    }
                };
                let get = |name: i32| {
                    let mut val = 0i32;
                    let mut len = 4u32;
                    unsafe { libc::getsockopt(s.as_raw_fd(), libc::SOL_SOCKET, name, (&raw mut val).cast(), &raw mut len) };
                    val
                };
                let cloexec = unsafe { libc::fcntl(s.as_raw_fd(), libc::F_GETFD) } & libc::FD_CLOEXEC != 0;
                let want_proto = if raw.2 != 0 { raw.2 } else if raw.0 == libc::AF_UNIX { 0 } else if raw.1 == libc::SOCK_STREAM { libc::IPPROTO_TCP } else { libc::IPPROTO_UDP };
                if get(libc::SO_DOMAIN) != raw.0 || get(libc::SO_TYPE) != raw.1 || get(libc::SO_PROTOCOL) != want_proto || !cloexec {
                    out.push(v("real/sync_socket", format!("sync_socket({raw:?}) made a socket with domain {} type {} protocol {} cloexec {cloexec}", get(libc::SO_DOMAIN), get(libc::SO_TYPE), get(libc::SO_PROTOCOL))));
                }
            }
            let s = sync_socket(Domain::IPV4, Type::STREAM, None).expect("socket");
            let addr: std::net::SocketAddr = format!("127.0.0.1:{}", free_port(false)).parse().unwrap();
            let r1 = sync_set_socket_option::<a10::net::option::ReuseAddress>(&s, true);
            let r2 = sync_bind(&s, addr);
            let r3 = sync_listen(&s, 7);
            let got: std::io::Result<std::net::SocketAddr> = sync_local_addr(&s);
            let reuse = sync_socket_option::<a10::net::option::ReuseAddress>(&s);
            let accepting = sync_socket_option::<a10::net::option::Accept>(&s);
            let connects = std::net::TcpStream::connect(addr).is_ok();
            if r1.is_err() || r2.is_err() || r3.is_err() || got.as_ref().ok() != Some(&addr) || reuse.as_ref().ok() != Some(&true) || accepting.as_ref().ok() != Some(&true) || !connects {
                out.push(v("real/sync-helpers", format!("setsockopt {r1:?}, bind {r2:?}, listen {r3:?}, local_addr {got:?} (bound {addr}), SO_REUSEADDR {reuse:?}, SO_ACCEPTCONN {accepting:?}, a client connects: {connects}")));
            }
            // A second bind to the same address fails the same way bind(2) does.
            let s2 = sync_socket(Domain::IPV4, Type::STREAM, None).expect("socket");
            let e = sync_bind(&s2, addr);
            if e.as_ref().err().and_then(|e| e.raw_os_error()) != Some(libc::EADDRINUSE) {
                out.push(v("real/sync-helpers", format!("binding a second socket to {addr}: {e:?}, bind(2) fails with EADDRINUSE")));
            }
            // Pipes.
            for (flags, raw_flags) in [(None, 0), (Some(a10::pipe::PipeFlag::DIRECT), libc::O_DIRECT)] {
                let r = match flags {
                    None => a10::pipe::sync_pipe(),
                    Some(f) => a10::pipe::sync_pipe2(f),
                };
                match r {
                    Ok([rd, wr]) => {
                        let fl = unsafe { libc::fcntl(wr.as_raw_fd(), libc::F_GETFL) };
                        let cx = unsafe { libc::fcntl(rd.as_raw_fd(), libc::F_GETFD) } & libc::FD_CLOEXEC != 0;
                        let n = unsafe { libc::write(wr.as_raw_fd(), b"pp".as_ptr().cast(), 2) };
                        let mut b = [0u8; 4];
                        let m = unsafe { libc::read(rd.as_raw_fd(), b.as_mut_ptr().cast(), 4) };
                        if n != 2 || m != 2 || &b[..2] != b"pp" || !cx || (fl & libc::O_DIRECT != 0) != (raw_flags != 0) {
                            out.push(v("real/sync_pipe", format!("flags {raw_flags:#x}: wrote {n}, read {m}, cloexec {cx}, file flags {fl:#x}")));
                        }
                    }
                    Err(e) => out.push(v("real/sync_pipe", format!("flags {raw_flags:#x}: {e}"))),
                }
            }
        }
        // Process signals through a signalfd: receive, the owned iterator, blocking and unblocking.
        22 => {
            use a10::process::{Signal, Signals, To, send_signal, send_signal_check};
            // A process-directed signal may be delivered to any thread that does not block it.
            // (Threads of earlier scenarios have been joined; give their kernel tasks a moment to go away.)
            let mut threads = 0;
            for _ in 0..200 {
                // io_uring's own worker tasks (iou-wrk-*, iou-sqp-*) take no signals.
                threads = std::fs::read_dir("/proc/self/task")
                    .map(|d| d.filter(|e| e.as_ref().is_ok_and(|e| !std::fs::read_to_string(e.path().join("comm")).unwrap_or_default().starts_with("iou-"))).count())
                    .unwrap_or(2);
                if threads == 1 {
                    break;
                }
                std::thread::sleep(Duration::from_millis(5));
            }
            if threads != 1 {
                if std::env::var("A10MC_DEBUG").is_ok() {
                    eprintln!("signals scenario skipped: {threads} threads");
                }
                return out;
            }
            let blocked = |sig: i32| -> bool {
                let mut cur: libc::sigset_t = unsafe { std::mem::zeroed() };
                unsafe { libc::pthread_sigmask(libc::SIG_BLOCK, std::ptr::null(), &mut cur) };
                unsafe { libc::sigismember(&cur, sig) == 1 }
            };
            let signals = Signals::from_signals(sq.clone(), [Signal::USER1, Signal::USER2]).expect("signalfd");
            if !blocked(libc::SIGUSR1) || !blocked(libc::SIGUSR2) || blocked(libc::SIGTERM) {
                out.push(v(&format!("real/signals/{kind}"), format!("after Signals::from_signals([USER1, USER2]): USR1 blocked {}, USR2 blocked {}, TERM blocked {}", blocked(libc::SIGUSR1), blocked(libc::SIGUSR2), blocked(libc::SIGTERM))));
                return out;
            }
            if !signals.set().contains(Signal::USER1) || !signals.set().contains(Signal::USER2) || signals.set().contains(Signal::INTERRUPT) {
                out.push(v(&format!("real/signals/{kind}"), "Signals::set() does not hold exactly the requested signals".into()));
            }
            let signals = if direct { block_on(&mut ring, signals.to_direct_descriptor()).expect("to_direct_descriptor") } else { signals };
            if send_signal_check(To::this_process()).is_err() {
                out.push(v(&format!("real/signals/{kind}"), "send_signal_check(this process) fails".into()));
            }
            send_signal(To::this_process(), Signal::USER1).expect("kill");
            match block_on(&mut ring, signals.receive()) {
                Ok(info) => {
                    let me = std::process::id();
                    let uid = unsafe { libc::getuid() };
                    if format!("{:?}", info.signal()) != format!("{:?}", Signal::USER1) || info.pid() != me || info.real_user_id() != uid {
                        out.push(v(&format!("real/signals/{kind}"), format!("sent SIGUSR1 to this process ({me}, uid {uid}): received signal {:?} from pid {} uid {}", info.signal(), info.pid(), info.real_user_id())));
                    }
                }
                Err(e) => out.push(v(&format!("real/signals/{kind}"), format!("receive fails with {e}"))),
            }
            // Two pending signals through the owned iterator: lowest number first, as read(2) on a signalfd reports them.
            send_signal(To::this_process(), Signal::USER2).expect("kill");
            send_signal(To::this_process(), Signal::USER1).expect("kill");
            let mut it = Box::pin(signals.receive_signals());
            let mut seen = Vec::new();
            for _ in 0..2 {
                match block_next!(ring, it.as_mut()) {
                    Some(Ok(info)) => seen.push(format!("{:?}", info.signal())),
                    other => seen.push(format!("{:?}", other.map(|r| r.map(|_| ())))),
                }
            }
            if seen != [format!("{:?}", Signal::USER1), format!("{:?}", Signal::USER2)] {
                out.push(v(&format!("real/signals/{kind}"), format!("USR2 then USR1 sent while nothing was reading: the iterator yields {seen:?}")));
            }
            let signals = Pin::into_inner(it).into_inner();
            ring.poll(Some(Duration::from_millis(5))).unwrap();
            drop(signals);
            ring.poll(Some(Duration::from_millis(5))).unwrap();
            if blocked(libc::SIGUSR1) || blocked(libc::SIGUSR2) {
                out.push(v(&format!("real/signals/{kind}"), "the signals are still blocked after Signals was dropped".into()));
            }
        }
        // A direct descriptor dropped while the submission queue is full (closed synchronously): exactly it is closed.
        24 => {
            if direct {
                return out;
            }
            let [r, w] = block_on(&mut ring, a10::pipe::pipe(sq.clone()).kind(FdKind::Direct)).expect("direct pipe");
            let mut zeros = Vec::new();
            for _ in 0..2 {
                zeros.push(block_on(&mut ring, a10::fs::OpenOptions::new().kind(FdKind::Direct).open(sq.clone(), PathBuf::from("/dev/zero"))).expect("open /dev/zero"));
            }
            // Fill the submission queue with clean-up requests that are not submitted yet.
            let mut n = 0;
            loop {
                let fd = unsafe { libc::open(c"/dev/null".as_ptr(), libc::O_RDONLY | libc::O_CLOEXEC) };
                drop(unsafe { AsyncFd::from_raw_fd(fd, sq.clone()) });
                n += 1;
                if n >= 16 {
                    break;
                }
            }
            drop(w);
            ring.poll(Some(Duration::from_millis(10))).unwrap();
            for (i, z) in zeros.iter().enumerate() {
                let got = block_on(&mut ring, z.read(Vec::with_capacity(4)));
                if got.as_ref().ok().map(|b| b.len()) != Some(4) {
                    out.push(v("real/direct-drop-full-queue", format!("another direct descriptor (#{i}) stopped working after the pipe's write end was dropped with a full queue: {got:?}")));
                }
            }
            // close(2) of the write end gives the reader end-of-file.
            let mut res = None;
            {
                let mut fut = Box::pin(r.read(Vec::with_capacity(4)));
                let wk = HWaker::new(1);
                let mut cx = Context::from_waker(&wk.waker);
                for _ in 0..100 {
                    if let Poll::Ready(x) = fut.as_mut().poll(&mut cx) {
                        res = Some(x);
                        break;
                    }
                    ring.poll(Some(Duration::from_millis(5))).unwrap();
                }
                if res.is_none() {
                    // Still in flight: its memory must stay.
                    std::mem::forget(fut);
                }
            }
            match res {
                Some(Ok(b)) if b.is_empty() => {}
                other => {
                    out.push(v("real/direct-drop-full-queue", format!("the pipe's write end (a direct descriptor) was dropped with a full queue, reading the other end gives {other:?} instead of end-of-file")));
                    std::mem::forget(r);
                    std::mem::forget(zeros);
                    std::mem::forget(ring);
                    return out;
                }
            }
            drop(zeros);
            drop(r);
        }
        // Descriptor conversions and close.
        _ => {
            let pa = fx.file("ca", b"0123456789");
            let raw = open_raw(&pa, libc::O_RDONLY);
            let afd = unsafe { AsyncFd::from_raw_fd(raw, sq.clone()) };
            let d = block_on(&mut ring, afd.to_direct_descriptor()).expect("to_direct");
            let back = block_on(&mut ring, d.to_file_descriptor()).expect("to_file");
            let got = block_on(&mut ring, back.read(Vec::with_capacity(4)).from(3)).expect("read");
            if got != b"3456" {
                out.push(v("real/conversion", format!("read through the converted descriptor returns {got:?}")));
            }
            let back_raw = back.as_fd().map(|f| f.as_raw_fd()).unwrap_or(-1);
            block_on(&mut ring, back.close()).expect("close");
            if unsafe { libc::fcntl(back_raw, libc::F_GETFD) } != -1 {
                out.push(v("real/close", format!("descriptor {back_raw} is still open after AsyncFd::close completed")));
            }
            drop(d);
            drop(afd);
            ring.poll(Some(Duration::from_millis(10))).unwrap();
            if unsafe { libc::fcntl(raw, libc::F_GETFD) } != -1 {
                // Closing through the ring is asynchronous: give it a moment.
                for _ in 0..50 {
                    ring.poll(Some(Duration::from_millis(5))).unwrap();
                    if unsafe { libc::fcntl(raw, libc::F_GETFD) } == -1 {
                        break;
                    }
                }
                if unsafe { libc::fcntl(raw, libc::F_GETFD) } != -1 {
                    out.push(v("real/close", format!("descriptor {raw} is still open after its AsyncFd was dropped")));
                }
            }
        }
    }
    drop(sq);
    drop(ring);
    out
}

pub fn run(case: &Case) -> Vec<Violation> {
    let mut out = Vec::new();
    match case {
        Case::Encode { kind } => run_encode(*kind, &mut out),
        Case::Builder { which } => run_builder(*which, &mut out),
        Case::Real { id, direct } => run_real(*id, *direct, &mut out),
        Case::Fallback { which } => run_fallback(*which, &mut out),
    }
    out
}

pub fn cases(quick: bool) -> Vec<Case> {
    use Kind::*;
    THOROUGH.store(!quick, std::sync::atomic::Ordering::Relaxed);
    let mut v = Vec::new();
    for kind in [
        ReadVec, ReadVecPrefilled, ReadLimited, WriteVec, WriteStatic, WriteString, WriteBoxed, WriteArc, ReadVectored2, WriteVectored2,
        WriteVectoredTuple, Recv, RecvVectored, RecvFrom, RecvFromVectored, Send, SendZc, SendTo, SendToZc, SendVectored, SendVectoredZc,
        ReadPool, RecvPool, MultishotRead, MultishotRecv, Accept, AcceptNoAddr, MultishotAccept, Connect, Bind, LocalAddr, SockOpt, SetSockOpt,
        Statx, Fsync, Truncate, Shutdown, Listen, PeerAddr, SyncData, FAdvise, Allocate, SendToVectored,
    ] {
        v.push(Case::Encode { kind });
    }
    for which in 0..4u8 {
        v.push(Case::Builder { which });
    }
    for id in 0..N_REAL {
        for direct in [false, true] {
            v.push(Case::Real { id, direct });
        }
    }
    for which in 0..4u8 {
        v.push(Case::Fallback { which });
    }
    v
}
