//! K-conf: conformance of the simulated kernel with the real one.
//!
//! Raw-syscall scenarios (no a10 involved) are executed twice through the same
//! three-call interface — once against simk, once against the kernel of this
//! machine — and their observable traces (return values, CQE sequences, flags)
//! must agree. Scenarios cover the behaviours the oracles rely on. Where simk
//! leaves a choice to the explorer, the scenario makes simk take the choice
//! the real kernel is known to take and the trace shows that the shape is in
//! simk's alphabet.
#![allow(dead_code)]

use std::ffi::c_void;

use crate::abi::*;
use crate::simk::{self, Out};

pub trait Kern {
    fn setup(&self, entries: u32, p: &mut Params) -> i32;
    fn enter(&self, fd: i32, to_submit: u32, min_complete: u32, flags: u32, arg: *const c_void, size: usize) -> i32;
    fn register(&self, fd: i32, op: u32, arg: *const c_void, nr: u32) -> i32;
    fn is_sim(&self) -> bool;
}

pub struct Real;
pub struct Sim;

fn neg_errno(r: i64) -> i32 {
    if r < 0 { -std::io::Error::last_os_error().raw_os_error().unwrap_or(0) } else { r as i32 }
}

impl Kern for Real {
    fn setup(&self, entries: u32, p: &mut Params) -> i32 {
        neg_errno(unsafe { libc::syscall(libc::SYS_io_uring_setup, entries, p as *mut Params) })
    }
    fn enter(&self, fd: i32, to_submit: u32, min_complete: u32, flags: u32, arg: *const c_void, size: usize) -> i32 {
        neg_errno(unsafe { libc::syscall(libc::SYS_io_uring_enter, fd, to_submit, min_complete, flags, arg, size) })
    }
    fn register(&self, fd: i32, op: u32, arg: *const c_void, nr: u32) -> i32 {
        neg_errno(unsafe { libc::syscall(libc::SYS_io_uring_register, fd, op, arg, nr) })
    }
    fn is_sim(&self) -> bool {
        false
    }
}

impl Kern for Sim {
    fn setup(&self, entries: u32, p: &mut Params) -> i32 {
        neg_errno(unsafe { (simk::KERNEL.setup)(entries, (p as *mut Params).cast()) } as i64)
    }
    fn enter(&self, fd: i32, to_submit: u32, min_complete: u32, flags: u32, arg: *const c_void, size: usize) -> i32 {
        neg_errno(unsafe { (simk::KERNEL.enter)(fd, to_submit, min_complete, flags, arg, size) } as i64)
    }
    fn register(&self, fd: i32, op: u32, arg: *const c_void, nr: u32) -> i32 {
        neg_errno(unsafe { (simk::KERNEL.register)(fd, op, arg, nr) } as i64)
    }
    fn is_sim(&self) -> bool {
        true
    }
}

/// A raw ring: the three mappings and nothing else.
pub struct Raw<'k> {
    k: &'k dyn Kern,
    pub fd: i32,
    pub p: Params,
    sq: *mut u8,
    cq: *mut u8,
    sqes: *mut u8,
    lens: (usize, usize, usize),
}

fn mmap(len: usize, fd: i32, off: i64) -> *mut u8 {
    let p = unsafe { libc::syscall(libc::SYS_mmap, 0usize, len.max(1), libc::PROT_READ | libc::PROT_WRITE, libc::MAP_SHARED | libc::MAP_POPULATE, fd, off) };
    assert!(p != -1, "kconf: mmap failed: {}", std::io::Error::last_os_error());
    p as *mut u8
}

impl<'k> Raw<'k> {
    pub fn new(k: &'k dyn Kern, entries: u32, flags: u32, cq: u32) -> Result<Raw<'k>, i32> {
        let mut p = Params { flags, cq_entries: cq, ..Default::default() };
        let fd = k.setup(entries, &mut p);
        if fd < 0 {
            return Err(fd);
        }
        let sq_len = p.sq_off.array as usize + p.sq_entries as usize * 4;
        let cq_len = p.cq_off.cqes as usize + p.cq_entries as usize * 16;
        let sqes_len = p.sq_entries as usize * 64;
        // The real kernel lays both rings out in one region; map generously.
        let sq_len = sq_len.max(p.sq_off.flags as usize + 8).max(4096);
        let sq = mmap(sq_len, fd, OFF_SQ_RING);
        let cq = mmap(cq_len, fd, OFF_CQ_RING);
        let sqes = mmap(sqes_len, fd, OFF_SQES);
        Ok(Raw { k, fd, p, sq, cq, sqes, lens: (sq_len, cq_len, sqes_len) })
    }

    fn w32(&self, base: *mut u8, off: u32) -> &std::sync::atomic::AtomicU32 {
        unsafe { &*(base.add(off as usize) as *const std::sync::atomic::AtomicU32) }
    }

    pub fn sq_flags(&self) -> u32 {
        self.w32(self.sq, self.p.sq_off.flags).load(std::sync::atomic::Ordering::SeqCst)
    }

    /// Queue one SQE built by `f` (which gets a zeroed entry).
    pub fn push(&self, f: impl FnOnce(&mut [u8; 64])) {
        let tail = self.w32(self.sq, self.p.sq_off.tail).load(std::sync::atomic::Ordering::SeqCst);
        let idx = tail & (self.p.sq_entries - 1);
        let slot = unsafe { &mut *(self.sqes.add(idx as usize * 64) as *mut [u8; 64]) };
        *slot = [0; 64];
        f(slot);
        if self.p.sq_off.array != 0 {
            unsafe { (self.sq.add(self.p.sq_off.array as usize) as *mut u32).add(idx as usize).write_volatile(idx) };
        }
        self.w32(self.sq, self.p.sq_off.tail).store(tail.wrapping_add(1), std::sync::atomic::Ordering::SeqCst);
    }

    /// enter(to_submit, min_complete, flags) with a zero timeout if `timeout0`.
    pub fn enter(&self, to_submit: u32, min_complete: u32, flags: u32, timeout0: bool) -> i32 {
        let ts = KernelTimespec { tv_sec: 0, tv_nsec: 0 };
        let arg = GeteventsArg { sigmask: 0, sigmask_sz: 0, min_wait_usec: 0, ts: if timeout0 { std::ptr::from_ref(&ts) as u64 } else { 0 } };
        self.k.enter(self.fd, to_submit, min_complete, flags | ENTER_EXT_ARG, std::ptr::from_ref(&arg).cast(), size_of::<GeteventsArg>())
    }

    /// Reap every CQE currently published.
    pub fn reap(&self) -> Vec<Cqe> {
        let mut out = Vec::new();
        let head_w = self.w32(self.cq, self.p.cq_off.head);
        let tail_w = self.w32(self.cq, self.p.cq_off.tail);
        let mut head = head_w.load(std::sync::atomic::Ordering::SeqCst);
        let tail = tail_w.load(std::sync::atomic::Ordering::SeqCst);
        while head != tail {
            let idx = head & (self.p.cq_entries - 1);
            let cqe = unsafe { std::ptr::read_volatile(self.cq.add(self.p.cq_off.cqes as usize + idx as usize * 16) as *const Cqe) };
            out.push(cqe);
            head = head.wrapping_add(1);
        }
        head_w.store(head, std::sync::atomic::Ordering::SeqCst);
        out
    }

    pub fn cq_ready(&self) -> u32 {
        self.w32(self.cq, self.p.cq_off.tail).load(std::sync::atomic::Ordering::SeqCst).wrapping_sub(self.w32(self.cq, self.p.cq_off.head).load(std::sync::atomic::Ordering::SeqCst))
    }

    /// simk only: complete the oldest in-flight request.
    pub fn sim_complete(&self, out: Out) {
        if self.k.is_sim() {
            simk::with(|k| {
                if let Some(s) = k.reqs.iter().find(|r| !r.done && !matches!(r.opcode, OP_ASYNC_CANCEL | OP_MSG_RING)).map(|r| r.serial) {
                    k.complete(s, out)
                }
            });
        }
    }
}

impl Drop for Raw<'_> {
    fn drop(&mut self) {
        unsafe {
            libc::syscall(libc::SYS_munmap, self.sq, self.lens.0);
            libc::syscall(libc::SYS_munmap, self.cq, self.lens.1);
            libc::syscall(libc::SYS_munmap, self.sqes, self.lens.2);
            libc::close(self.fd);
        }
    }
}

fn cq(c: &[Cqe]) -> String {
    c.iter().map(|c| format!("(ud={},res={},flags={:#x})", c.user_data, c.res, c.flags)).collect::<Vec<_>>().join(" ")
}

fn put32(s: &mut [u8; 64], off: usize, v: u32) {
    s[off..off + 4].copy_from_slice(&v.to_ne_bytes());
}
fn put64(s: &mut [u8; 64], off: usize, v: u64) {
    s[off..off + 8].copy_from_slice(&v.to_ne_bytes());
}

const BASE: u32 = SETUP_SUBMIT_ALL | SETUP_NO_SQARRAY | SETUP_COOP_TASKRUN;

fn pipe() -> (i32, i32) {
    let mut p = [0i32; 2];
    assert_eq!(unsafe { libc::pipe2(p.as_mut_ptr(), libc::O_CLOEXEC) }, 0);
    (p[0], p[1])
}

pub struct Scenario {
    pub name: &'static str,
    pub run: fn(&dyn Kern) -> Vec<String>,
}

fn s_setup_validation(k: &dyn Kern) -> Vec<String> {
    let mut t = Vec::new();
    let cases: &[(u32, u32, u32)] = &[
        (0, BASE, 0),
        (1, BASE, 0),
        (3, BASE, 0),
        (32, BASE, 0),
        (2, BASE | SETUP_CQSIZE, 1),
        (2, BASE | SETUP_CQSIZE, 2),
        (2, BASE | SETUP_CQSIZE, 5),
        (4, BASE | SETUP_CQSIZE, 0),
        (2, BASE | SETUP_DEFER_TASKRUN, 0),
        (2, BASE | SETUP_SINGLE_ISSUER | SETUP_DEFER_TASKRUN, 0),
        (2, (BASE & !SETUP_COOP_TASKRUN) | SETUP_SQPOLL | SETUP_COOP_TASKRUN, 0),
        (2, BASE | SETUP_SQ_AFF, 0),
        (1 << 20, BASE, 0),
        (u32::MAX, BASE | SETUP_CLAMP, 0),
        (2, BASE | SETUP_R_DISABLED, 0),
        (2, BASE | (1 << 30), 0),
    ];
    for (entries, flags, cqe) in cases {
        match Raw::new(k, *entries, *flags, *cqe) {
            Ok(r) => {
                let req = FEAT_NODROP | FEAT_SUBMIT_STABLE | FEAT_RW_CUR_POS | FEAT_SQPOLL_NONFIXED;
                t.push(format!("setup({entries},{flags:#x},cq={cqe}) -> ok sq={} cq={} array0={} flags_echo={} features_required={}", r.p.sq_entries, r.p.cq_entries, r.p.sq_off.array == 0, r.p.flags == *flags, r.p.features & req == req));
            }
            Err(e) => t.push(format!("setup({entries},{flags:#x},cq={cqe}) -> {e}")),
        }
    }
    t
}

fn s_enter_returns(k: &dyn Kern) -> Vec<String> {
    let mut t = Vec::new();
    let r = Raw::new(k, 4, BASE, 0).unwrap();
    t.push(format!("empty wait timeout0 -> {}", r.enter(0, 1, ENTER_GETEVENTS, true)));
    r.push(|s| put64(s, 32, 11));
    r.push(|s| put64(s, 32, 12));
    t.push(format!("submit 2 nops (to_submit=5) -> {}", r.enter(5, 0, 0, true)));
    t.push(format!("cqes: {}", cq(&r.reap())));
    r.push(|s| put64(s, 32, 13));
    t.push(format!("submit 1 + wait 3 timeout0 -> {}", r.enter(1, 3, ENTER_GETEVENTS, true)));
    t.push(format!("cqes: {}", cq(&r.reap())));
    t.push(format!("nothing queued, to_submit=1 -> {}", r.enter(1, 0, 0, true)));
    t
}

fn s_skip_success(k: &dyn Kern) -> Vec<String> {
    let mut t = Vec::new();
    let r = Raw::new(k, 4, BASE, 0).unwrap();
    r.push(|s| {
        s[1] = SQE_CQE_SKIP_SUCCESS;
        put64(s, 32, 21);
    });
    t.push(format!("nop+skip -> {} cqes: {}", r.enter(1, 0, 0, true), cq(&r.reap())));
    // A failing request is not skipped: cancel of something that does not exist.
    r.push(|s| {
        s[0] = OP_ASYNC_CANCEL;
        s[1] = SQE_CQE_SKIP_SUCCESS;
        put64(s, 16, 0xdead_0000);
        put64(s, 32, 22);
    });
    t.push(format!("cancel-notfound+skip -> {} cqes: {}", r.enter(1, 0, 0, true), cq(&r.reap())));
    t
}

fn s_cancel_pending_read(k: &dyn Kern) -> Vec<String> {
    let mut t = Vec::new();
    let r = Raw::new(k, 4, BASE, 0).unwrap();
    let (pr, pw) = pipe();
    let mut buf = [0u8; 8];
    let bp = buf.as_mut_ptr() as u64;
    r.push(|s| {
        s[0] = OP_READ;
        put32(s, 4, pr as u32);
        put64(s, 8, u64::MAX);
        put64(s, 16, bp);
        put32(s, 24, 8);
        put64(s, 32, 0x1000);
    });
    t.push(format!("submit read on empty pipe -> {} ready={}", r.enter(1, 0, 0, true), r.cq_ready()));
    r.push(|s| {
        s[0] = OP_ASYNC_CANCEL;
        put64(s, 16, 0x1000);
        put64(s, 32, 2);
    });
    t.push(format!("submit cancel -> {}", r.enter(1, 2, ENTER_GETEVENTS, true)));
    let mut c = r.reap();
    c.sort_by_key(|c| c.user_data);
    t.push(format!("cqes (sorted): {}", cq(&c)));
    // Cancel again: nothing there any more.
    r.push(|s| {
        s[0] = OP_ASYNC_CANCEL;
        put64(s, 16, 0x1000);
        put64(s, 32, 3);
    });
    t.push(format!("cancel again -> {} cqes: {}", r.enter(1, 1, ENTER_GETEVENTS, true), cq(&r.reap())));
    unsafe {
        libc::close(pr);
        libc::close(pw);
    }
    t
}

fn s_msg_ring(k: &dyn Kern) -> Vec<String> {
    let mut t = Vec::new();
    let r = Raw::new(k, 4, BASE, 0).unwrap();
    let fd = r.fd;
    r.push(|s| {
        s[0] = OP_MSG_RING;
        put32(s, 4, fd as u32);
        put64(s, 8, 1); // off -> user_data of the target CQE
        put64(s, 16, MSG_DATA);
        put32(s, 24, 0); // len -> res
        put64(s, 32, 1);
    });
    t.push(format!("msg_ring to self -> {}", r.enter(1, 2, ENTER_GETEVENTS, true)));
    t.push(format!("cqes: {}", cq(&r.reap())));
    // Through the register call, without a ring.
    let mut sqe = [0u8; 64];
    sqe[0] = OP_MSG_RING;
    put32(&mut sqe, 4, fd as u32);
    put64(&mut sqe, 8, 77);
    put32(&mut sqe, 24, 5);
    t.push(format!("register SEND_MSG_RING -> {}", k.register(-1, REGISTER_SEND_MSG_RING, sqe.as_ptr().cast(), 1)));
    let _ = r.enter(0, 1, ENTER_GETEVENTS, true);
    t.push(format!("cqes: {}", cq(&r.reap())));
    t
}

fn s_disabled(k: &dyn Kern) -> Vec<String> {
    let mut t = Vec::new();
    let r = Raw::new(k, 2, BASE | SETUP_R_DISABLED, 0).unwrap();
    r.push(|s| put64(s, 32, 5));
    t.push(format!("enter on disabled -> {}", r.enter(1, 0, 0, true)));
    t.push(format!("enable -> {}", k.register(r.fd, REGISTER_ENABLE_RINGS, std::ptr::null(), 0)));
    t.push(format!("enable again -> {}", k.register(r.fd, REGISTER_ENABLE_RINGS, std::ptr::null(), 0)));
    t.push(format!("enter -> {} cqes: {}", r.enter(1, 0, 0, true), cq(&r.reap())));
    t
}

fn s_fixed_files(k: &dyn Kern) -> Vec<String> {
    let mut t = Vec::new();
    let r = Raw::new(k, 4, BASE, 0).unwrap();
    let reg = RsrcRegister { nr: 4, flags: RSRC_REGISTER_SPARSE, ..Default::default() };
    t.push(format!("files2 sparse -> {}", k.register(r.fd, REGISTER_FILES2, std::ptr::from_ref(&reg).cast(), size_of::<RsrcRegister>() as u32)));
    t.push(format!("files2 again -> {}", k.register(r.fd, REGISTER_FILES2, std::ptr::from_ref(&reg).cast(), size_of::<RsrcRegister>() as u32)));
    let (pr, pw) = pipe();
    for round in 0..2 {
        let mut fds = [pr];
        let fp = fds.as_mut_ptr() as u64;
        r.push(|s| {
            s[0] = OP_FILES_UPDATE;
            put32(s, 4, u32::MAX);
            put64(s, 8, FILE_INDEX_ALLOC as u64);
            put64(s, 16, fp);
            put32(s, 24, 1);
            put64(s, 32, 30 + round);
        });
        let e = r.enter(1, 0, 0, true);
        r.sim_complete(Out::Default);
        let _ = r.enter(0, 1, ENTER_GETEVENTS, true);
        t.push(format!("files_update alloc -> {e} cqes: {} slot={}", cq(&r.reap()), fds[0]));
    }
    for round in 0..2 {
        r.push(|s| {
            s[0] = OP_CLOSE;
            put32(s, 44, 1); // file_index = slot 0 + 1
            put64(s, 32, 40 + round);
        });
        let e = r.enter(1, 1, ENTER_GETEVENTS, true);
        t.push(format!("close fixed slot 0 -> {e} cqes: {}", cq(&r.reap())));
    }
    // Synchronous removal of slot 1, twice.
    for _ in 0..2 {
        let fds = [-1i32];
        let up = FilesUpdate { offset: 1, resv: 0, fds: fds.as_ptr() as u64 };
        t.push(format!("register files_update(-1) slot 1 -> {}", k.register(r.fd, REGISTER_FILES_UPDATE, std::ptr::from_ref(&up).cast(), 1)));
    }
    unsafe {
        libc::close(pr);
        libc::close(pw);
    }
    t
}

fn s_pbuf(k: &dyn Kern) -> Vec<String> {
    let mut t = Vec::new();
    let r = Raw::new(k, 4, BASE, 0).unwrap();
    let ring_mem = unsafe { libc::mmap(std::ptr::null_mut(), 4096, libc::PROT_READ | libc::PROT_WRITE, libc::MAP_PRIVATE | libc::MAP_ANONYMOUS, -1, 0) } as *mut u8;
    let mut bufs = [[0u8; 16]; 2];
    let reg = BufReg { ring_addr: ring_mem as u64, ring_entries: 2, bgid: 7, ..Default::default() };
    t.push(format!("register pbuf ring -> {}", k.register(r.fd, REGISTER_PBUF_RING, std::ptr::from_ref(&reg).cast(), 1)));
    t.push(format!("register same bgid -> {}", k.register(r.fd, REGISTER_PBUF_RING, std::ptr::from_ref(&reg).cast(), 1)));
    let (pr, pw) = pipe();
    unsafe { libc::write(pw, b"abc".as_ptr().cast(), 3) };
    let read_select = |ud: u64| {
        r.push(|s| {
            s[0] = OP_READ;
            s[1] = SQE_BUFFER_SELECT;
            put32(s, 4, pr as u32);
            put64(s, 8, u64::MAX);
            s[40..42].copy_from_slice(&7u16.to_ne_bytes());
            put64(s, 32, ud);
        });
    };
    read_select(50);
    let e = r.enter(1, 0, 0, true);
    r.sim_complete(Out::Res(3));
    let _ = r.enter(0, 1, ENTER_GETEVENTS, true);
    t.push(format!("read+select, no buffers offered -> {e} cqes: {}", cq(&r.reap())));
    // Offer two buffers: ids 5 and 9, in that order.
    unsafe {
        let e0 = ring_mem as *mut BufRingEntry;
        (*e0).addr = bufs[0].as_mut_ptr() as u64;
        (*e0).len = 16;
        (*e0).bid = 5;
        let e1 = e0.add(1);
        (*e1).addr = bufs[1].as_mut_ptr() as u64;
        (*e1).len = 16;
        (*e1).bid = 9;
        (*(ring_mem.add(14) as *mut std::sync::atomic::AtomicU16)).store(2, std::sync::atomic::Ordering::SeqCst);
    }
    for (i, ud) in [51u64, 52, 53].into_iter().enumerate() {
        if i > 0 {
            unsafe { libc::write(pw, b"xyz".as_ptr().cast(), 3) };
        }
        read_select(ud);
        let e = r.enter(1, 0, 0, true);
        r.sim_complete(Out::Res(3));
        let _ = r.enter(0, 1, ENTER_GETEVENTS, true);
        t.push(format!("read+select #{i} -> {e} cqes: {}", cq(&r.reap())));
    }
    let unreg = BufReg { bgid: 7, ..Default::default() };
    t.push(format!("unregister -> {}", k.register(r.fd, UNREGISTER_PBUF_RING, std::ptr::from_ref(&unreg).cast(), 1)));
    t.push(format!("unregister again -> {}", k.register(r.fd, UNREGISTER_PBUF_RING, std::ptr::from_ref(&unreg).cast(), 1)));
    unsafe {
        libc::close(pr);
        libc::close(pw);
        libc::munmap(ring_mem.cast(), 4096);
    }
    let _ = &mut bufs;
    t
}

fn s_multishot_read(k: &dyn Kern) -> Vec<String> {
    let mut t = Vec::new();
    let r = Raw::new(k, 4, BASE, 0).unwrap();
    let ring_mem = unsafe { libc::mmap(std::ptr::null_mut(), 4096, libc::PROT_READ | libc::PROT_WRITE, libc::MAP_PRIVATE | libc::MAP_ANONYMOUS, -1, 0) } as *mut u8;
    let mut bufs = [[0u8; 16]; 4];
    let reg = BufReg { ring_addr: ring_mem as u64, ring_entries: 4, bgid: 3, ..Default::default() };
    assert_eq!(k.register(r.fd, REGISTER_PBUF_RING, std::ptr::from_ref(&reg).cast(), 1), 0);
    unsafe {
        for i in 0..4 {
            let e = (ring_mem as *mut BufRingEntry).add(i);
            (*e).addr = bufs[i].as_mut_ptr() as u64;
            (*e).len = 16;
            (*e).bid = i as u16;
        }
        (*(ring_mem.add(14) as *mut std::sync::atomic::AtomicU16)).store(4, std::sync::atomic::Ordering::SeqCst);
    }
    let (pr, pw) = pipe();
    r.push(|s| {
        s[0] = OP_READ_MULTISHOT;
        s[1] = SQE_BUFFER_SELECT;
        put32(s, 4, pr as u32);
        put64(s, 8, u64::MAX);
        s[40..42].copy_from_slice(&3u16.to_ne_bytes());
        put64(s, 32, 60);
    });
    t.push(format!("submit multishot read -> {} ready={}", r.enter(1, 0, 0, true), r.cq_ready()));
    for i in 0..2 {
        unsafe { libc::write(pw, b"hello".as_ptr().cast(), 5) };
        r.sim_complete(Out::More(5));
        let _ = r.enter(0, 1, ENTER_GETEVENTS, true);
        t.push(format!("after write #{i}: cqes: {}", cq(&r.reap())));
    }
    unsafe { libc::close(pw) };
    // End of stream: which shape does the final CQE have?
    if k.is_sim() {
        // Filled in by `compare`: simk must be able to produce the real shape.
        t.push("EOF-SHAPE".to_string());
    } else {
        let _ = r.enter(0, 1, ENTER_GETEVENTS, true);
        t.push(format!("after close: cqes: {}", cq(&r.reap())));
    }
    unsafe {
        libc::close(pr);
        libc::munmap(ring_mem.cast(), 4096);
    }
    let _ = &mut bufs;
    t
}

fn s_send_zc(k: &dyn Kern) -> Vec<String> {
    let mut t = Vec::new();
    let r = Raw::new(k, 4, BASE, 0).unwrap();
    // Success on TCP over loopback; an unsupported socket type (AF_UNIX) shows
    // the shape of a failing zero-copy send.
    let listener = std::net::TcpListener::bind("127.0.0.1:0").unwrap();
    let client = std::net::TcpStream::connect(listener.local_addr().unwrap()).unwrap();
    let (_server, _) = listener.accept().unwrap();
    let mut sv = [0i32; 2];
    assert_eq!(unsafe { libc::socketpair(libc::AF_UNIX, libc::SOCK_STREAM | libc::SOCK_CLOEXEC, 0, sv.as_mut_ptr()) }, 0);
    use std::os::fd::AsRawFd;
    let data = *b"zerocopy";
    let dp = data.as_ptr() as u64;
    for (name, fd, sim_out) in [("tcp", client.as_raw_fd(), Out::Default), ("unix", sv[0], Out::Res(-libc::EOPNOTSUPP))] {
        r.push(|s| {
            s[0] = OP_SEND_ZC;
            put32(s, 4, fd as u32);
            put64(s, 16, dp);
            put32(s, 24, 8);
            put64(s, 32, 70);
        });
        let e = r.enter(1, 0, 0, true);
        r.sim_complete(sim_out);
        r.sim_complete(Out::Notif);
        let _ = r.enter(0, 2, ENTER_GETEVENTS, true);
        // The notification may trail on the real kernel.
        let mut c = r.reap();
        for _ in 0..100 {
            if c.len() >= 2 {
                break;
            }
            std::thread::sleep(std::time::Duration::from_millis(2));
            let _ = r.enter(0, 1, ENTER_GETEVENTS, true);
            c.extend(r.reap());
        }
        t.push(format!("send_zc {name} -> {e} cqes: {}", cq(&c)));
    }
    unsafe {
        libc::close(sv[0]);
        libc::close(sv[1]);
    }
    t
}

fn s_overflow(k: &dyn Kern) -> Vec<String> {
    let mut t = Vec::new();
    let r = Raw::new(k, 1, BASE, 0).unwrap();
    for i in 0..3u64 {
        r.push(|s| put64(s, 32, 80 + i));
        let e = r.enter(1, 0, 0, true);
        t.push(format!("nop #{i} -> {e} ready={} overflow_flag={}", r.cq_ready(), r.sq_flags() & SQ_CQ_OVERFLOW != 0));
    }
    t.push(format!("reap: {}", cq(&r.reap())));
    let e = r.enter(0, 1, ENTER_GETEVENTS, true);
    t.push(format!("enter getevents -> {e} cqes: {} overflow_flag={}", cq(&r.reap()), r.sq_flags() & SQ_CQ_OVERFLOW != 0));
    t
}

fn s_sync_cancel(k: &dyn Kern) -> Vec<String> {
    let mut t = Vec::new();
    let r = Raw::new(k, 4, BASE, 0).unwrap();
    let reg = SyncCancelReg { fd: -1, flags: ASYNC_CANCEL_ANY | ASYNC_CANCEL_ALL, timeout_sec: 1, ..Default::default() };
    t.push(format!("sync cancel, nothing pending -> {}", k.register(r.fd, REGISTER_SYNC_CANCEL, std::ptr::from_ref(&reg).cast(), 1)));
    let (pr, pw) = pipe();
    let mut buf = [0u8; 8];
    let bp = buf.as_mut_ptr() as u64;
    r.push(|s| {
        s[0] = OP_READ;
        put32(s, 4, pr as u32);
        put64(s, 8, u64::MAX);
        put64(s, 16, bp);
        put32(s, 24, 8);
        put64(s, 32, 90);
    });
    let _ = r.enter(1, 0, 0, true);
    t.push(format!("sync cancel, one read pending -> {}", k.register(r.fd, REGISTER_SYNC_CANCEL, std::ptr::from_ref(&reg).cast(), 1)));
    let _ = r.enter(0, 1, ENTER_GETEVENTS, true);
    t.push(format!("cqes: {}", cq(&r.reap())));
    unsafe {
        libc::close(pr);
        libc::close(pw);
    }
    t
}

fn s_single_issuer(k: &dyn Kern) -> Vec<String> {
    let mut t = Vec::new();
    let r = Raw::new(k, 2, BASE | SETUP_SINGLE_ISSUER, 0).unwrap();
    r.push(|s| put64(s, 32, 95));
    t.push(format!("enter on the owning thread -> {}", r.enter(1, 0, 0, true)));
    let fd = r.fd;
    let sim = k.is_sim();
    let other = std::thread::spawn(move || {
        let ts = KernelTimespec { tv_sec: 0, tv_nsec: 0 };
        let arg = GeteventsArg { sigmask: 0, sigmask_sz: 0, min_wait_usec: 0, ts: std::ptr::from_ref(&ts) as u64 };
        let k: &dyn Kern = if sim { &Sim } else { &Real };
        k.enter(fd, 0, 0, ENTER_EXT_ARG, std::ptr::from_ref(&arg).cast(), size_of::<GeteventsArg>())
    })
    .join()
    .unwrap();
    t.push(format!("enter (nothing to submit) from another thread -> {other}"));
    r.push(|s| put64(s, 32, 96));
    let other = std::thread::spawn(move || {
        let ts = KernelTimespec { tv_sec: 0, tv_nsec: 0 };
        let arg = GeteventsArg { sigmask: 0, sigmask_sz: 0, min_wait_usec: 0, ts: std::ptr::from_ref(&ts) as u64 };
        let k: &dyn Kern = if sim { &Sim } else { &Real };
        k.enter(fd, 1, 0, ENTER_EXT_ARG, std::ptr::from_ref(&arg).cast(), size_of::<GeteventsArg>())
    })
    .join()
    .unwrap();
    t.push(format!("enter (one to submit) from another thread -> {other}"));
    t
}


/// CQEs with descriptor results normalised (`fd` for any value >= 0).
fn cq_fd(c: &[Cqe]) -> String {
    c.iter().map(|c| format!("(ud={},res={},flags={:#x})", c.user_data, if c.res >= 0 { "fd".to_string() } else { c.res.to_string() }, c.flags)).collect::<Vec<_>>().join(" ")
}

fn wait_cqes(r: &Raw, want: usize) -> Vec<Cqe> {
    let mut c = r.reap();
    for _ in 0..100 {
        if c.len() >= want {
            break;
        }
        let _ = r.enter(0, 1, ENTER_GETEVENTS, true);
        c.extend(r.reap());
        if c.len() < want {
            std::thread::sleep(std::time::Duration::from_millis(1));
        }
    }
    c
}

fn s_direct_alloc(k: &dyn Kern) -> Vec<String> {
    let mut t = Vec::new();
    let r = Raw::new(k, 4, BASE, 0).unwrap();
    let socket = |ud: u64, file_index: u32| {
        r.push(|s| {
            s[0] = OP_SOCKET;
            put32(s, 4, libc::AF_INET as u32);
            put64(s, 8, libc::SOCK_DGRAM as u64);
            put32(s, 44, file_index);
            put64(s, 32, ud);
        });
        let e = r.enter(1, 0, 0, true);
        r.sim_complete(Out::Default);
        let c = wait_cqes(&r, 1);
        (e, c)
    };
    let (e, c) = socket(100, FILE_INDEX_ALLOC);
    t.push(format!("socket direct-alloc without a table -> {e} cqes: {}", cq(&c)));
    let reg = RsrcRegister { nr: 2, flags: RSRC_REGISTER_SPARSE, ..Default::default() };
    assert_eq!(k.register(r.fd, REGISTER_FILES2, std::ptr::from_ref(&reg).cast(), size_of::<RsrcRegister>() as u32), 0);
    for i in 0..3u64 {
        let (e, c) = socket(101 + i, FILE_INDEX_ALLOC);
        t.push(format!("socket direct-alloc #{i} -> {e} cqes: {}", cq(&c)));
    }
    // Free slot 0, allocate again: which slot is handed out?
    r.push(|s| {
        s[0] = OP_CLOSE;
        put32(s, 44, 1);
        put64(s, 32, 110);
    });
    let e = r.enter(1, 1, ENTER_GETEVENTS, true);
    t.push(format!("close direct slot 0 -> {e} cqes: {}", cq(&r.reap())));
    let (e, c) = socket(111, FILE_INDEX_ALLOC);
    t.push(format!("socket direct-alloc after close -> {e} cqes: {}", cq(&c)));
    // Install slot 1 as a regular descriptor.
    for (ud, slot, flags) in [(120u64, 1u32, SQE_FIXED_FILE), (121, 1, 0)] {
        r.push(|s| {
            s[0] = OP_FIXED_FD_INSTALL;
            s[1] = flags;
            put32(s, 4, slot);
            put64(s, 32, ud);
        });
        let e = r.enter(1, 0, 0, true);
        r.sim_complete(Out::Default);
        let c = wait_cqes(&r, 1);
        t.push(format!("fixed_fd_install slot {slot} sqe-flags {flags:#x} -> {e} cqes: {}", cq_fd(&c)));
        if !k.is_sim() {
            for c in &c {
                if c.res >= 0 {
                    unsafe { libc::close(c.res) };
                }
            }
        }
    }
    // Close the same slot twice.
    for ud in [130u64, 131] {
        r.push(|s| {
            s[0] = OP_CLOSE;
            put32(s, 44, 2);
            put64(s, 32, ud);
        });
        let e = r.enter(1, 1, ENTER_GETEVENTS, true);
        t.push(format!("close direct slot 1 -> {e} cqes: {}", cq(&r.reap())));
    }
    r.push(|s| {
        s[0] = OP_FIXED_FD_INSTALL;
        s[1] = SQE_FIXED_FILE;
        put32(s, 4, 1);
        put64(s, 32, 132);
    });
    let e = r.enter(1, 0, 0, true);
    r.sim_complete(Out::Default);
    t.push(format!("fixed_fd_install of an empty slot -> {e} cqes: {}", cq_fd(&wait_cqes(&r, 1))));
    t
}

fn s_pipe_direct(k: &dyn Kern) -> Vec<String> {
    let mut t = Vec::new();
    let r = Raw::new(k, 4, BASE, 0).unwrap();
    let reg = RsrcRegister { nr: 3, flags: RSRC_REGISTER_SPARSE, ..Default::default() };
    assert_eq!(k.register(r.fd, REGISTER_FILES2, std::ptr::from_ref(&reg).cast(), size_of::<RsrcRegister>() as u32), 0);
    for ud in [140u64, 141] {
        let mut fds = [-7i32; 2];
        let fp = fds.as_mut_ptr() as u64;
        r.push(|s| {
            s[0] = OP_PIPE;
            put64(s, 16, fp);
            put32(s, 44, FILE_INDEX_ALLOC);
            put64(s, 32, ud);
        });
        let e = r.enter(1, 0, 0, true);
        r.sim_complete(Out::Default);
        let c = wait_cqes(&r, 1);
        let fds = unsafe { std::ptr::read_volatile(&fds) };
        t.push(format!("pipe direct-alloc -> {e} cqes: {} fds={fds:?}", cq(&c)));
    }
    // Is the slot the failed pipe took first free again?
    for ud in [142u64, 143] {
        r.push(|s| {
            s[0] = OP_SOCKET;
            put32(s, 4, libc::AF_INET as u32);
            put64(s, 8, libc::SOCK_DGRAM as u64);
            put32(s, 44, FILE_INDEX_ALLOC);
            put64(s, 32, ud);
        });
        let e = r.enter(1, 0, 0, true);
        r.sim_complete(Out::Default);
        t.push(format!("socket direct-alloc after failed pipe -> {e} cqes: {}", cq(&wait_cqes(&r, 1))));
    }
    // Regular pipe.
    let mut fds = [-7i32; 2];
    let fp = fds.as_mut_ptr() as u64;
    r.push(|s| {
        s[0] = OP_PIPE;
        put64(s, 16, fp);
        put32(s, 28, libc::O_CLOEXEC as u32);
        put64(s, 32, 144);
    });
    let e = r.enter(1, 0, 0, true);
    r.sim_complete(Out::Default);
    let c = wait_cqes(&r, 1);
    let fds = unsafe { std::ptr::read_volatile(&fds) };
    t.push(format!("pipe regular -> {e} cqes: {} fds-valid={}", cq(&c), fds[0] >= 0 && fds[1] >= 0 && fds[0] != fds[1]));
    if !k.is_sim() {
        unsafe {
            libc::close(fds[0]);
            libc::close(fds[1]);
        }
    }
    t
}

fn s_accept_multishot(k: &dyn Kern) -> Vec<String> {
    use std::os::fd::AsRawFd;
    let mut t = Vec::new();
    let r = Raw::new(k, 4, BASE, 0).unwrap();
    let listener = std::net::TcpListener::bind("127.0.0.1:0").unwrap();
    let addr = listener.local_addr().unwrap();
    let lfd = listener.as_raw_fd();
    let accept = |ud: u64, file_index: u32| {
        r.push(|s| {
            s[0] = OP_ACCEPT;
            s[2..4].copy_from_slice(&ACCEPT_MULTISHOT.to_ne_bytes());
            put32(s, 4, lfd as u32);
            put32(s, 44, file_index);
            put64(s, 32, ud);
        });
        r.enter(1, 0, 0, true)
    };
    let mut clients = Vec::new();
    t.push(format!("submit multishot accept -> {} ready={}", accept(150, 0), r.cq_ready()));
    for i in 0..2 {
        clients.push(std::net::TcpStream::connect(addr).unwrap());
        r.sim_complete(Out::More(i32::MIN));
        let c = wait_cqes(&r, 1);
        t.push(format!("connection #{i}: cqes: {}", cq_fd(&c)));
        if !k.is_sim() {
            for c in &c {
                if c.res >= 0 {
                    unsafe { libc::close(c.res) };
                }
            }
        }
    }
    r.push(|s| {
        s[0] = OP_ASYNC_CANCEL;
        put64(s, 16, 150);
        put64(s, 32, 151);
    });
    let e = r.enter(1, 2, ENTER_GETEVENTS, true);
    let mut c = wait_cqes(&r, 2);
    c.sort_by_key(|c| c.user_data);
    t.push(format!("cancel multishot accept -> {e} cqes (sorted): {}", cq(&c)));
    // Direct allocation into a one-slot table: the second connection cannot be installed.
    let reg = RsrcRegister { nr: 1, flags: RSRC_REGISTER_SPARSE, ..Default::default() };
    assert_eq!(k.register(r.fd, REGISTER_FILES2, std::ptr::from_ref(&reg).cast(), size_of::<RsrcRegister>() as u32), 0);
    t.push(format!("submit multishot accept direct -> {} ready={}", accept(152, FILE_INDEX_ALLOC), r.cq_ready()));
    for i in 0..2 {
        clients.push(std::net::TcpStream::connect(addr).unwrap());
        r.sim_complete(Out::More(i32::MIN));
        let c = wait_cqes(&r, 1);
        t.push(format!("direct connection #{i}: cqes: {}", cq(&c)));
    }
    t.push(format!("nothing further: ready={}", r.cq_ready()));
    t
}

fn s_recvmsg_select(k: &dyn Kern) -> Vec<String> {
    use std::os::fd::AsRawFd;
    let mut t = Vec::new();
    let r = Raw::new(k, 4, BASE, 0).unwrap();
    let ring_mem = unsafe { libc::mmap(std::ptr::null_mut(), 4096, libc::PROT_READ | libc::PROT_WRITE, libc::MAP_PRIVATE | libc::MAP_ANONYMOUS, -1, 0) } as *mut u8;
    let mut bufs = [[0u8; 16]; 2];
    let reg = BufReg { ring_addr: ring_mem as u64, ring_entries: 2, bgid: 5, ..Default::default() };
    assert_eq!(k.register(r.fd, REGISTER_PBUF_RING, std::ptr::from_ref(&reg).cast(), 1), 0);
    unsafe {
        for i in 0..2 {
            let e = (ring_mem as *mut BufRingEntry).add(i);
            (*e).addr = bufs[i].as_mut_ptr() as u64;
            (*e).len = 16;
            (*e).bid = 3 + i as u16;
        }
        (*(ring_mem.add(14) as *mut std::sync::atomic::AtomicU16)).store(2, std::sync::atomic::Ordering::SeqCst);
    }
    let rx = std::net::UdpSocket::bind("127.0.0.1:0").unwrap();
    let tx = std::net::UdpSocket::bind("127.0.0.1:0").unwrap();
    let rxfd = rx.as_raw_fd();
    // msghdr with a name buffer and iov_len entries of (NULL, len).
    let mut name = [0u8; 32];
    let mut iov = [libc::iovec { iov_base: std::ptr::null_mut(), iov_len: 0 }, libc::iovec { iov_base: std::ptr::null_mut(), iov_len: 0 }];
    for (ud, iovlen, want_len) in [(170u64, 1usize, 0usize), (171, 1, 4), (172, 2, 0)] {
        tx.send_to(b"hello", rx.local_addr().unwrap()).unwrap();
        iov[0].iov_len = want_len;
        let mut hdr: libc::msghdr = unsafe { std::mem::zeroed() };
        hdr.msg_name = name.as_mut_ptr().cast();
        hdr.msg_namelen = 32;
        hdr.msg_iov = iov.as_mut_ptr();
        hdr.msg_iovlen = iovlen;
        let hp = std::ptr::from_mut(&mut hdr) as u64;
        r.push(|s| {
            s[0] = OP_RECVMSG;
            s[1] = SQE_BUFFER_SELECT;
            put32(s, 4, rxfd as u32);
            put64(s, 16, hp);
            put32(s, 24, 1);
            s[40..42].copy_from_slice(&5u16.to_ne_bytes());
            put64(s, 32, ud);
        });
        let e = r.enter(1, 0, 0, true);
        r.sim_complete(Out::Res(5));
        let c = wait_cqes(&r, 1);
        t.push(format!("recvmsg+select iovlen={iovlen} iov[0].len={want_len} -> {e} cqes: {} namelen={}", cq(&c), if c.first().is_some_and(|c| c.res >= 0) { hdr.msg_namelen } else { 0 }));
        if c.first().is_some_and(|c| c.res < 0) {
            // The datagram is still queued on the real kernel: take it away.
            let mut b = [0u8; 8];
            unsafe { libc::recv(rxfd, b.as_mut_ptr().cast(), 8, libc::MSG_DONTWAIT) };
        }
    }
    unsafe { libc::munmap(ring_mem.cast(), 4096) };
    let _ = (&mut bufs, &mut name);
    t
}

fn s_multishot_enobufs(k: &dyn Kern) -> Vec<String> {
    let mut t = Vec::new();
    let r = Raw::new(k, 4, BASE, 0).unwrap();
    let ring_mem = unsafe { libc::mmap(std::ptr::null_mut(), 4096, libc::PROT_READ | libc::PROT_WRITE, libc::MAP_PRIVATE | libc::MAP_ANONYMOUS, -1, 0) } as *mut u8;
    let mut bufs = [[0u8; 4]; 1];
    let reg = BufReg { ring_addr: ring_mem as u64, ring_entries: 1, bgid: 4, ..Default::default() };
    assert_eq!(k.register(r.fd, REGISTER_PBUF_RING, std::ptr::from_ref(&reg).cast(), 1), 0);
    unsafe {
        let e = ring_mem as *mut BufRingEntry;
        (*e).addr = bufs[0].as_mut_ptr() as u64;
        (*e).len = 4;
        (*e).bid = 0;
        (*(ring_mem.add(14) as *mut std::sync::atomic::AtomicU16)).store(1, std::sync::atomic::Ordering::SeqCst);
    }
    let (pr, pw) = pipe();
    r.push(|s| {
        s[0] = OP_READ_MULTISHOT;
        s[1] = SQE_BUFFER_SELECT;
        put32(s, 4, pr as u32);
        put64(s, 8, u64::MAX);
        s[40..42].copy_from_slice(&4u16.to_ne_bytes());
        put64(s, 32, 160);
    });
    t.push(format!("submit multishot read, one 4-byte buffer -> {} ready={}", r.enter(1, 0, 0, true), r.cq_ready()));
    unsafe { libc::write(pw, b"abcdefgh".as_ptr().cast(), 8) };
    // The first buffer takes 4 bytes; for the rest there is no buffer.
    r.sim_complete(Out::More(4));
    r.sim_complete(Out::More(4));
    let c = wait_cqes(&r, 2);
    t.push(format!("after 8 bytes: cqes: {}", cq(&c)));
    unsafe {
        libc::close(pr);
        libc::close(pw);
        libc::munmap(ring_mem.cast(), 4096);
    }
    let _ = &mut bufs;
    t
}

/// The kernel takes a buffer whenever the ring tail differs from its head, also when the tail it
/// reads is "behind" the head (what a user-space store of 0 over the tail looks like).
fn s_pbuf_tail_behind_head(k: &dyn Kern) -> Vec<String> {
    let mut t = Vec::new();
    let r = Raw::new(k, 4, BASE, 0).unwrap();
    let ring_mem = unsafe { libc::mmap(std::ptr::null_mut(), 4096, libc::PROT_READ | libc::PROT_WRITE, libc::MAP_PRIVATE | libc::MAP_ANONYMOUS, -1, 0) } as *mut u8;
    let mut bufs = [[0u8; 16]; 2];
    let reg = BufReg { ring_addr: ring_mem as u64, ring_entries: 2, bgid: 3, ..Default::default() };
    t.push(format!("register pbuf ring -> {}", k.register(r.fd, REGISTER_PBUF_RING, std::ptr::from_ref(&reg).cast(), 1)));
    let (pr, pw) = pipe();
    let read_select = |ud: u64| {
        r.push(|s| {
            s[0] = OP_READ;
            s[1] = SQE_BUFFER_SELECT;
            put32(s, 4, pr as u32);
            put64(s, 8, u64::MAX);
            s[40..42].copy_from_slice(&3u16.to_ne_bytes());
            put64(s, 32, ud);
        });
    };
    let tail = unsafe { &*(ring_mem.add(14) as *const std::sync::atomic::AtomicU16) };
    unsafe {
        let e0 = ring_mem as *mut BufRingEntry;
        (*e0).addr = bufs[0].as_mut_ptr() as u64;
        (*e0).len = 16;
        (*e0).bid = 0;
        let e1 = e0.add(1);
        (*e1).addr = bufs[1].as_mut_ptr() as u64;
        (*e1).len = 16;
        (*e1).bid = 1;
    }
    tail.store(2, std::sync::atomic::Ordering::SeqCst);
    // Both buffers are taken: the kernel's head is 2.
    for ud in [60u64, 61] {
        unsafe { libc::write(pw, b"abc".as_ptr().cast(), 3) };
        read_select(ud);
        let e = r.enter(1, 0, 0, true);
        r.sim_complete(Out::Res(3));
        let _ = r.enter(0, 1, ENTER_GETEVENTS, true);
        t.push(format!("read+select -> {e} cqes: {}", cq(&r.reap())));
    }
    // Head == tail: nothing available.
    unsafe { libc::write(pw, b"abc".as_ptr().cast(), 3) };
    read_select(62);
    let e = r.enter(1, 0, 0, true);
    r.sim_complete(Out::Res(3));
    let _ = r.enter(0, 1, ENTER_GETEVENTS, true);
    t.push(format!("head == tail -> {e} cqes: {}", cq(&r.reap())));
    // The tail reads 0 (behind the head, 2): the kernel takes entry head & mask = 0 again, and then entry 1.
    tail.store(0, std::sync::atomic::Ordering::SeqCst);
    for ud in [63u64, 64] {
        read_select(ud);
        let e = r.enter(1, 0, 0, true);
        r.sim_complete(Out::Res(3));
        let _ = r.enter(0, 1, ENTER_GETEVENTS, true);
        t.push(format!("tail 0 behind head -> {e} cqes: {}", cq(&r.reap())));
        unsafe { libc::write(pw, b"abc".as_ptr().cast(), 3) };
    }
    let unreg = BufReg { bgid: 3, ..Default::default() };
    t.push(format!("unregister -> {}", k.register(r.fd, UNREGISTER_PBUF_RING, std::ptr::from_ref(&unreg).cast(), 1)));
    unsafe {
        libc::close(pr);
        libc::close(pw);
        libc::munmap(ring_mem.cast(), 4096);
    }
    let _ = &mut bufs;
    t
}

pub fn scenarios() -> Vec<Scenario> {
    vec![
        Scenario { name: "setup-validation", run: s_setup_validation },
        Scenario { name: "enter-return-values", run: s_enter_returns },
        Scenario { name: "cqe-skip-success", run: s_skip_success },
        Scenario { name: "async-cancel", run: s_cancel_pending_read },
        Scenario { name: "msg-ring", run: s_msg_ring },
        Scenario { name: "disabled-ring", run: s_disabled },
        Scenario { name: "fixed-files", run: s_fixed_files },
        Scenario { name: "provided-buffers", run: s_pbuf },
        Scenario { name: "multishot-read", run: s_multishot_read },
        Scenario { name: "send-zc", run: s_send_zc },
        Scenario { name: "cq-overflow", run: s_overflow },
        Scenario { name: "sync-cancel", run: s_sync_cancel },
        Scenario { name: "single-issuer", run: s_single_issuer },
        Scenario { name: "direct-alloc", run: s_direct_alloc },
        Scenario { name: "pipe-direct", run: s_pipe_direct },
        Scenario { name: "accept-multishot", run: s_accept_multishot },
        Scenario { name: "multishot-read-enobufs", run: s_multishot_enobufs },
        Scenario { name: "recvmsg-buffer-select", run: s_recvmsg_select },
        Scenario { name: "provided-buffers-tail-behind-head", run: s_pbuf_tail_behind_head },
    ]
}

/// Run every scenario on both kernels; returns (scenarios, lines compared, disagreements).
pub fn run_all(verbose: bool) -> (usize, usize, Vec<String>) {
    let mut lines = 0;
    let mut bad = Vec::new();
    let sc = scenarios();
    for s in &sc {
        let real = (s.run)(&Real);
        simk::reset(simk::SetupPlan::default());
        let mut sim = (s.run)(&Sim);
        simk::shutdown();
        // The end-of-stream shape of a multishot read: simk offers both
        // "0 without a buffer" and "0 with a buffer"; the real kernel's must be one of them.
        if let Some(i) = sim.iter().position(|l| l == "EOF-SHAPE") {
            let real_line = real.get(i).cloned().unwrap_or_default();
            let ok = real_line.contains("res=0,flags=0x0)") || (real_line.contains("res=0,flags=0x") && real_line.contains("0001)"));
            sim[i] = if ok { real_line.clone() } else { "EOF-SHAPE not in simk's alphabet".to_string() };
        }
        if verbose {
            println!("== {}", s.name);
        }
        for i in 0..real.len().max(sim.len()) {
            let (a, b) = (real.get(i).cloned().unwrap_or_default(), sim.get(i).cloned().unwrap_or_default());
            lines += 1;
            if verbose {
                println!("   real: {a}\n   simk: {b}");
            }
            if a != b {
                bad.push(format!("{}: real `{a}` vs simk `{b}`", s.name));
            }
        }
    }
    (sc.len(), lines, bad)
}
