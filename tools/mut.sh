#!/bin/bash
# usage: mut.sh <patch-file> <check...>   applies patch to /repo, runs ./check for each, reverts.
set -u
patch="$1"; shift
cd /repo || exit 2
if ! git diff --quiet; then echo "repo dirty"; exit 2; fi
git apply "$patch" || { echo "patch failed"; exit 2; }
for c in "$@"; do
  (cd /verif && ./check $c quick 2>&1 | grep -E "VIOLATION|KNOWN|MACHINERY|signature|histories" | head -8)
  echo "[$c exit=${PIPESTATUS[0]}]"
done
git -C /repo checkout -- .
