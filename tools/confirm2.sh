#!/bin/bash
# usage: confirm2.sh <Cxx> <A|B> <dest-name> <install-cmd> <demo-run-cmd>
# Round-2 seeds live in /tmp/seed2/<Cxx>/seed_out/<A|B>. Confirms in that worktree:
#  (1) the existing suite passes with patch.diff applied (demo not installed),
#  (2) the demo fails with the patch, (3) the demo passes without it.
# install-cmd / demo-run-cmd are run with cwd = worktree; demo-run-cmd's exit code decides.
set -u
p="$1"; x="$2"; dest="/verif/seeded/$3"; install="$4"; run="$5"
wt="${SEEDROOT:-/tmp/seed2}/$p"; so="$wt/seed_out/$x"
cd "$wt" || exit 2
export CARGO_TARGET_DIR="$wt/target" CARGO_NET_OFFLINE=true
clean() { git checkout -q -- . ; git clean -fdq src tests examples 2>/dev/null; }
clean
git apply "$so/patch.diff" || { echo "$p/$x: patch does not apply"; exit 2; }
timeout 1500 cargo test --workspace --no-fail-fast --offline > "$wt/confirm_suite_$x.log" 2>&1 < /dev/null
suite=$?
echo "$p/$x suite exit=$suite: $(grep 'test result' $wt/confirm_suite_$x.log | sed 's/;.*//' | tr '\n' ' ')"
( eval "$install" ) > "$wt/confirm_install_$x.log" 2>&1 || echo "$p/$x install failed: $(tail -3 $wt/confirm_install_$x.log)"
( eval "timeout 900 $run" ) > "$wt/confirm_with_$x.log" 2>&1 < /dev/null; with=$?
echo "$p/$x demo with patch: exit=$with $(grep -E 'test result|panicked' $wt/confirm_with_$x.log | head -2 | tr '\n' ' ' | cut -c1-250)"
clean
( eval "$install" ) > "$wt/confirm_install_$x.log" 2>&1
( eval "timeout 900 $run" ) > "$wt/confirm_without_$x.log" 2>&1 < /dev/null; without=$?
echo "$p/$x demo without patch: exit=$without $(grep -E 'test result' $wt/confirm_without_$x.log | head -2 | tr '\n' ' ')"
clean
if [ "$suite" = 0 ] && [ "$with" != 0 ] && [ "$with" != 124 ] && [ "$without" = 0 ]; then
  mkdir -p "$dest"; cp -r "$so/." "$dest/"
  echo "CONFIRMED $p/$x -> $dest"
else
  echo "NOT CONFIRMED $p/$x (suite=$suite with=$with without=$without)"
fi
