#!/bin/bash
# usage: seedtest.sh <seed-dir-name> <tier> <check...>: applies /verif/seeded/<name>/patch.diff to /repo,
# runs the checks, reverts.
set -u
name="$1"; tier="$2"; shift 2
cd /repo || exit 2
if ! git diff --quiet; then echo "repo dirty"; exit 2; fi
git apply "/verif/seeded/$name/patch.diff" || { echo "patch failed"; exit 2; }
for c in "$@"; do
  out=$(cd /verif && ./check $c $tier 2>&1); code=$?
  echo "$out" | grep -E "VIOLATION|KNOWN|MACHINERY|signature|histories" | head -8
  echo "[$name: $c $tier exit=$code]"
done
git -C /repo checkout -- .
