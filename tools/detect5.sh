#!/bin/bash
# usage: tools/detect4.sh [seed-root] : for every round-5 seed (list below: property, letter, checks)
# applies <seed-root>/<Cxx>/seed_out/<X>/patch.diff to /repo, runs the quick checks named, reverts.
# Run from a /verif checkout (or snapshot); prints one summary block per seed.
set -u
root="${1:-/tmp/seed5}"
here="$(cd "$(dirname "$0")/.." && pwd)"
cd "$here" || exit 2
while read p x checks; do
  [ -z "$p" ] && continue
  patch="$root/$p/seed_out/$x/patch.diff"
  if ! git -C /repo diff --quiet; then echo "repo dirty"; exit 2; fi
  if ! git -C /repo apply "$patch" 2>/dev/null; then
    if ! git -C /repo apply -3 "$patch" 2>/dev/null; then echo "== $p/$x: PATCH DOES NOT APPLY"; git -C /repo checkout -- . ; git -C /repo reset -q; continue; fi
    git -C /repo reset -q
  fi
  echo "== $p/$x"
  for c in $checks; do
    out=$(./check $c quick 2>&1); code=$?
    echo "$out" | grep -E "VIOLATION|MACHINERY|signature|not replayed" | cut -c1-300 | head -12
    echo "   [$p/$x: $c exit=$code]"
  done
  git -C /repo checkout -- .
done <<'LIST'
C03 A C03 C09
C03 B C03
C04 A C04 C18
C04 B C04 C12
C05 A C05
C05 B C05 C01
C06 A C06 C01
C06 B C06
C07 A C07 C13
C07 B C07
C08 A C08
C08 B C08
C09 A C09
C09 B C09
C10 A C10 C13
C10 B C10 C14
C11 A C11
C11 B C11
C12 A C12
C12 B C12
C13 A C13
C13 B C13
C14 A C14 C15
C14 B C14
C15 A C15 C08
C15 B C15
C16 A C16
C16 B C16
C17 A C17
C17 B C17
C18 A C18 C11
C18 B C18
LIST
