#!/bin/bash
# usage: tools/allseeds.sh [tier] : every stored seed against the check of its own property.
set -u
tier="${1:-quick}"
here="$(cd "$(dirname "$0")/.." && pwd)"
cd "$here" || exit 2
for d in /verif/seeded/*/; do
  name=$(basename "$d"); p=${name:0:3}
  if ! git -C /repo diff --quiet; then echo "repo dirty"; exit 2; fi
  if ! git -C /repo apply "$d/patch.diff" 2>/dev/null; then
    if ! git -C /repo apply -3 "$d/patch.diff" 2>/dev/null; then echo "$name: PATCH DOES NOT APPLY"; git -C /repo checkout -- . ; git -C /repo reset -q; continue; fi
    git -C /repo reset -q
  fi
  out=$(./check $p $tier 2>&1); code=$?
  sigs=$(echo "$out" | grep -E "^  signature:" | sed 's/  signature: //' | head -3 | tr '\n' ',')
  echo "$name: $p exit=$code $sigs"
  git -C /repo checkout -- .
done
