#!/bin/bash
# usage: tools/thorough_sanity.sh [props...] : thorough tiers under a short per-harness cap, to see
# that they run and hold on the unchanged tree (the registered thorough commands use the default cap).
here="$(cd "$(dirname "$0")/.." && pwd)"; cd "$here" || exit 2
export A10MC_CAP_S="${A10MC_CAP_S:-90}"
for p in "$@"; do
  t0=$(date +%s)
  out=$(./check $p thorough 2>&1); code=$?
  echo "$out" | grep -E "VIOLATION|signature|harness:|MACHINERY" | cut -c1-300 | head -12
  echo "$out" | tail -1
  echo "[$p thorough exit=$code $(( $(date +%s) - t0 )) s]"
done
