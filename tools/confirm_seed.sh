#!/bin/bash
# usage: confirm_seed.sh <worktree> <dest-name> <demo-test-name (tests/<name>.rs) or "unit:<filter>">
# Confirms in the scratch worktree: (1) existing suite passes with the patch, (2) demo fails with
# the patch, (3) demo passes without it. Copies the seed into /verif/seeded/<dest-name>/.
set -u
wt="$1"; dest="/verif/seeded/$2"; demo="$3"
cd "$wt" || exit 2
export CARGO_TARGET_DIR="$wt/target"
run_demo() {
  if [[ "$demo" == unit:* ]]; then
    timeout 300 cargo test --offline --lib "${demo#unit:}" > "$wt/demo_run.log" 2>&1 < /dev/null
  else
    timeout 300 cargo test --offline --test "$demo" > "$wt/demo_run.log" 2>&1 < /dev/null
  fi
  echo $?
}
git diff -- src > "$wt/confirm_patch.diff"
if [ ! -s "$wt/confirm_patch.diff" ]; then echo "no src patch applied in worktree"; exit 2; fi
# (1) existing suite (exclude the demo test file by moving it away temporarily)
mkdir -p "$wt/.demo_hold"
if [[ "$demo" != unit:* ]]; then mv "tests/$demo.rs" "$wt/.demo_hold/" ; fi
timeout 900 cargo test --workspace --no-fail-fast --offline > "$wt/confirm_suite.log" 2>&1 < /dev/null
suite=$?
if [[ "$demo" != unit:* ]]; then mv "$wt/.demo_hold/$demo.rs" tests/ ; fi
echo "suite exit=$suite: $(grep -c 'test result: ok' $wt/confirm_suite.log) ok groups; $(grep 'test result' $wt/confirm_suite.log | tr '\n' ' ' | cut -c1-300)"
with=$(run_demo); echo "demo with patch: exit=$with  $(grep -E 'test result|panicked' $wt/demo_run.log | head -3 | tr '\n' ' ' | cut -c1-300)"
git stash push -q -- src
without=$(run_demo); echo "demo without patch: exit=$without $(grep -E 'test result' $wt/demo_run.log | head -3 | tr '\n' ' ')"
git stash pop -q
if [ "$suite" = 0 ] && [ "$with" != 0 ] && [ "$without" = 0 ]; then
  mkdir -p "$dest"; cp "$wt/confirm_patch.diff" "$dest/patch.diff"; cp -r "$wt/seed_out/." "$dest/" 2>/dev/null
  cp "$wt/confirm_patch.diff" "$dest/patch.diff"
  echo "CONFIRMED -> $dest"
else
  echo "NOT CONFIRMED"
fi
